"""Binding demonstration: a recorded trace with ONE corrupted field must be rejected by the trace
specification (and the uncorrupted one accepted).  usage: python -m harness.trace_corruption"""
from __future__ import annotations

import copy
import json
import sys

from .core import Check
from .checks import c13


def c13_demo(ck):
    events, res, problems = c13.run_threads(4, 2, {2}, set(), delays=[0.004, 0.0, 0.002, 0.001])
    assert not problems and "out" in res
    events.append({"ev": "return", "w": 0, "out": c13.norm_out(res["out"])})
    good = {"id": 1, "fails": [2], "reraise": [], "events": events}
    variants = {"original": good}
    # (a) a result placed in the wrong slot
    v = copy.deepcopy(good)
    out = v["events"][-1]["out"]
    out[0], out[2] = out[2], out[0]
    variants["returned list permuted"] = v
    # (b) a callback for the failing task
    v = copy.deepcopy(good)
    k = next(i for i, e in enumerate(v["events"]) if e["ev"] == "callback")
    v["events"][k]["i"] = 2
    variants["callback index changed"] = v
    # (c) one worker takes a task out of FIFO order
    v = copy.deepcopy(good)
    gets = [i for i, e in enumerate(v["events"]) if e["ev"] == "in_get" and e["i"] > 0]
    v["events"][gets[0]]["i"], v["events"][gets[1]]["i"] = v["events"][gets[1]]["i"], v["events"][gets[0]]["i"]
    variants["two in_get events swapped (not FIFO)"] = v
    # (d) a removed event (the hook for queue_out.put lost once)
    v = copy.deepcopy(good)
    k = next(i for i, e in enumerate(v["events"]) if e["ev"] == "out_put")
    del v["events"][k]
    variants["one out_put event removed"] = v
    results = {}
    for n, (name, t) in enumerate(variants.items()):
        t = copy.deepcopy(t)
        t["id"] = n
        groups = {(4, 2): [t]}
        before = len(ck.violations)
        c13.validate_traces(ck, groups)
        results[name] = "rejected" if len(ck.violations) > before else "accepted"
    return results


def main():
    import logging
    logging.disable(logging.CRITICAL)
    ck = Check("TRACECORR")
    res = c13_demo(ck)
    import shutil
    shutil.rmtree(ck.work, ignore_errors=True)
    ok = res.pop("original") == "accepted" and all(v == "rejected" for v in res.values())
    print(json.dumps(res, indent=1))
    print("binding demonstration", "OK" if ok else "FAILED")
    sys.exit(0 if ok else 1)


if __name__ == "__main__":
    main()
