"""Generates /verif/MANIFEST.json from the table below (single source of truth for claimed checks)."""
import json
from pathlib import Path

V = Path(__file__).resolve().parent.parent

CHECKS = {
    # id: (technique, level text, level note, design ref)
}
NA = {
    "C18": "Surrogate-model consistency is analytic (derivatives of fitted regressors with exp/sqrt/log kernels, least-squares fits); there is no state, history or schedule to model and no exact-arithmetic slice that TLC's integers could decide (DESIGN.md section 5).",
    "C19": "Probability distributions: CDF/inverse-CDF identities, moments and cross-library agreement are statements about real-valued special functions; no discrete state and no exact slice for TLC (DESIGN.md section 5).",
}


def register(pid, technique, text, note, ref):
    CHECKS[pid] = (technique, text, note, ref)


register("C13", "TLA+ (PlusCal) model of the task/result queue protocol checked by TLC (safety + liveness, all failure subsets); completion orders found by TLC forced on the real executor; recorded queue-event traces validated by a TLA+ trace specification",
         "Exhaustive model checking of the executor protocol for <=4 tasks x <=3 workers x all failing/re-raising subsets (safety and termination), plus conformance in both directions: every completion order of the bounded model is forced on the real thread back-end with gated workers and compared with the model's terminal state; free-running executions are recorded at the queues' linearization points and validated step by step; process back-end and client equivalences (DOE, chains, linearization, finite differences) are compared with the sequential results.",
         "Trusted: TLC, the PlusCal translation, the logging queue.Queue subclass substituted in the harness process (test double), CPython's queue/threading. Process back-end is observed only through outcomes. Bounded: task/worker counts as stated in the evidence.",
         "DESIGN.md section 4 C13")

register("C01", "TLA+ model of the problem-function evaluation variants (key computation, rounding, lookup, compute, store) checked by TLC; transition tour and simulated histories replayed on real OptimizationProblems, comparing returns, database and original-call logs with the TLC states",
         "TLC checks Faithful/JacCoords/Recorded/Memo/append-only keys on every history of the bounded model over 16 preprocessing configurations x a catalogue of 9 design spaces x linear and quadratic functions; every transition of the dumped graphs (plus simulated deeper histories) is executed on a real OptimizationProblem with call-logging functions and the return values, Jacobians, whole database (key order, names, values) and original-call logs are compared exactly with the state TLC computed.",
         "Trusted: TLC; the exact slice (dyadic bounds/points, integer coefficients) on which doubles are exact; harness MDOFunctions. Finite-difference derivatives only for key/memoisation clauses. Bounded: <=3 request points, dimension <=3.",
         "DESIGN.md section 4 C01, 9.4")
register("C02", "TLA+ abstract DesignSpace + implementation-shaped refinement (caches, index map, validity flags) checked by TLC incl. refinement; transition tour of the Impl graph and simulated histories replayed on a real DesignSpace, all public views compared with the View record TLC computes",
         "TLC checks the algebra of views (normalisation bijection, gradient scaling, membership/projection, lossless conversions, index partition) on every reachable abstract state and the coherence of every cached/derived variable of the implementation-shaped module (with the refinement mapping); every transition of the bounded Impl graph is executed on a real DesignSpace and ~25 public views are compared exactly with TLC's values after each step; the rules 'as coded before the fixes' are refuted by TLC on every run (non-vacuity).",
         "Trusted: TLC; eighths lattice with power-of-two widths (exact in doubles); projection through public accessors on deep copies. Dict key order and dtypes are not compared. Bounded: <=3 variables, sizes<=3, depth 4-5 (+ depth-12 simulations).",
         "DESIGN.md section 4 C02, 9.4")
register("C12", "TLA+ crash/restart model of the history backup checked by TLC (every crash point, both backup modes, repeated crashes); BackupTrace.tla validates recorded scenario traces and predicts the file at every discipline execution; children killed in exactly those executions and restarted",
         "Exhaustive model checking of the backup protocol (store -> listeners -> export, crash only while a discipline executes, restart from the file) for bounded runs, plus conformance: traces of real MDO/DOE scenarios are validated by the trace specification, which also predicts the backup file content at every discipline execution; a child process is killed inside that execution and the real HDF5 file must load and equal the prediction (names and values); the restarted child is traced and validated again (no rework, loaded entries kept, same history and optimum when replay is exact), including a second crash on a file that already holds earlier data.",
         "Trusted: TLC, h5py durability of completed writes, os._exit as the crash model (inside Discipline._run only). Restart uses load=True and reset_iteration_counters=False. An existing file with neither load nor erase is outside the documented usage and not exercised. eachIter exactness is at the option's granularity (DESIGN.md C12 note).",
         "DESIGN.md section 4 C12")

ALL = [f"C{i:02d}" for i in range(1, 21)]


def main():
    checks = []
    for pid in ALL:
        if pid not in CHECKS:
            continue
        tech, text, note, ref = CHECKS[pid]
        checks.append({
            "property_id": pid,
            "quick_cmd": f"bin/check {pid} --tier quick",
            "thorough_cmd": f"bin/check {pid} --tier thorough",
            "evidence_file": f"/verif/evidence/{pid}.json",
            "replay_cmd_template": f"bin/check {pid} --replay {{path}}",
            "engine": "tlc+conformance",
            "level_claimed": {"category": "model_checking", "text": text, "design_ref": ref},
            "level_note": note,
            "technique": tech,
        })
    na = [{"property_id": p, "reason": r} for p, r in NA.items()]
    for pid in ALL:
        if pid not in CHECKS and pid not in NA:
            na.append({"property_id": pid, "reason": "check not built yet in this round (planned: DESIGN.md section 4); not claimed until its check is quiet on the unchanged tree and loud on its mutants"})
    hooks_commits = json.loads((V / "hooks.json").read_text()) if (V / "hooks.json").exists() else []
    m = {
        "version": 1,
        "setup_cmd": "bin/setup",
        "hooks": {
            "guard": "GEMSEO_VERIF_TRACE",
            "enable": "none needed so far: the checks observe gemseo through its public API and harness-side test doubles; the guard name is reserved (GEMSEO_VERIF_TRACE=1) for add-only emit() hooks",
            "baseline_off_cmd": "cd /repo && /venv/bin/python -m pytest -ra -q -p no:cacheprovider --timeout=900 --continue-on-collection-errors",
            "source_commits": hooks_commits,
            "add_only": True,
        },
        "engines": [{"name": "tlc+conformance", "path": "/verif/harness", "serves_properties": sorted(CHECKS),
                     "kind_free_text": "TLA+ specifications under /verif/specs checked by TLC 1.8; Python conformance harness (spec->code replay of TLC behaviours, code->spec trace validation by *Trace.tla modules)"}],
        "checks": checks,
        "notes": "See DESIGN.md. known_findings.json lists recorded findings and fix: commits. bin/selftest runs the mutation self-test (mutants/*.patch).",
        "not_applicable": sorted(na, key=lambda d: d["property_id"]),
    }
    (V / "MANIFEST.json").write_text(json.dumps(m, indent=1) + "\n")


if __name__ == "__main__":
    main()
