"""Generates /verif/MANIFEST.json from the table below (single source of truth for claimed checks)."""
import json
from pathlib import Path

V = Path(__file__).resolve().parent.parent

CHECKS = {
    # id: (technique, level text, level note, design ref)
}
NA = {
    "C18": "Surrogate-model consistency is analytic (derivatives of fitted regressors with exp/sqrt/log kernels, least-squares fits); there is no state, history or schedule to model and no exact-arithmetic slice that TLC's integers could decide (DESIGN.md section 5).",
    "C19": "Probability distributions: CDF/inverse-CDF identities, moments and cross-library agreement are statements about real-valued special functions; no discrete state and no exact slice for TLC (DESIGN.md section 5).",
}


def register(pid, technique, text, note, ref):
    CHECKS[pid] = (technique, text, note, ref)


register("C13", "TLA+ (PlusCal) model of the task/result queue protocol checked by TLC (safety + liveness, all failure subsets); completion orders found by TLC forced on the real executor; recorded queue-event traces validated by a TLA+ trace specification",
         "Exhaustive model checking of the executor protocol for <=4 tasks x <=3 workers x all failing/re-raising subsets (safety and termination), plus conformance in both directions: every completion order of the bounded model is forced on the real thread back-end with gated workers and compared with the model's terminal state; free-running executions are recorded at the queues' linearization points and validated step by step; process back-end and client equivalences (DOE, chains, linearization, finite differences) are compared with the sequential results.",
         "Trusted: TLC, the PlusCal translation, the logging queue.Queue subclass substituted in the harness process (test double), CPython's queue/threading. Process back-end is observed only through outcomes. Bounded: task/worker counts as stated in the evidence.",
         "DESIGN.md section 4 C13")

register("C01", "TLA+ model of the problem-function evaluation variants (key computation, rounding, lookup, compute, store) checked by TLC; transition tour and simulated histories replayed on real OptimizationProblems, comparing returns, database and original-call logs with the TLC states",
         "TLC checks Faithful/JacCoords/Recorded/Memo/append-only keys on every history of the bounded model over 16 preprocessing configurations x a catalogue of 9 design spaces x linear and quadratic functions; every transition of the dumped graphs (plus simulated deeper histories) is executed on a real OptimizationProblem with call-logging functions and the return values, Jacobians, whole database (key order, names, values) and original-call logs are compared exactly with the state TLC computed.",
         "Trusted: TLC; the exact slice (dyadic bounds/points, integer coefficients) on which doubles are exact; harness MDOFunctions. Finite-difference derivatives only for key/memoisation clauses. Bounded: <=3 request points, dimension <=3.",
         "DESIGN.md section 4 C01, 9.4")
register("C02", "TLA+ abstract DesignSpace + implementation-shaped refinement (caches, index map, validity flags) checked by TLC incl. refinement; transition tour of the Impl graph and simulated histories replayed on a real DesignSpace, all public views compared with the View record TLC computes",
         "TLC checks the algebra of views (normalisation bijection, gradient scaling, membership/projection, lossless conversions, index partition) on every reachable abstract state and the coherence of every cached/derived variable of the implementation-shaped module (with the refinement mapping); every transition of the bounded Impl graph is executed on a real DesignSpace and ~25 public views are compared exactly with TLC's values after each step; the rules 'as coded before the fixes' are refuted by TLC on every run (non-vacuity).",
         "Trusted: TLC; eighths lattice with power-of-two widths (exact in doubles); projection through public accessors on deep copies. Dict key order and dtypes are not compared. Bounded: <=3 variables, sizes<=3, depth 4-5 (+ depth-12 simulations).",
         "DESIGN.md section 4 C02, 9.4")
register("C03", "TLA+ model of the driver budget protocol (unconstrained optimizer environment, gemseo's responses, counter, listeners, termination causes, DOE loop, repeated executions) checked by TLC; recorded runs of 48 factory algorithms validated by DriverTrace.tla; behaviours of the Driver graph forced on gemseo with a scripted library",
         "TLC checks Budget, BudgetTight, CounterExact/Final, AlwaysResult, NoListenerLeak and DoeOrder on every behaviour of the bounded protocol model; every optimizer and DOE of the factories that runs offline is executed over problems x budgets x normalisation x repeated executions (with and without counter reset) with events logged from inside the user callables and public database listeners, and each trace is validated step by step by the trace specification with the invariants evaluated by TLC in every state; termination x budget combinations that real optimizers rarely produce are replayed from the TLC graph through a scripted optimisation library / CustomDOE and the final states compared.",
         "Trusted: TLC; probe points of finite differences are collapsed by the recorder (excepted by the property); sub-level budgets of composite algorithms are not checked; MNBI, PYDOE_BBDESIGN skipped with reasons in the evidence; NLOPT_NEWUOA (D0305) and MultiStart+normalisation (D0306) are recorded findings.",
         "DESIGN.md section 4 C03, 9.4")
register("C04", "TLA+ relation Acceptable(history, cfg, report) + transcription Select of the code's algorithm checked by TLC on every bounded history (initial-state enumeration); every instance replayed on a real Database/OptimizationProblem and the REPORTS judged by TLC (OptHistoryReport / OptParetoReport)",
         "TLC proves on every history of the bounded family that the (repaired) selection algorithm satisfies the relation and that the violation measure equals the documented formula; every enumerated instance is built as a real Database + OptimizationProblem, and problem.optimum, OptimizationResult.from_optimization_problem, last_point, feasible_points, check_design_point_is_feasible, Pareto fronts are fed back to TLC which evaluates the relation clause by clause on the real reports (ties and under-specified cases are accepted as a relation; a tie-breaking change is a negative control).",
         "Trusted: TLC; values are quarters (exact). Feasible = every constraint recorded and within tolerance. Vector objectives only in the Pareto clause. Bounded: <=3 (thorough 4) points, <=2 constraints.",
         "DESIGN.md section 4 C04, 9.4")
register("C05", "TLA+ property layer (transparency clauses) + code-shaped cache model (hash index, tolerance scan, by-reference/by-copy storage, Jacobian levels, reopen) checked by TLC; transition tours replayed on harness disciplines with every real cache kind, with collision injection; recorded returns validated by DiscCacheTrace.tla",
         "TLC checks TransparentOut/TransparentJac, AtMostOnce, CallerCannotCorrupt, SimpleKeepsLast, ReopenSame and the coherence of the code-shaped model on every execute/linearize/mutate-in-place/set-diff/clear/reopen history of the bounded models per (cache kind, tolerance, hash collision), and refutes the pre-fix storage rules on every run; every transition tour is executed on a real discipline (several inputs/outputs, self-coupled variable, dense and sparse Jacobians, caller arrays edited in place) with SimpleCache, MemoryFullCache (shared/local), HDF5Cache and no cache; returns, entries and counters are compared with TLC's states and the recorded returns are judged clause by clause by a trace specification (which admissible entry is served is a relation).",
         "Trusted: TLC; 1-D lattice on which the tolerance relation is decided exactly; hash collisions are injected by rebinding hash_data inside the harness worker process (test double). Switching cache kind mid-history and cache API reads (last_entry, update, +) are not modelled.",
         "DESIGN.md section 4 C05, 9.4")
register("C06", "TLA+ exact dyadic model (BigNat limbs) of Jacobi / Gauss-Seidel sweeps, relaxation, residual scalings and stop test, MDAChain staging, second executions and warm start, checked by TLC; recorded executions of MDAJacobi/MDAGaussSeidel/MDAChain validated step by step by MDATrace.tla; all MDA classes x accelerations x relaxations judged by MDAReport.tla against the exact solution and error bounds computed by TLC",
         "TLC checks NilExact/NilStop (nilpotent family: exact fixed point after N sweeps, for every order and graph), APriori/APost error bounds (contractive family), ChainEqualsMonolithic and Budget on enumerated linear coupled systems (2-3 disciplines, sizes 1-2, weak head/tail, two groups, self-coupled), and refutes the pre-fix Gauss-Seidel rule on every run; every discipline execution of real un-accelerated MDAs is a trace event whose inputs/outputs must equal the specification's exact dyadic iterates, and the final values and re-execution residuals of all 7 factory MDA classes (+ MDAChain with 5 inner classes) x 6 accelerations x relaxations x scalings are judged by TLC against Exact within Amp*tol*S.",
         "Trusted: TLC; linear systems on the exact slice (22-bit envelope limits the number of exact sweeps); Newton-like classes and acceleration methods are checked by result only; D17 and D0603 (Aitken/secant with relaxation, Aitken on nilpotent systems) are recorded findings (numerical-method limitations).",
         "DESIGN.md section 4 C06, 9.4")
register("C07", "TLA+ exact integer model of the coupled-derivative assembly (minimal couplings by two-way traversal with merged groups and caches, block layout, -I residual diagonal, direct/adjoint solves, split by variable) vs an independent closed form, checked by TLC; instances and request histories replayed on real MDAs / JacobianAssembly",
         "TLC checks IFT (the closed form satisfies the implicit-function equations), AssembledIsClosedForm, DirectEqAdjoint, SubsetIndependence, StructuralZeros, Shapes, CacheCoherent and NoRaise on every enumerated unimodular system (9 topologies incl. weak head/tail, self-coupled, two groups in sequence; sizes 1-2) and request history, and refutes the pre-fix rules on every run; each instance and history is replayed on real MDA classes and JacobianAssembly.total_derivatives over mode x matrix type x LU x solvers x Jacobian kinds and every block equals TLC's integer block to 1e-9 with its shape.",
         "Trusted: TLC; unimodular residual Jacobians (integer inverse, condition number small). Disciplines with residual/state variables, conditioning and iterative-solver tolerances are outside the slice.",
         "DESIGN.md section 4 C07, 9.4")
register("C08", "TLA+ definitions of the dependency graph, SCCs, the ValidSequence relation and the documented coupling sets + the code-shaped peel/reverse construction checked by TLC on every enumerated graph; real CouplingStructure/DependencyGraph/chains results fed back to TLC (DepGraphReport) which evaluates every clause",
         "TLC checks on every enumerated system (all graphs with <=3 nodes incl. self-loops, isolated nodes, duplicated names, all listing orders; n=4 sampled in quick and exhaustive in thorough; shared-variable families) that the code-shaped construction yields a valid schedule and that exact composition holds on the nilpotent integer slice; each instance is built as real disciplines and the sequences, coupling sets and the outputs/execution orders of MDOChain, MDOParallelChain, MDOInitializationChain and MDAChain are judged by TLC against the relation (valid alternative schedules are accepted; negative controls stay quiet).",
         "Trusted: TLC; integer data-flow disciplines (exact); exact composition is demanded where each name has a single producer; MDA exactness only with unaccelerated fixed-point iterations on the nilpotent slice. n>=6 not covered.",
         "DESIGN.md section 4 C08, 9.4")
register("C09", "TLA+ exact integer model of composite linearization (forward total derivatives vs the code-shaped reverse accumulation with its caches, over request histories) checked by TLC; instances and request histories replayed on real chains (dense/sparse/operator Jacobians) and every block compared exactly",
         "TLC checks AccIsTotal, RequestIndependence, PathSumIsTotal, Shapes and StructuralZeros for every enumerated topology class (diamond, fan-in/out, pass-through, overwritten, isolated, duplicated outputs...) and request history on the implementation-shaped model (the pre-fix rules are refuted by TLC on every run); seeded instances and request histories (up to 3 successive requests, plus exhaustive histories over a request alphabet) are replayed on real MDOChain / MDOParallelChain / MDOAdditiveChain / nested chains / MDAChain and every requested block and shape equals the block TLC computed.",
         "Trusted: TLC; integer partials (exact in doubles), polynomial leaves at integer points. <=4 leaves; leaves reading and writing the same name and additive chains nested in chains are not covered.",
         "DESIGN.md section 4 C09, 9.4")
register("C10", "TLA+ exact dyadic model of the function algebra (26 operators over polynomial/linear/quadratic leaves: value and Jacobian rules with shapes, operand observations) checked by TLC incl. a stencil self-check of the rules; every enumerated (tree, point) replayed on real MDOFunctions and compared exactly",
         "TLC enumerates expression trees (depth <=1 quick, <=2 thorough + sampled depth 3) x lattice points, checks NoOperandMutation, shapes, quotient consistency, Taylor contact, aggregation identities and validates its own differentiation rules against a five-point stencil (exact for degree <=4); every instance is built from real gemseo objects and evaluate/jac of the tree and of every subtree before and after are compared with == to TLC's numbers.",
         "Trusted: TLC; dyadic slice (divisors and steps powers of two). KS/IKS smooth maxima are NOT claimed (exponentials are outside TLA+). 'For all real x' is replaced by lattice points (4 per axis).",
         "DESIGN.md section 4 C10, 9.4")
register("C11", "TLA+ abstract database store/export/load model + file-layout refinement of _hdf_database.py (refinement checked by TLC); transition tour replayed on real Databases with real HDF5 files (reload + raw h5py layout vs TLC state); recorded histories validated by HDFStoreTrace.tla; design-space and cache file models",
         "TLC checks RoundTrip, AppendEqualsFull, IndexConsistency and the refinement HDFStoreImpl => HDFStore on every store/store-more/export(append|full)/load history of the bounded model; every transition of the implementation graph is executed on a real Database (root and nested node, also owned by an OptimizationProblem) and after each export the reloaded database, the raw HDF5 layout and the problem description are compared with TLC's state; random store/export histories recorded from the real code are validated by a trace specification; DesignSpaceFile.tla / HDFCacheFile.tla cover design-space CSV/HDF5 files and cache reopening.",
         "Trusted: TLC, h5py. Values are distinguishable exactly representable floats. Overwriting an existing output with a different value between exports and deletions are outside the property. Bounded: <=3 keys, <=5 names per model configuration.",
         "DESIGN.md section 4 C11, 9.4")
register("C14", "TLA+ model of the DOE pipeline around the opaque sampler (seeder, integer-normalisation toggle, affine image, rounding, count rules per family) checked by TLC; call histories from the model replayed; recorded calls of all 30 DOE algorithms validated by DOETrace.tla with a monitor of the UnitCube assumption",
         "TLC checks the pipeline invariants (in bounds, integral, image of the unit samples, count rule per algorithm family, seed rule, determinism, flag restored) for every sampler satisfying the UnitCube assumption over bounded call histories; all algorithms of the DOE factory x spaces x sample counts x seeds x seeder histories are recorded and every call is judged clause by clause by the trace specification, which also monitors the assumption on what the wrappers return.",
         "Trusted: TLC; the sampling libraries are opaque (assumption UnitCube, monitored). Off-grid samples are compared through exact three-way comparison codes computed with fractions. The flag left on after a call that raised is reported as an observation, not a violation.",
         "DESIGN.md section 4 C14, 9.4")
register("C15", "TLA+ abstract grammar algebra + implementation-shaped model (validator snapshot, cached schema, required-names object) checked by TLC; transition tours, staleness paths and simulated histories replayed on JSONGrammar/SimpleGrammar/PydanticGrammar; probe verdicts computed by TLC and cross-checked with the reference jsonschema validator",
         "TLC checks WellFormed, QueriesPure, NoStaleValidator, NoSharing and export correctness on every edit history of the bounded models; every transition (plus 'fill a view, edit, query again' paths and random deep histories) is executed on real grammars and keys/required names/defaults/namespaces, validate() on ~60 state-dependent probe dictionaries, to_json()/schema and to_simple_grammar() are compared with what TLC computed; the exported schemas and probes are also judged by the reference jsonschema validator (three-way agreement), as are the 25 JSON grammar files shipped with gemseo.",
         "Trusted: TLC; reference jsonschema run under python3-vt; HasType is per grammar class (JSON-schema typing after gemseo's cast / isinstance). Genson merge corner cases listed in the evidence assumptions are outside the modelled merge algebra.",
         "DESIGN.md section 4 C15, 9.4")
register("C16", "TLA+ exact dyadic model of forward/centred/complex-step quotients, perturbation placement and bound handling, enumerated as initial states and checked by TLC; every instance replayed on the real approximators, disciplines and problems with point-logging functions",
         "TLC checks Shape, WithinBounds, OneComponent and ErrorEqualsOrderTerm (the truncation error equals the method's order term) on every enumerated instance (methods x subsets x steps x points on/near bounds x design-space modes); every instance is executed on the real FirstOrderFD/CenteredDifferences/ComplexStep (serial, processes, threads), DisciplineJacApprox, linearization modes, check_jacobian(indices) and OptimizationProblem differentiation; values equal the specification's dyadic numbers exactly (complex step 1e-12) and the logged evaluation points equal the specification's set.",
         "Trusted: TLC; exact dyadic slice (polynomials of degree <=3, steps 2^-3..2^-6). Round-off regime, non-polynomial functions and the optimal-step estimator are not covered. D20 (thread back-end of the approximators) is a recorded finding.",
         "DESIGN.md section 4 C16, 9.4")
register("C17", "TLA+ exact model of MDF/IDF/DisciplinaryOpt/BiLevel views of enumerated linear coupled systems (unimodular I-B) checked by TLC; every instance built as real formulations and compared (spaces, values, Jacobians, masks, rejections)",
         "TLC checks SpacesExact, RejectExact, SameValues, ConsistencyVanishes, ConsistentDerivatives, EquilibriumConsistent, DOptAgrees on every enumerated system (12 topologies, sizes 1-2, dyadic coupling bounds); each instance is built as real formulations on harness disciplines and design-space variable names, constraint counts, objective/constraint values and Jacobians at lattice points, input masks, IDF start-at-equilibrium values and IDF rejections are compared with TLC's records; two convex quadratic instances check that MDF and IDF reach the optimum the specification knows.",
         "Trusted: TLC; exact slice (integer blocks, unimodular residual Jacobian); MDF quantities to 1e-9 with MDA tolerance 1e-14. BiLevel only for variable sets.",
         "DESIGN.md section 4 C17, 9.4")
register("C12", "TLA+ crash/restart model of the history backup checked by TLC (every crash point, both backup modes, repeated crashes); BackupTrace.tla validates recorded scenario traces and predicts the file at every discipline execution; children killed in exactly those executions and restarted",
         "Exhaustive model checking of the backup protocol (store -> listeners -> export, crash only while a discipline executes, restart from the file) for bounded runs, plus conformance: traces of real MDO/DOE scenarios are validated by the trace specification, which also predicts the backup file content at every discipline execution; a child process is killed inside that execution and the real HDF5 file must load and equal the prediction (names and values); the restarted child is traced and validated again (no rework, loaded entries kept, same history and optimum when replay is exact), including a second crash on a file that already holds earlier data.",
         "Trusted: TLC, h5py durability of completed writes, os._exit as the crash model (inside Discipline._run only). Restart uses load=True and reset_iteration_counters=False. An existing file with neither load nor erase is outside the documented usage and not exercised. eachIter exactness is at the option's granularity (DESIGN.md C12 note).",
         "DESIGN.md section 4 C12")

register("C20", "TLA+ two-world (original / restored copy) model of serialisation with heap cells per attribute (cache, counters, grammar defaults, data, settings) and persistent HDF files, checked by TLC (one-step bisimulation after Pickle, no sharing, counters by value, file attachment); transition tours replayed on 57 factory classes x cache kinds x grammar kinds with pickle / to_pickle / a second interpreter",
         "TLC checks SameBehaviour (after Pickle every action has the same enabledness, return and successor in both worlds, at every prefix depth), NoSharing (an action on one world leaves the other's cells unchanged), CountersByValue and StaysAttached on every prefix.Pickle.suffix behaviour of 9 configurations, and refutes projections that share or drop an attribute (non-vacuity); tours of the dumped graphs are replayed on every constructible class of the discipline and MDA factories (57 of 62; skipped ones listed with the reason), scenarios, functions, problems and design spaces, projecting both real objects after every step and comparing with the TLC successor; a never-pickled twin arbitrates deviations that are not due to serialisation.",
         "Trusted: TLC; pickle/to_pickle/subprocess round trips. Scenarios only in the 'stateful' configuration; surrogate/ODE disciplines not with simple grammars. D11 (two HDF5Cache objects on one node have stale indexes) is a recorded finding (no small repair).",
         "DESIGN.md section 4 C20, 9.4")

ALL = [f"C{i:02d}" for i in range(1, 21)]


def main():
    checks = []
    for pid in ALL:
        if pid not in CHECKS:
            continue
        tech, text, note, ref = CHECKS[pid]
        checks.append({
            "property_id": pid,
            "quick_cmd": f"bin/check {pid} --tier quick",
            "thorough_cmd": f"bin/check {pid} --tier thorough",
            "evidence_file": f"/verif/evidence/{pid}.json",
            "replay_cmd_template": f"bin/check {pid} --replay {{path}}",
            "engine": "tlc+conformance",
            "level_claimed": {"category": "model_checking", "text": text, "design_ref": ref},
            "level_note": note,
            "technique": tech,
        })
    na = [{"property_id": p, "reason": r} for p, r in NA.items()]
    for pid in ALL:
        if pid not in CHECKS and pid not in NA:
            na.append({"property_id": pid, "reason": "check not built yet in this round (planned: DESIGN.md section 4); not claimed until its check is quiet on the unchanged tree and loud on its mutants"})
    hooks_commits = json.loads((V / "hooks.json").read_text()) if (V / "hooks.json").exists() else []
    m = {
        "version": 1,
        "setup_cmd": "bin/setup",
        "hooks": {
            "guard": "GEMSEO_VERIF_TRACE",
            "enable": "none needed so far: the checks observe gemseo through its public API and harness-side test doubles; the guard name is reserved (GEMSEO_VERIF_TRACE=1) for add-only emit() hooks",
            "baseline_off_cmd": "cd /repo && /venv/bin/python -m pytest -ra -q -p no:cacheprovider --timeout=900 --continue-on-collection-errors",
            "source_commits": hooks_commits,
            "add_only": True,
        },
        "engines": [{"name": "tlc+conformance", "path": "/verif/harness", "serves_properties": sorted(CHECKS),
                     "kind_free_text": "TLA+ specifications under /verif/specs checked by TLC 1.8; Python conformance harness (spec->code replay of TLC behaviours, code->spec trace validation by *Trace.tla modules)"}],
        "checks": checks,
        "notes": "See DESIGN.md. known_findings.json lists recorded findings and fix: commits. bin/selftest runs the mutation self-test (mutants/*.patch).",
        "not_applicable": sorted(na, key=lambda d: d["property_id"]),
    }
    (V / "MANIFEST.json").write_text(json.dumps(m, indent=1) + "\n")


if __name__ == "__main__":
    main()
