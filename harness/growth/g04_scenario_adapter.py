"""G04 (specification growth) - life cycle of a scenario executed repeatedly, directly and through
MDOScenarioAdapter: specs/ScenarioAdapter.tla.

The specification does not model the optimizer: an inner run is an environment that evaluates points (the samples
the caller scripted for a DOEScenario / CustomDOE; the start point first for an MDOScenario / SLSQP) and returns the
best recorded one.  It states what the adapter and BaseScenario do AROUND the run: the database is cleared before each
run made through the adapter (no value of run k is served in run k+1), the start point is x0 / the adapter input /
the point left by the previous run as reset_x0_before_opt / set_x0_before_opt say, the outputs are the optimum of
THIS run with the objective value for THIS parameter, keep_opt_history keeps one untouched copy of the database per
run, the adapter's cache answers a repeated input without running anything; without the adapter, a scenario run
again with clear_history_before_execute = False keeps its database (keyed by x only) and serves stale values - the
hazard the flag exists for, which TLC must exhibit (NoStaleAfterRun refuted) while NoStaleIfClear holds.

Binding (spec -> code): TLC dumps the state graph of every behaviour of <= MaxSteps public calls for every
configuration (mode x inner kind x x0 policy x keep_opt_history x adapter cached or not); a transition tour (seeded sample of it in the
quick tier) is replayed on real objects - a harness discipline y = (3x - 3a - 1)^2, DOEScenario or MDOScenario
(subclassed in the harness only to record the design value when the inner run begins), MDOScenarioAdapter - and after
every call the projection (design value, discipline default, flag, database entries, adapter.databases, adapter cache
entry, returned outputs, start point, number of inner runs) is compared with the state TLC computed.
Python only transports values: every expected number, and the scripted sample lists, come from TLC.
"""
from __future__ import annotations

import random

import numpy as np

from ..core import Graph, MachineryError

TAG = "growth-g04"
INVS = ["TypeOK", "DbKeyed", "NoLeak", "OutputsOfThisRun", "KeepCount", "StoredOwnRun", "Reproducible"]
PROPS = ["StoredImmutable", "StartPolicy", "NoStaleIfClear"]
X0 = 2
XTOL, YTOL = 1e-5, 1e-6


def _set(vals, quote=False):
    def one(v):
        if isinstance(v, bool):
            return "TRUE" if v else "FALSE"
        return f'"{v}"' if quote else str(v)
    return "{" + ", ".join(one(v) for v in vals) + "}"


def cfg(modes, kinds, policies, keeps, cacheds, a_values, x_values, menu_ids, max_steps, *, invs=INVS, props=PROPS,
        view=False):
    s = (f"CONSTANTS Modes = {_set(modes, True)}\n Kinds = {_set(kinds, True)}\n Policies = {_set(policies, True)}\n"
         f" Keeps = {_set(keeps)}\n Cacheds = {_set(cacheds)}\n As = {_set(a_values)}\n Xs = {_set(x_values)}\n MenuIds = {_set(menu_ids)}\n"
         f" X0 = {X0}\n MaxSteps = {max_steps}\nSPECIFICATION Spec\nCHECK_DEADLOCK FALSE\n")
    if view:
        s += "VIEW ImplView\n"
    for i in invs:
        s += f"INVARIANT {i}\n"
    for p in props:
        s += f"PROPERTY {p}\n"
    return s


# ------------------------------------------------------------------ the real objects

_CLASSES = {}


def _inner():
    """y = (3x - 3a - 1)^2 (a plain harness discipline: cheaper to build than an AnalyticDiscipline)."""
    if "inner" not in _CLASSES:
        from gemseo.core.discipline import Discipline

        class Inner(Discipline):
            def __init__(self):
                super().__init__("inner")
                self.io.input_grammar.update_from_names(["x", "a"])
                self.io.output_grammar.update_from_names(["y"])
                self.io.input_grammar.defaults = {"x": np.array([0.0]), "a": np.array([0.0])}

            def _run(self, input_data):
                return {"y": (3.0 * input_data["x"] - 3.0 * input_data["a"] - 1.0) ** 2}

            def _compute_jacobian(self, input_names=(), output_names=()):
                d = self.io.data
                r = 2.0 * (3.0 * d["x"] - 3.0 * d["a"] - 1.0)
                self.jac = {"y": {"x": np.atleast_2d(3.0 * r), "a": np.atleast_2d(-3.0 * r)}}

        _CLASSES["inner"] = Inner
    return _CLASSES["inner"]()


def _hooked(kind):
    """DOEScenario / MDOScenario recording the design value at the moment the inner run begins."""
    if kind not in _CLASSES:
        from gemseo.scenarios.doe_scenario import DOEScenario
        from gemseo.scenarios.mdo_scenario import MDOScenario
        base = DOEScenario if kind == "doe" else MDOScenario

        class Hooked(base):
            def _execute(self):
                self.g04_starts.append(float(self.design_space.get_current_value()[0]))
                super()._execute()

        Hooked.__name__ = f"Hooked{base.__name__}"
        _CLASSES[kind] = Hooked
    return _CLASSES[kind]


class World:
    def __init__(self, mode, kind, policy, keep, cached, menus):
        from gemseo.algos.design_space import DesignSpace
        from gemseo.disciplines.scenario_adapters.mdo_scenario_adapter import MDOScenarioAdapter

        self.mode, self.kind, self.policy, self.keep, self.cached, self.menus = mode, kind, policy, keep, cached, menus
        self.disc = _inner()
        self.space = DesignSpace()
        self.space.add_variable("x", lower_bound=0.0, upper_bound=3.0, value=float(X0))
        self.scenario = _hooked(kind)([self.disc], "y", self.space, formulation_name="DisciplinaryOpt")
        self.scenario.g04_starts = []
        self.adapter = None
        if mode == "adapter":
            self.adapter = MDOScenarioAdapter(
                self.scenario, ["a"] + (["x"] if policy == "set" else []), ["x", "y"],
                reset_x0_before_opt=policy == "reset", set_x0_before_opt=policy == "set", keep_opt_history=keep)
            if not cached:
                self.adapter.set_cache(self.adapter.CacheType.NONE)
        self.n_adapter_runs = 0

    # -- actions
    def _settings(self, mi):
        if self.kind == "doe":
            samples = np.array([[float(v)] for v in self.menus[mi - 1]])
            self.scenario.set_algorithm(algo_name="CustomDOE", samples=samples)
        else:
            self.scenario.set_algorithm(algo_name="SLSQP", max_iter=50)

    def execute_adapter(self, a, xin, mi):
        self._settings(mi)
        data = {"a": np.array([float(a)])}
        if self.policy == "set":
            data["x"] = np.array([float(xin)])
        n = len(self.scenario.g04_starts)
        out = self.adapter.execute(data)
        ran = len(self.scenario.g04_starts) - n
        self.n_adapter_runs += ran
        return {"x": 3.0 * float(out["x"][0]), "y": float(np.asarray(out["y"]).ravel()[0]), "hit": ran == 0,
                "a": float(out["a"][0])}

    def run_scenario(self, mi):
        self._settings(mi)
        self.scenario.execute()
        r = self.scenario.optimization_result
        return {"x": 3.0 * float(r.x_opt[0]), "y": float(np.asarray(r.f_opt).ravel()[0]), "hit": False,
                "a": float(self.disc.io.input_grammar.defaults["a"][0])}

    def set_current(self, v):
        self.space.set_current_value(np.array([float(v)]))

    def set_clear(self, b):
        self.scenario.clear_history_before_execute = bool(b)

    def set_default(self, a):
        self.disc.io.input_grammar.defaults["a"] = np.array([float(a)])

    # -- projection
    @staticmethod
    def _db(database):
        out = []
        for x, vals in database.items():
            y = vals.get("y")
            out.append((3.0 * float(x.unwrap()[0]), None if y is None else float(np.asarray(y).ravel()[0])))
        return out

    def projection(self):
        p = {"cur": 3.0 * float(self.space.get_current_value()[0]),
             "adef": float(self.disc.io.input_grammar.defaults["a"][0]),
             "clear": bool(self.scenario.clear_history_before_execute),
             "db": self._db(self.scenario.formulation.optimization_problem.database),
             "start": 3.0 * (self.scenario.g04_starts[-1] if self.scenario.g04_starts else float(X0)),
             "nruns": self.n_adapter_runs, "stored": [], "cache": None}
        if self.adapter is not None:
            p["stored"] = [self._db(d) for d in self.adapter.databases]
            c = self.adapter.cache
            if c is not None and len(c):
                e = c.last_entry
                p["cache"] = {"a": float(e.inputs["a"][0]),
                              "xin": float(e.inputs["x"][0]) if "x" in e.inputs else None,
                              "x": 3.0 * float(e.outputs["x"][0]), "y": float(np.asarray(e.outputs["y"]).ravel()[0])}
        return p


def _close(a, b, tol):
    return b is not None and abs(float(a) - float(b)) <= tol


def _diff_db(name, spec_db, partial, real_db):
    d = []
    if (len(real_db) < len(spec_db)) or (not partial and len(real_db) != len(spec_db)):
        d.append((f"{name}.length", len(spec_db), len(real_db)))
    for k, (e, r) in enumerate(zip(spec_db, real_db), 1):
        if not _close(e["x"], r[0], XTOL) or not _close(e["y"], r[1], YTOL):
            d.append((f"{name}[{k}]", (e["x"], e["y"]), r))
    return d


def diff(spec, proj, res):
    d = []
    if not _close(spec["cur"], proj["cur"], XTOL):
        d.append(("design_value", spec["cur"], proj["cur"]))
    if not _close(spec["adef"], proj["adef"], 0):
        d.append(("discipline_default_a", spec["adef"], proj["adef"]))
    if bool(spec["clear"]) != proj["clear"]:
        d.append(("clear_history_before_execute", spec["clear"], proj["clear"]))
    d += _diff_db("database", spec["db"], bool(spec["partial"]), proj["db"])
    if len(spec["stored"]) != len(proj["stored"]):
        d.append(("adapter.databases.length", len(spec["stored"]), len(proj["stored"])))
    for k, (s, r) in enumerate(zip(spec["stored"], proj["stored"]), 1):
        d += _diff_db(f"adapter.databases[{k}]", s["db"], bool(s["partial"]), r)
    if not _close(spec["start"], proj["start"], XTOL):
        d.append(("start_point", spec["start"], proj["start"]))
    if spec["nruns"] != proj["nruns"]:
        d.append(("inner_runs", spec["nruns"], proj["nruns"]))
    ck, co, c = spec["ckey"], spec["cout"], proj["cache"]
    if not spec["cached"]:
        if c is not None:
            d.append(("adapter.cache", "no cache", c))
    elif ck["a"] == 9:
        if c is not None:
            d.append(("adapter.cache", "empty", c))
    elif c is None:
        d.append(("adapter.cache", (ck["a"], ck["x"]), "empty"))
    else:
        if not _close(ck["a"], c["a"], 0) or (ck["x"] != 9 and not _close(ck["x"], c["xin"], 0)):
            d.append(("adapter.cache.inputs", (ck["a"], ck["x"]), (c["a"], c["xin"])))
        if not _close(co["x"], c["x"], XTOL) or not _close(co["y"], c["y"], YTOL):
            d.append(("adapter.cache.outputs", (co["x"], co["y"]), (c["x"], c["y"])))
    if res is not None:
        o = spec["out"]
        if not _close(o["x"], res["x"], XTOL) or not _close(o["y"], res["y"], YTOL):
            d.append(("outputs", (o["x"], o["y"]), (res["x"], res["y"])))
        if bool(o["hit"]) != res["hit"]:
            d.append(("served_from_cache", o["hit"], res["hit"]))
        if not _close(o["a"], res["a"], 0):
            d.append(("outputs.a", o["a"], res["a"]))
    return d


# ------------------------------------------------------------------ replay

class _Obs:
    CAP = 4

    def __init__(self, ck):
        self.ck, self.n = ck, {}

    def __call__(self, clause, signature, detail):
        self.n[clause] = self.n.get(clause, 0) + 1
        if self.n[clause] <= self.CAP:
            self.ck.observe(clause, signature, detail)

    def finish(self):
        for clause, n in sorted(self.n.items()):
            if n > self.CAP:
                self.ck.observe(clause, {"more": True, "total": n}, {"written_out": self.CAP})


def replay(ck, obs, label, conf, max_steps, cap, rng):
    # thorough: the graph that is replayed hides the ghost history and the step counter (ImplView) - fewer paths
    # for the same transitions - and the invariants are checked again without the view by the model-only runs
    r = ck.tlc("ScenarioAdapter", cfg(*conf, max_steps, view=ck.thorough), dump=True, tag=TAG, workers=4,
               require_actions=("ExecuteAdapter", "RunScenario", "SetCurrent") if "adapter" in conf[0]
               else ("RunScenario", "SetClear", "SetDefault", "SetCurrent"))
    menus = [v[1] for v in r.printed() if isinstance(v, tuple) and len(v) == 2 and v[0] == "MENUS"]
    if not menus:
        raise MachineryError("ScenarioAdapter.tla did not print its sample catalogue")
    menus = [tuple(m) for m in menus[0]]
    g = Graph(ck.work / TAG / "ScenarioAdapter.dot")
    paths = g.tour(max_len=max_steps)
    n_all = len(paths)
    if cap and n_all > cap:
        paths = rng.sample(paths, cap)
    edges = 0
    for path in paths:
        s0 = g.states[g.edges[path[0]][0]]
        w = World(str(s0["mode"]), str(s0["kind"]), str(s0["policy"]), bool(s0["keep"]), bool(s0["cached"]), menus)
        steps = []
        for k in path:
            src, dst, act, args = g.edges[k]
            res = None
            if act == "ExecuteAdapter":
                res = w.execute_adapter(int(args[0]), int(args[1]), int(args[2]))
                steps.append(["ExecuteAdapter", int(args[0]), int(args[1]), list(menus[int(args[2]) - 1]) if args[2] else "SLSQP"])
            elif act == "RunScenario":
                res = w.run_scenario(int(args[0]))
                steps.append(["RunScenario", list(menus[int(args[0]) - 1]) if args[0] else "SLSQP"])
            elif act == "SetCurrent":
                w.set_current(int(args[0]))
                steps.append(["SetCurrent", int(args[0])])
            elif act == "SetClear":
                w.set_clear(bool(args[0]))
                steps.append(["SetClear", bool(args[0])])
            elif act == "SetDefault":
                w.set_default(int(args[0]))
                steps.append(["SetDefault", int(args[0])])
            else:  # pragma: no cover
                raise MachineryError(f"unexpected action {act}")
            edges += 1
            df = diff(g.states[dst], w.projection(), res)
            if df:
                obs("G04.scenario-adapter.life-cycle",
                    {"mode": w.mode, "kind": w.kind, "policy": w.policy, "keep": w.keep, "cached": w.cached, "steps": steps,
                     "field": df[0][0]},
                    {"differences": [list(map(str, x)) for x in df[:6]]})
                break
        ck.traces += 1
    ck.extra.setdefault("g04_scenario_adapter", []).append(
        {"run": label, "states": r.distinct, "edges": len(g.edges), "tour_paths": n_all, "paths_replayed": len(paths),
         "calls_replayed": edges, "max_steps": max_steps})
    ck.sample({"g04": label, "configurations": len(g.init), "tour_paths": n_all, "paths_replayed": len(paths)})


def run(ck):
    rng = random.Random(ck.seed)
    obs = _Obs(ck)
    thorough = ck.thorough
    ck.assumptions.append(
        "G04: ScenarioAdapter.tla abstracts the inner optimizer (scripted CustomDOE samples / SLSQP on a convex "
        "quadratic); set_bounds_before_opt, multipliers and post-optimal Jacobians are outside the model")
    adapter = (["adapter"], ["doe", "opt"], ["warm", "reset", "set"], [True, False], [True, False], [0, 1], [1, 3],
               [1, 2])
    scenario = (["scenario"], ["doe"], ["warm"], [False], [True], [0, 1], [1, 3], [1, 2])

    # the hazard the flag exists for: without clearing, a run serves values computed for another parameter
    rr = ck.tlc("ScenarioAdapter", cfg(*scenario, 4, invs=["TypeOK"], props=["NoStaleAfterRun"]), tag=TAG, workers=2,
                count=False, expect_ok=False)
    if rr.violated != "NoStaleAfterRun":
        raise MachineryError("ScenarioAdapter.tla: NoStaleAfterRun is not refuted in mode 'scenario' (vacuous clause)")
    ck.extra["g04_hazard_refuted_by_tlc"] = {"clause": "NoStaleAfterRun", "mode": "scenario",
                                             "counterexample_length": len(rr.counterexample() or [])}

    replay(ck, obs, "adapter", adapter, 3, 6000 if thorough else 300, rng)
    replay(ck, obs, "scenario", scenario, 4, 0 if thorough else 120, rng)
    # thorough, model only (no view, no dump): larger alphabets / longer behaviours
    both = ["adapter", "scenario"]
    if thorough:
        ck.tlc("ScenarioAdapter", cfg(both, ["doe", "opt"], ["warm", "reset", "set"], [True, False], [True, False],
                                      [0, 1, 2], [1, 3], [1, 2, 3, 4, 5], 3), tag=TAG, workers=8, timeout=900)
        ck.tlc("ScenarioAdapter", cfg(both, ["doe", "opt"], ["warm", "reset", "set"], [True, False], [True, False],
                                      [0, 1], [1, 3], [1, 2], 4), tag=TAG, workers=8, timeout=900)
    obs.finish()
