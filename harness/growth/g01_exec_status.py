"""G01 (specification growth, outside the listed properties): execution status and statistics of
monitored processes.

Specifications
    specs/ExecStatusDefs.tla   the status automaton, observers, statistics and their composition in
                               `status.handle(STATUS, statistics.record_xxx, body)` as pure definitions
    specs/ExecStatus.tla       ONE ExecutionStatus + ONE ExecutionStatistics object driven through their public
                               API (setter, handle incl. re-entrance, add/remove_observer, record_*, the counters'
                               getters/setters, the class switch is_enabled, pickling)
    specs/ExecStatusProc.tla   two harness disciplines d1, d2 and the MDOChain [d1, d2]: execute / linearize with
                               bodies that succeed or raise on demand, SimpleCache hits that skip status and
                               statistics, the chain linearizing its disciplines in reverse order, status set by hand
                               (what DisciplineAdapter does), is_enabled toggled, counters reset

Binding (spec -> code).  TLC checks the invariants of each bounded configuration and, in the same run, the
"invariant" `Dump` prints the labelled state graph (one JSON line per reachable state: the state and, for every call
possible in it, <<call, result, notifications, next state>> computed by the specification).  A transition tour of that
graph is replayed on real gemseo objects (observers attached, `gemseo.utils.timer.perf_counter` replaced by a
logical clock advanced by the harness bodies so that durations are exact integers) and after EVERY call the result
(returned / exception class and the statuses named in its message), the notifications received by the observers
(order, process, status, recipients, the counters the observer can read at that moment), the statuses, what the
getters of the statistics answer, and the caches / held inputs / Jacobian flags of the disciplines are compared with
the transition and the state computed by TLC.  Python only transports values.

Disagreements are reported with ck.observe (never a violation: the clauses are outside the listed properties).
"""
from __future__ import annotations

import json
import pickle
import random
import re
import time
from collections import deque
from concurrent.futures import ThreadPoolExecutor, as_completed

from gemseo.core.base_execution_status_observer import BaseExecutionStatusObserver

from ..core import Graph, MachineryError

TAG = "growth-g01"
NONE = -1  # the specification's `None` (what a getter answers while the statistics are disabled) and `NoX`


# ----------------------------------------------------------------------------- configurations

def _set(xs):
    return "{" + ", ".join(json.dumps(x) if isinstance(x, str) else str(x) for x in xs) + "}"


def _bool(b):
    return "TRUE" if b else "FALSE"


UNIT_INVARIANTS = ("TypeOK SeenOK EmitChain OneShotOnce RefusalIsSilent DisabledRecordsNothing FailedRecordsNothing "
                   "SuccessRecordsOne HandleOutcome FailedIsSticky")
PROC_INVARIANTS = ("TypeOK SeenOK Quiescent EmitChain Bracketed DisabledRecordsNothing CountersStep CountsBrackets "
                   "FailurePropagates FailedIsSticky")
STATUSES = ["RUNNING", "LINEARIZING", "FAILED", "DONE"]


def unit_cfg(c, dump=True, invariants=UNIT_INVARIANTS):
    return (f"CONSTANTS\n Obs = {_set(c['obs'])}\n OneShot = {_set(c['oneshot'])}\n SetVals = {_set(c['setvals'])}\n"
            f" HandleVals = {_set(c['handlevals'])}\n Kinds = {_set(c['kinds'])}\n Bodies = {_set(c['bodies'])}\n"
            f" CounterVals = {_set(c['countervals'])}\n MaxCnt = {c['maxcnt']}\n MaxDur = {c['maxdur']}\n"
            f"SPECIFICATION Spec\nCONSTRAINT Bound\nINVARIANT {invariants}{' Dump' if dump else ''}\n")


def proc_cfg(c, dump=True, invariants=PROC_INVARIANTS):
    return (f"CONSTANTS\n Obs = {_set(c['obs'])}\n OneShot = {_set(c['oneshot'])}\n X = {_set(c['x'])}\n"
            f" UseCache = {_bool(c['cache'])}\n SetVals = {_set(c['setvals'])}\n SetProcs = {_set(c['setprocs'])}\n"
            f" CallProcs = {_set(c['callprocs'])}\n WithToggle = {_bool(c['toggle'])}\n WithReset = {_bool(c['reset'])}\n"
            f" WithLin = {_bool(c['lin'])}\n WithFailures = {_bool(c['failures'])}\n EnInit = {_bool(c['en'])}\n"
            f" MaxCnt = {c['maxcnt']}\n"
            f"SPECIFICATION Spec\nCONSTRAINT Bound\nINVARIANT {invariants}{' Dump' if dump else ''}\n")


ALLP = ["d1", "d2", "c"]
UNIT_BASE = dict(obs=["o1", "o2"], oneshot=["o2"], setvals=STATUSES + ["bad"], handlevals=["RUNNING", "LINEARIZING"],
                 kinds=["exec", "lin", "none"], bodies=["ok", "raise", "nestedRUNNING", "nestedLINEARIZING"],
                 countervals=[0], maxcnt=1, maxdur=3)
PROC_BASE = dict(obs=["o1"], oneshot=[], x=[0], cache=True, setvals=["DONE"], setprocs=ALLP, callprocs=ALLP,
                 toggle=False, reset=False, lin=True, failures=True, en=True, maxcnt=1)


def configurations(thorough):
    """(name, module, constants, tour): the bounded configurations.  Each one factors the state space along one
    dimension; the graphs of those with tour=True are printed by TLC and replayed on gemseo, the others are only
    model-checked."""
    core = dict(PROC_BASE, en=False)
    stats = dict(PROC_BASE, toggle=True, reset=True, setprocs=["d2", "c"], callprocs=["d2", "c"] if thorough else ["c"])
    nocache = dict(PROC_BASE, cache=False, obs=["o1", "o2"], oneshot=["o2"], setvals=STATUSES + ["bad"], lin=False,
                   callprocs=["d2", "c"], setprocs=["d2", "c"], en=False)
    two = dict(PROC_BASE, x=[0, 1], en=False)
    two.update(dict(callprocs=["d2", "c"], setprocs=["c"]) if thorough else dict(callprocs=["c"], setprocs=["d2", "c"]))
    cfgs = [
        ("unit", "ExecStatus", dict(UNIT_BASE), True),
        # status / cache / Jacobian logic with every failure, statistics disabled from the start (getters None)
        ("proc-core", "ExecStatusProc", core, True),
        # statistics: counters, durations, the class switch toggled, counters reset
        ("proc-stats", "ExecStatusProc", stats, True),
        # no cache, every status (and an alien one) set by hand, a second observer that detaches itself
        ("proc-nocache", "ExecStatusProc", nocache, True),
        # two inputs (SimpleCache replacement, a discipline holding another input than the chain's entry), statuses
        # set back to DONE by hand as DisciplineAdapter does
        ("proc-two-inputs", "ExecStatusProc", two, True),
    ]
    if thorough:
        cfgs += [
            ("unit-2", "ExecStatus", dict(UNIT_BASE, countervals=[0, 2], maxcnt=2, maxdur=4), True),
            ("proc-stats-nofail", "ExecStatusProc", dict(PROC_BASE, toggle=True, reset=True, failures=False,
                                                         setprocs=["c"]), True),
            # every process driven with two inputs: model-checked only (543 466 transitions)
            ("proc-two-inputs-all", "ExecStatusProc", dict(PROC_BASE, x=[0, 1], en=False), False),
        ]
    return cfgs


# ----------------------------------------------------------------------------- the labelled graph printed by TLC

def _canon_state(s):
    s = dict(s)
    s["att"] = {k: sorted(v) for k, v in s["att"].items()}
    return s


class DumpGraph(Graph):
    """The state graph printed by `Dump`: states[key] -> state dict, edges (src, dst, call name, (args, result,
    notifications)); transitions that leave the bound are not edges.  Graph.tour() is inherited."""

    def __init__(self, out: str):  # noqa: super().__init__ reads a dot file
        self.states, self.edges, self.init, self.out = {}, [], [], {}
        raw = []
        for line in out.splitlines():
            if not line.startswith('"[\\"G\\"'):
                continue
            _, at_init, state, families = json.loads(json.loads(line))
            state = _canon_state(state)
            key = json.dumps(state, sort_keys=True)
            if key in self.states:
                raise MachineryError("G01: a state was printed twice by Dump")
            self.states[key] = state
            if at_init:
                self.init.append(key)
            raw.append((key, families))
        self.dropped = 0
        for key, families in raw:
            for fam in families:
                for call, res, emit, nxt in fam:
                    dst = json.dumps(_canon_state(nxt), sort_keys=True)
                    if dst not in self.states:
                        self.dropped += 1
                        continue
                    self.out.setdefault(key, []).append(len(self.edges))
                    self.edges.append((key, dst, call[0], (tuple(call[1:]), tuple(res),
                                                           [(e[0], e[1], sorted(e[2]), e[3], e[4]) for e in emit])))
        if len(self.init) != 1:
            raise MachineryError(f"G01: {len(self.init)} initial states in the dump")


def tour(g, max_len=400):
    """Transition tour with few restarts: from the current state take an untaken transition if there is one, else
    walk (along transitions already taken) to the nearest state that has one; a new path from the initial state only
    when nothing untaken is reachable any more or the path is max_len long.  Returns edge-index paths covering every
    transition of the graph (all states are reachable from the initial state)."""
    todo = {k: list(reversed(v)) for k, v in g.out.items()}   # untaken out-transitions per state
    left = sum(len(v) for v in todo.values())

    def route(src):
        """shortest sequence of transitions from src to a state with an untaken transition"""
        par = {src: None}
        q = deque([src])
        while q:
            n = q.popleft()
            if todo.get(n):
                r = []
                while par[n] is not None:
                    r.append(par[n])
                    n = g.edges[par[n]][0]
                return r[::-1]
            for k in g.out.get(n, ()):
                d = g.edges[k][1]
                if d not in par:
                    par[d] = k
                    q.append(d)
        return None

    paths = []
    while left:
        path, cur = [], g.init[0]
        while True:
            if todo.get(cur):
                k = todo[cur].pop()
                left -= 1
                path.append(k)
                cur = g.edges[k][1]
                if len(path) >= max_len:
                    break
                continue
            r = route(cur)
            if r is None or (path and len(path) + len(r) >= max_len):
                break
            path += r
            cur = g.edges[r[-1]][1]
        if not path:
            raise MachineryError("G01: transitions not reachable from the initial state")
        paths.append(path)
    return paths


# ----------------------------------------------------------------------------- test doubles

class Boom(Exception):
    def __init__(self, proc, what):
        super().__init__(f"{proc} {what}")
        self.proc, self.what = proc, what


class Clock:
    """Logical clock substituted for gemseo.utils.timer.perf_counter: advanced by the harness bodies only."""

    def __init__(self):
        self.t = 0.0

    def __call__(self):
        return self.t


LOG: list = []          # notifications received by all observers, in order
REGISTRY: dict = {}     # id(ExecutionStatus) -> (process name, ExecutionStatistics)


class Observer(BaseExecutionStatusObserver):
    """Logs what it is told and what it can read at that moment; picklable (the status object serializes it)."""

    def __init__(self, name, oneshot):
        self.name, self.oneshot = name, oneshot

    def update_status(self, execution_status):
        proc, stats = REGISTRY[id(execution_status)]
        LOG.append((self.name, proc, str(execution_status.value), _none(stats.n_executions),
                    _none(stats.n_linearizations)))
        if self.oneshot:
            execution_status.remove_observer(self)


def _none(v):
    return NONE if v is None else v


_REFUSED = re.compile(r"^(.*) cannot be set to status (\S+) while in status (\S+)\.$")
_DISABLED = re.compile(r"^The execution statistics of the object named (.*) are disabled\.$")


def result_of(fn, which="-"):
    """Run a call on gemseo and transport what it returned / raised into the specification's result 4-tuple."""
    try:
        fn()
    except Boom as ex:
        return ("Boom", ex.proc, ex.what, "-")
    except ValueError as ex:
        m = _REFUSED.match(str(ex))
        if m:
            return ("Refused", m.group(1), m.group(2), m.group(3))
        m = re.match(r"^'(.*)' is not a valid ", str(ex))
        if m:
            return ("Invalid", "?", m.group(1), "-")
        return ("ValueError", str(ex)[:80], "-", "-")
    except RuntimeError as ex:
        m = _DISABLED.match(str(ex))
        if m:
            return ("Disabled", m.group(1), which, "-")
        return ("RuntimeError", str(ex)[:80], "-", "-")
    except Exception as ex:  # noqa: BLE001
        return (type(ex).__name__, str(ex)[:80], "-", "-")
    return ("ok", "-", "-", "-")


def check_emit(expected):
    """The notifications of one call against the specification's: for every notification, every recipient exactly
    once, all recipients of a notification before the next notification; the order among the recipients of ONE
    notification is that of a Python set and is not specified."""
    log = list(LOG)
    LOG.clear()
    k = 0
    for proc, status, recipients, vnx, vnl in expected:
        got = log[k:k + len(recipients)]
        k += len(recipients)
        if sorted(g[0] for g in got) != list(recipients) or any(g[1:] != (proc, status, vnx, vnl) for g in got):
            return {"expected": expected, "got": log}
    if k != len(log):
        return {"expected": expected, "got": log}
    return None


# ----------------------------------------------------------------------------- replay: one status + one statistics

class UnitReplayer:
    def __init__(self, ck, clock, consts):
        from gemseo.core.execution_statistics import ExecutionStatistics
        from gemseo.core.execution_status import ExecutionStatus

        self.ck, self.clock, self.consts = ck, clock, consts
        self.ES, self.STATS = ExecutionStatus, ExecutionStatistics
        self.Observer = Observer
        self.steps = 0
        self.checked = set()

    def fresh(self):
        REGISTRY.clear()
        LOG.clear()
        self.STATS.is_enabled = True
        self.es = self.ES("u")
        self.stats = self.STATS("u")
        REGISTRY[id(self.es)] = ("u", self.stats)
        self.obs = {o: self.Observer(o, o in self.consts["oneshot"]) for o in self.consts["obs"]}

    def body(self, b, cost):
        es, clock = self.es, self.clock

        def f():
            clock.t += cost
            if b == "raise":
                raise Boom("u", "body")
            if b.startswith("nested"):
                es.handle(es.Status[b[len("nested"):]], lambda: None)

        return f

    def call(self, name, args):
        es, stats = self.es, self.stats
        if name == "Set":
            s = args[1]
            return result_of(lambda: setattr(es, "value", es.Status[s] if s in es.Status.__members__ else s))
        if name in ("HandleCall", "RecordCall"):
            kind, b = args[-2], args[-1]
            f = self.body(b, 2 if kind == "lin" else 1)
            rec = {"exec": stats.record_execution, "lin": stats.record_linearization}.get(kind)
            if name == "RecordCall":
                return result_of(lambda: rec(f))
            s = es.Status[args[1]]
            return result_of((lambda: es.handle(s, f)) if rec is None else (lambda: es.handle(s, rec, f)))
        if name == "AddObs":
            return result_of(lambda: es.add_observer(self.obs[args[1]]))
        if name == "RemoveObs":
            return result_of(lambda: es.remove_observer(self.obs[args[1]]))
        if name == "Toggle":
            self.STATS.is_enabled = not self.STATS.is_enabled
            return ("ok", "-", "-", "-")
        if name == "SetCounter":
            attr = {"nx": "n_executions", "nl": "n_linearizations", "du": "duration"}[args[1]]
            return result_of(lambda: setattr(stats, attr, float(args[2]) if attr == "duration" else args[2]), args[1])
        if name == "Pickle":
            def f():
                del REGISTRY[id(self.es)]
                self.es = pickle.loads(pickle.dumps(self.es))
                self.stats = pickle.loads(pickle.dumps(self.stats))
                REGISTRY[id(self.es)] = ("u", self.stats)
            return result_of(f)
        raise MachineryError(f"G01: unknown call {name}")

    def project(self):
        return {"st": {"u": str(self.es.value)},
                "seen": {"u": [_none(self.stats.n_executions), _none(self.stats.n_linearizations),
                               _none(self.stats.duration)]}}

    def run_path(self, g, path, cfgname):
        self.fresh()
        hist = []
        for k in path:
            src, dst, name, (args, exp_res, exp_emit) = g.edges[k]
            hist.append([name, *args])
            got_res = self.call(name, args)
            self.steps += 1
            bad = compare_step(self.ck, cfgname, hist, g.states[src], g.states[dst], exp_res, got_res, exp_emit,
                               self.project())
            self.checked.add(k)
            if bad:
                return False  # the real objects left the specification: the rest of the path is meaningless
        return True


def compare_step(ck, cfgname, hist, src, dst, exp_res, got_res, exp_emit, proj):
    """Compare one replayed call with the transition computed by TLC; report every aspect that differs."""
    name = hist[-1][0]
    bad = []
    if got_res[0] == "Invalid":
        got_res = (got_res[0], exp_res[1], got_res[2], got_res[3])  # the message of the enum does not name the process
    if tuple(got_res) != tuple(exp_res):
        bad.append(("result", {"expected": exp_res, "got": got_res}))
    d = check_emit(exp_emit)
    if d:
        bad.append(("notifications", d))
    for var, what in (("st", "status"), ("seen", "statistics"), ("ent", "cache"), ("io", "held-input"),
                      ("jne", "jacobian"), ("hj", "jacobian-flag")):
        if var in proj and proj[var] != dst[var]:
            bad.append((what, {"expected": dst[var], "got": proj[var]}))
    for what, det in bad:
        ck.observe(f"G01.{what}", {"config": cfgname, "call": name, "aspect": what, "spec_result": exp_res[0]},
                   {"history": hist[-12:], "state_before": src, "expected_result": list(exp_res),
                    "expected_state": dst, **det})
    return bool(bad)


# ----------------------------------------------------------------------------- replay: disciplines and a chain

def make_discipline_class(clock):
    from gemseo.core.discipline import Discipline
    from numpy import array, eye

    class Leaf(Discipline):
        """out = in; `_run` costs 1 tick, `_compute_jacobian` 2 ticks; both raise on demand."""

        def __init__(self, name, i, o):
            super().__init__(name)
            self.io.input_grammar.update_from_names([i])
            self.io.output_grammar.update_from_names([o])
            self.io.input_grammar.defaults = {i: array([0.0])}
            self.i, self.o = i, o
            self.fail = None

        def _run(self, input_data):
            clock.t += 1
            if self.fail == "run":
                raise Boom(self.name, "run")
            return {self.o: input_data[self.i] + 0.0}

        def _compute_jacobian(self, input_names=(), output_names=()):
            clock.t += 2
            if self.fail == "jac":
                raise Boom(self.name, "jac")
            self.jac = {self.o: {self.i: eye(1)}}

    return Leaf


class ProcReplayer:
    def __init__(self, ck, clock, consts):
        from gemseo.core.chains.chain import MDOChain
        from gemseo.core.execution_statistics import ExecutionStatistics
        from numpy import array

        self.ck, self.clock, self.consts = ck, clock, consts
        self.STATS, self.MDOChain, self.array = ExecutionStatistics, MDOChain, array
        self.Leaf = make_discipline_class(clock)
        self.Observer = Observer
        self.steps = 0
        self.checked = set()

    def fresh(self):
        REGISTRY.clear()
        LOG.clear()
        self.STATS.is_enabled = self.consts["en"]
        d1, d2 = self.Leaf("d1", "x", "y"), self.Leaf("d2", "y", "z")
        c = self.MDOChain([d1, d2], name="c")
        self.p = {"d1": d1, "d2": d2, "c": c}
        self.inp = {"d1": "x", "d2": "y", "c": "x"}
        obs = [self.Observer(o, o in self.consts["oneshot"]) for o in self.consts["obs"]]
        for name, proc in self.p.items():
            if not self.consts["cache"]:
                proc.set_cache(proc.CacheType.NONE)
            REGISTRY[id(proc.execution_status)] = (name, proc.execution_statistics)
            for o in obs:
                proc.execution_status.add_observer(o)

    def call(self, name, args):
        if name in ("Execute", "Linearize"):
            pn, x, f = args
            proc = self.p[pn]
            for leaf in ("d1", "d2"):
                self.p[leaf].fail = f[1] if f[0] == leaf else None
            data = {self.inp[pn]: self.array([float(x)])}
            if name == "Execute":
                return result_of(lambda: proc.execute(data))
            return result_of(lambda: proc.linearize(data, compute_all_jacobians=True))
        if name == "SetStatus":
            es = self.p[args[0]].execution_status
            s = args[1]
            return result_of(lambda: setattr(es, "value", es.Status[s] if s in es.Status.__members__ else s))
        if name == "Toggle":
            self.STATS.is_enabled = not self.STATS.is_enabled
            return ("ok", "-", "-", "-")
        if name == "ResetStats":
            stats = self.p[args[0]].execution_statistics

            def f():
                stats.n_executions = 0
                stats.n_linearizations = 0
                stats.duration = 0.0
            return result_of(f, "nx")
        raise MachineryError(f"G01: unknown call {name}")

    def project(self):
        st, seen, ent, io, jne, hj = {}, {}, {}, {}, {}, {}
        for name, proc in self.p.items():
            st[name] = str(proc.execution_status.value)
            s = proc.execution_statistics
            seen[name] = [_none(s.n_executions), _none(s.n_linearizations), _none(s.duration)]
            e = proc.cache.last_entry if proc.cache is not None else None
            if e is None or not e.inputs:
                ent[name] = {"x": NONE, "out": False, "jac": False}
            else:
                v = float(e.inputs[self.inp[name]][0])
                ent[name] = {"x": int(v) if v == int(v) else v, "out": bool(e.outputs), "jac": bool(e.jacobian)}
            if name != "c":
                v = proc.io.data.get(self.inp[name])
                io[name] = NONE if v is None else (int(v[0]) if float(v[0]) == int(v[0]) else float(v[0]))
                jne[name] = bool(proc.jac)
                hj[name] = bool(proc._has_jacobian)
        return {"st": st, "seen": seen, "ent": ent, "io": io, "jne": jne, "hj": hj}

    def run_path(self, g, path, cfgname):
        self.fresh()
        hist = []
        for k in path:
            src, dst, name, (args, exp_res, exp_emit) = g.edges[k]
            hist.append([name, *args])
            got_res = self.call(name, args)
            self.steps += 1
            bad = compare_step(self.ck, cfgname, hist, g.states[src], g.states[dst], exp_res, got_res, exp_emit,
                               self.project())
            self.checked.add(k)
            if bad:
                return False
        return True


# ----------------------------------------------------------------------------- probes outside the tours

def pickle_probe(ck):
    """ExecStatus.PickleR is total: the observers are not part of what is serialized (the class docstring -
    "The observers are not restored after pickling" - and `_ATTR_NOT_TO_SERIALIZE = {"__observers"}`), so the
    round trip succeeds whatever is attached.  Bound with an observer whose own state cannot be pickled."""
    from gemseo.core.base_execution_status_observer import BaseExecutionStatusObserver
    from gemseo.core.execution_status import ExecutionStatus

    class Unpicklable(BaseExecutionStatusObserver):
        def __init__(self):
            self.handle = lambda: None

        def update_status(self, execution_status):
            pass

    es = ExecutionStatus("u")
    es.add_observer(Unpicklable())
    got = result_of(lambda: pickle.loads(pickle.dumps(es)))
    ck.traces += 1
    if got != ("ok", "-", "-", "-"):
        ck.observe("G01.pickle-does-not-serialize-observers",
                   {"call": "Pickle", "attached": "observer with unpicklable state", "got": got[0]},
                   {"expected": "ok (observers are excluded from serialization)", "got": list(got)})
    return got


def sticky_failure_demo():
    """What FailedIsSticky / the refuted ChainResetSuffices mean for a user (finding D0307 of C03, seen here from the
    automaton; recorded in the evidence, not an observation: gemseo agrees with the specification of the code).  A DOE tolerates failing samples and
    DisciplineAdapter sets the status of the evaluated discipline back to DONE before each evaluation, but the status of
    the discipline that failed INSIDE the chain stays FAILED: every later sample fails with 'cannot be set to status
    RUNNING while in status FAILED'."""
    from gemseo.algos.design_space import DesignSpace
    from gemseo.core.chains.chain import MDOChain
    from gemseo.scenarios.doe_scenario import DOEScenario
    from numpy import array

    Leaf = make_discipline_class(Clock())

    class BadAtTwo(Leaf):
        def _run(self, input_data):
            if abs(float(input_data[self.i][0]) - 2.0) < 1e-12:
                raise ValueError("the model does not converge at y = 2")
            return super()._run(input_data)

    out = {}
    for wrap in ("one discipline", "chain of two"):
        d1, d2 = Leaf("d1", "x", "y"), BadAtTwo("d2", "y", "z")
        ds = DesignSpace()
        if wrap == "one discipline":
            ds.add_variable("y", lower_bound=0.0, upper_bound=4.0, value=0.0)
            discs = [d2]
        else:
            ds.add_variable("x", lower_bound=0.0, upper_bound=4.0, value=0.0)
            discs = [MDOChain([d1, d2])]
        sc = DOEScenario(discs, "z", ds, formulation_name="DisciplinaryOpt")
        sc.execute(algo_name="CustomDOE", samples=array([[0.0], [1.0], [2.0], [3.0], [4.0]]))
        db = sc.formulation.optimization_problem.database
        out[wrap] = {"samples": [0, 1, 2, 3, 4], "failing_sample": 2,
                     "evaluated": sorted(int(k.unwrap()[0]) for k, v in db.items() if "z" in v),
                     "status_of_d2_after": str(d2.execution_status.value)}
    return out


# ----------------------------------------------------------------------------- driver

def run(ck):
    from gemseo.core.execution_statistics import ExecutionStatistics
    from gemseo.utils import timer

    t_start = time.time()
    info = {}
    clock = Clock()
    saved = (timer.perf_counter, ExecutionStatistics.is_enabled)
    cfgs = configurations(ck.thorough)

    # ---- TLC: invariants of every configuration + its labelled graph; the configurations run in parallel and the
    #      replay of one graph overlaps the model checking of the next ones
    def tlc_one(item):
        name, module, c, with_tour = item
        inv = UNIT_INVARIANTS if module == "ExecStatus" else PROC_INVARIANTS
        cfg = unit_cfg(c, with_tour, inv) if module == "ExecStatus" else proc_cfg(c, with_tour, inv)
        # (no -coverage: it makes TLC five times slower here; vacuity is checked on the labels of the printed graph)
        return ck.tlc(module, cfg, workers=2 if with_tour else 6, timeout=1500 if ck.thorough else 240,
                      coverage=False, tag=f"{TAG}-{name}")

    # the statement a user would like ("setting the chain's status back to DONE is enough to run it again", what
    # DisciplineAdapter relies on) is refuted on the specification of the code: a FAILED discipline inside the chain
    # keeps the chain failing
    def tlc_neg():
        neg = dict(PROC_BASE, en=False, lin=False, setprocs=["c"], callprocs=["c"], x=[0, 1])
        return ck.tlc("ExecStatusProc", proc_cfg(neg, dump=False, invariants="ChainResetSuffices"), workers=1,
                      timeout=240, expect_ok=False, count=False, coverage=False, tag=f"{TAG}-neg")

    ex = ThreadPoolExecutor(max_workers=5)
    try:
        futures = [ex.submit(tlc_one, item) for item in cfgs]
        fneg = ex.submit(tlc_neg)
        timer.perf_counter = clock
        which = dict(zip(futures, cfgs))
        for fut in as_completed(futures):
            name, module, c, with_tour = which[fut]
            r = fut.result()
            rng = random.Random(f"{ck.seed}-{name}")
            if not with_tour:
                info[name] = {"states": r.distinct, "transitions": r.generated, "tour": False}
                continue
            t0 = time.time()
            g = DumpGraph(r.out)
            r.out = ""  # the dump is large
            if len(g.states) != r.distinct:
                raise MachineryError(f"G01 {name}: {len(g.states)} states printed, TLC found {r.distinct}")
            present = {e[2] for e in g.edges}
            want = ({"Set", "HandleCall", "RecordCall", "AddObs", "RemoveObs", "Toggle", "SetCounter", "Pickle"}
                    if module == "ExecStatus" else
                    {"Execute", "SetStatus"} | ({"Linearize"} if c["lin"] else set())
                    | ({"Toggle"} if c["toggle"] else set()) | ({"ResetStats"} if c["reset"] else set()))
            if want - present:
                raise MachineryError(f"G01 {name}: calls {sorted(want - present)} label no transition")
            paths = tour(g, 150)
            rp = (UnitReplayer if module == "ExecStatus" else ProcReplayer)(ck, clock, c)
            n_obs0 = len(ck.observations)
            abandoned = 0
            for path in paths:
                if not rp.run_path(g, path, name):
                    abandoned += 1
                ck.traces += 1
                if len(ck.samples) < 4 and rng.random() < 0.05:
                    ck.sample({"G01": name, "path": [[g.edges[k][2], *g.edges[k][3][0]] for k in path[:10]]})
            if not abandoned and len(rp.checked) != len(g.edges):
                raise MachineryError(f"G01 {name}: tour covered {len(rp.checked)} of {len(g.edges)} transitions")
            info[name] = {"states": len(g.states), "transitions": len(g.edges),
                          "transitions_leaving_the_bound": g.dropped, "tour_paths": len(paths),
                          "calls_replayed": rp.steps, "transitions_checked": len(rp.checked),
                          "paths_abandoned_after_disagreement": abandoned,
                          "observations": len(ck.observations) - n_obs0, "replay_s": round(time.time() - t0, 1)}
        pickle_probe(ck)
        r = fneg.result()
        if r.violated != "ChainResetSuffices":
            raise MachineryError("G01: ChainResetSuffices was expected to be refuted by TLC")
        info["refuted_as_expected"] = {"ChainResetSuffices": {"counterexample_length": len(r.counterexample())}}
    finally:
        ex.shutdown(wait=True, cancel_futures=True)
        timer.perf_counter, ExecutionStatistics.is_enabled = saved
        REGISTRY.clear()
        LOG.clear()

    info["sticky_failure_demo"] = sticky_failure_demo()
    info["wall_s"] = round(time.time() - t_start, 1)
    ck.extra["G01_exec_status"] = info
    ck.assumptions.append(
        "G01 (growth): statuses/statistics compared on harness disciplines out=in with SimpleCache or no cache; "
        "durations measured with a logical clock substituted for gemseo.utils.timer.perf_counter; the order in which "
        "the observers of ONE notification are called (a Python set) is not specified")
