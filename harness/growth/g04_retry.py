"""G04 (specification growth) - failure tolerance / retry around Discipline.execute: specs/Retry.tla.

This gemseo has no RetryDiscipline and no time-out logic; the module specifies and binds what exists:

  direct  the execution protocol of a discipline that may fail (status DONE/FAILED, n_executions, SimpleCache),
          through stacks of FilteringDiscipline / RemappingDiscipline / MDOChain wrappers around a scripted flaky
          body: TLC dumps the state graph of every history of calls (point, outcome chosen by the environment)
          and user resets; a transition tour is replayed on the real disciplines and the whole projection
          (status, n_executions and cache entry of every level, body runs, what the call returned or raised) is
          compared after every step with the state TLC computed.
  doe     the library's own failure-tolerant loop (sequential BaseDOELibrary._run + the status reset of the
          function adapter): TLC enumerates every outcome sequence and prints the terminal state; a real
          DOEScenario (CustomDOE) is run on the scripted stack for each and compared (database content, body
          runs, status and n_executions of every level, returned / exception class).
  retry   a reference retry client (gemseo has none): TLC decides after each attempt whether the loop goes on;
          the harness only performs the executes of the printed history, with the resets of the policy, and
          compares the terminal projection.

Reset = "all" is the specification of the tolerant loops (failure isolation); Reset = "top"/"none" are the
implementation-shaped variants that are replayed.  TLC must REFUTE StoredComplete / EverySampleRuns /
RetryEffective on the implementation-shaped variants at Depth >= 2 (design-level finding), and the real DOE is
also compared with the Reset = "all" terminal states: that disagreement is reported as one aggregated
OBSERVATION (clause G04.doe.failure-isolation).
Python only transports values: every expected number comes from TLC.
"""
from __future__ import annotations

import itertools

import numpy as np

from ..core import Graph, MachineryError

TAG = "growth-g04"
BASE_INVS = ["TypeOK", "AtMostOncePerCall", "CountsSuccesses", "CacheOnlySuccess", "ReturnsSuccess", "SameClass",
             "Poisoned"]
BASE_PROPS = ["Absorbing", "Monotone", "RefusedBecauseFailed", "Terminates"]
DOE_INVS = ["StoredSound", "FatalStops"]
RETRY_INVS = ["RetryOutcome"]
KINDS = ("filter", "remap", "chain")
EXC = {"nonfatal": ValueError, "fatal": RuntimeError}


def _set(vals, quote=False):
    return "{" + ", ".join((f'"{v}"' if quote else str(v)) for v in vals) + "}"


def cfg(callers, depths, n, resets, *, points=(1, 2), max_resets=0, invs=(), props=BASE_PROPS, terminal=False):
    s = (f"CONSTANTS Depths = {_set(depths)}\n N = {n}\n Points = {_set(points)}\n"
         f" Callers = {_set(callers, True)}\n Resets = {_set(resets, True)}\n MaxResets = {max_resets}\n"
         "SPECIFICATION Spec\nCHECK_DEADLOCK FALSE\n")
    for i in list(BASE_INVS) + list(invs):
        s += f"INVARIANT {i}\n"
    if terminal:
        s += "INVARIANT PrintTerminal\n"
    for p in props:
        s += f"PROPERTY {p}\n"
    return s


# ------------------------------------------------------------------ the scripted stack (real gemseo classes)

def _gemseo():
    from gemseo.core.chains.chain import MDOChain
    from gemseo.core.discipline import Discipline
    from gemseo.disciplines.remapping import RemappingDiscipline
    from gemseo.disciplines.wrappers.filtering_discipline import FilteringDiscipline

    class Flaky(Discipline):
        """y = 100 * x + (number of this run): the outputs name the run that produced them."""

        def __init__(self):
            super().__init__("flaky")
            self.io.input_grammar.update_from_names(["x", "u"])
            self.io.output_grammar.update_from_names(["y", "z"])
            self.io.input_grammar.defaults = {"x": np.array([0.0]), "u": np.array([7.0])}
            self.n_runs = 0
            self.next_outcome = "ok"      # set by the harness before a call ...
            self.by_point = None          # ... or the outcome at each point (DOE: the samples are distinct)

        def _run(self, input_data):
            self.n_runs += 1
            x = input_data["x"]
            o = self.by_point[int(round(float(x[0])))] if self.by_point is not None else self.next_outcome
            if o != "ok":
                raise EXC[o](f"scripted {o} failure at run {self.n_runs}")
            return {"y": 100.0 * x + self.n_runs, "z": np.array([float(self.n_runs)])}

    return Flaky, FilteringDiscipline, RemappingDiscipline, MDOChain


class Stack:
    """levels[0] = the discipline the caller executes ... levels[-1] = the flaky body."""

    def __init__(self, kinds):
        Flaky, Filtering, Remapping, Chain = _gemseo()
        self.body = Flaky()
        levels = [(self.body, "x", "y")]
        for k in reversed(kinds):            # kinds[0] is the outermost wrapper
            d, i, o = levels[0]
            if k == "filter":
                w, wi, wo = Filtering(d, input_names=[i], output_names=[o]), i, o
            elif k == "remap":
                wi, wo = i + "r", o + "r"
                w = Remapping(d, {wi: i}, {wo: o})
            elif k == "chain":
                w, wi, wo = Chain([d]), i, o
            else:  # pragma: no cover
                raise MachineryError(k)
            levels.insert(0, (w, wi, wo))
        self.levels = levels
        self.top, self.xin, self.yout = levels[0]

    def reset(self, policy):
        from gemseo.core.execution_status import ExecutionStatus
        done = ExecutionStatus.Status.DONE
        if policy == "top":
            self.top.execution_status.value = done
        elif policy == "all":
            for d, _, _ in self.levels:
                d.execution_status.value = done

    def reset_level(self, l):
        from gemseo.core.execution_status import ExecutionStatus
        self.levels[l - 1][0].execution_status.value = ExecutionStatus.Status.DONE

    def call(self, p, outcome):
        """Execute the top level at point p; return the projection of what came back."""
        self.body.next_outcome = outcome
        try:
            out = self.top.execute({self.xin: np.array([float(p)])})
        except Exception as ex:  # noqa: BLE001 - the caller of the specification catches everything
            return _exc(ex)
        y = float(np.asarray(out[self.yout]).ravel()[0])
        xi = float(np.asarray(out[self.xin]).ravel()[0])
        return {"kind": "ret", "cls": "none", "origin": "none", "pt": int(round(y)) // 100, "run": int(round(y)) % 100,
                "x_echo": int(round(xi))}

    def projection(self):
        st, ne, ca = [], [], []
        for d, i, o in self.levels:
            st.append(str(d.execution_status.value.value))
            ne.append(int(d.execution_statistics.n_executions))
            c = d.cache
            if c is None or len(c) == 0:
                ca.append({"pt": 0, "run": 0})
            else:
                e = c.last_entry
                x = float(np.asarray(e.inputs[i]).ravel()[0])
                y = float(np.asarray(e.outputs[o]).ravel()[0])
                # the entry is named by its OUTPUT (100*pt + run) and must sit under its own input point
                ca.append({"pt": int(round(x)), "run": int(round(y)) % 100, "pt_of_outputs": int(round(y)) // 100})
        return {"status": tuple(st), "nexec": tuple(ne), "cache": tuple(ca), "runs": self.body.n_runs}


class _Obs:
    """At most CAP observations per clause are written out; the rest is counted in one summary line."""
    CAP = 4

    def __init__(self, ck):
        self.ck, self.n = ck, {}

    def __call__(self, clause, signature, detail):
        self.n[clause] = self.n.get(clause, 0) + 1
        if self.n[clause] <= self.CAP:
            self.ck.observe(clause, signature, detail)

    def finish(self):
        for clause, n in sorted(self.n.items()):
            if n > self.CAP:
                self.ck.observe(clause, {"more": True, "total": n}, {"written_out": self.CAP})


def _exc(ex):
    msg = str(ex)
    origin = "status" if "cannot be set to status" in msg else ("body" if "scripted" in msg else "other")
    return {"kind": "exc", "cls": type(ex).__name__, "origin": origin, "pt": 0, "run": 0, "msg": msg[:120]}


def _diff_state(spec, proj, res=None):
    """Compare the projection of the real stack with a state of the specification; list of differences."""
    d = []
    if tuple(spec["status"]) != proj["status"]:
        d.append(("status", tuple(spec["status"]), proj["status"]))
    if tuple(spec["nexec"]) != proj["nexec"]:
        d.append(("n_executions", tuple(spec["nexec"]), proj["nexec"]))
    if spec["runs"] != proj["runs"]:
        d.append(("body_runs", spec["runs"], proj["runs"]))
    if "cache" in spec:
        for l, (a, b) in enumerate(zip(spec["cache"], proj["cache"]), 1):
            if (a["pt"], a["run"]) != (b["pt"], b["run"]) or b.get("pt_of_outputs", b["pt"]) != b["pt"]:
                d.append((f"cache[{l}]", (a["pt"], a["run"]), (b["pt"], b["run"], b.get("pt_of_outputs"))))
    if res is not None:
        last = spec["last"]
        for k in ("kind", "cls", "origin", "pt", "run"):
            if last[k] != res[k]:
                d.append((f"result.{k}", last[k], res[k]))
        if res["kind"] == "ret" and res.get("x_echo") != last["pt"]:
            d.append(("result.input_echo", last["pt"], res.get("x_echo")))
    return d


# ------------------------------------------------------------------ part 1: direct (graph tour)

def direct(ck, obs, depths, n, points, max_resets, kind_sets, resets=("none",)):
    """kind_sets: {depth: [tuple of wrapper kinds, ...]}"""
    r = ck.tlc("Retry", cfg(["direct"], depths, n, resets, points=points, max_resets=max_resets), dump=True, tag=TAG,
               workers=4, require_actions=("Call", "ResetStatus") if max_resets else ("Call",))
    g = Graph(ck.work / TAG / "Retry.dot")
    paths = g.tour(max_len=n + max_resets + 2)
    ck.extra.setdefault("g04_direct", []).append(
        {"depths": list(depths), "n": n, "resets": list(resets), "max_user_resets": max_resets, "states": r.distinct,
         "edges": len(g.edges), "paths": len(paths), "initial_states": len(g.init)})
    for path in paths:
        s0 = g.states[g.edges[path[0]][0]]
        depth, reset = int(s0["depth"]), str(s0["reset"])
        for kinds in kind_sets[depth]:
            st = Stack(kinds)
            steps = []
            for k in path:
                src, dst, act, args = g.edges[k]
                res = None
                if act == "Call":
                    st.reset(reset)
                    res = st.call(int(args[0]), str(args[1]))
                    steps.append(["Call", int(args[0]), str(args[1])])
                elif act == "ResetStatus":
                    st.reset_level(int(args[0]))
                    steps.append(["ResetStatus", int(args[0])])
                else:  # pragma: no cover
                    raise MachineryError(f"unexpected action {act}")
                diff = _diff_state(g.states[dst], st.projection(), res)
                if diff:
                    obs("G04.direct.execute-protocol",
                        {"mode": "direct", "kinds": list(kinds), "reset": reset, "steps": steps, "field": diff[0][0]},
                        {"differences": [list(map(str, x)) for x in diff], "spec_state": str(g.states[dst])})
                    break
            ck.traces += 1
    ck.sample({"g04": "direct", "depths": list(depths), "kinds": {d: [list(k) for k in v] for d, v in kind_sets.items()},
               "paths": len(paths), "edges": len(g.edges)})


# ------------------------------------------------------------------ part 2/3: terminal states of doe / retry

def _cases(r, caller):
    out = []
    for v in r.printed():
        if isinstance(v, tuple) and len(v) == 13 and v[0] == "CASE" and v[1] == caller:
            out.append({"reset": v[2], "depth": v[3], "hist": tuple(v[4]), "pc": v[5], "stored": tuple(v[6]),
                        "runs": v[7], "status": tuple(v[8]), "nexec": tuple(v[9]), "cls": v[10], "origin": v[11],
                        "run": v[12]})
    return out


def terminal_cases(ck, caller, depths, n, resets, invs):
    """Terminal states printed by TLC for every (depth, reset) of a caller, keyed by (depth, reset, hist).
    IsolationWhereReset: the SPECIFICATION clauses (failure isolation) hold wherever every level is reset."""
    r = ck.tlc("Retry", cfg([caller], depths, n, resets, invs=list(invs) + ["IsolationWhereReset"], terminal=True),
               workers=1, tag=TAG, require_actions=("Sample", "Finish") if caller == "doe" else ("Attempt",))
    out = {}
    for c in _cases(r, caller):
        key = (c["depth"], c["reset"], c["hist"])
        if out.setdefault(key, c) != c:
            raise MachineryError(f"Retry.tla: two terminal states for {key}")
    # vacuity: every history of the isolated variant / of the retry client has its terminal state
    for d in depths:
        if caller == "doe":
            got = sum(1 for k in out if k[0] == d and k[1] == "all")
            want = 2 ** (n + 1) - 1          # {ok, nonfatal}^k fatal (k < n), {ok, nonfatal}^n
        else:
            got = sum(1 for k in out if k[0] == d and k[1] == "all")
            want = 2 * n + 1                 # nonfatal^k (ok | fatal) (k < n), nonfatal^n
        if got != want:
            raise MachineryError(f"Retry.tla {caller} depth {d}: {got} terminal states printed, expected {want}")
    return out


def refutations(ck, n):
    """The implementation-shaped variants do NOT have failure isolation: TLC must refute each clause with the
    reset the code performs (top level only) as soon as one wrapper sits above the body."""
    for caller, inv in (("doe", "StoredComplete"), ("doe", "EverySampleRuns"), ("retry", "RetryEffective")):
        rr = ck.tlc("Retry", cfg([caller], [2], n, ["top"], invs=[inv], props=()), workers=1, tag=TAG, count=False,
                    expect_ok=False)
        if rr.violated != inv:
            raise MachineryError(f"Retry.tla: {inv} (Caller={caller}, Depth=2, Reset=top) is not refuted by TLC: "
                                 "the failure-isolation clause is vacuous")
        ck.extra.setdefault("g04_design", []).append(
            {"caller": caller, "depth": 2, "reset": "top", "clause": inv, "refuted_by_tlc": True,
             "counterexample_length": len(rr.counterexample() or [])})


def run_doe(kinds, hist):
    """The real sequential DOE over the samples 1..len(hist) on the scripted stack."""
    from gemseo.algos.design_space import DesignSpace
    from gemseo.scenarios.doe_scenario import DOEScenario

    st = Stack(kinds)
    st.body.by_point = {k + 1: o for k, o in enumerate(hist)}
    ds = DesignSpace()
    ds.add_variable(st.xin, lower_bound=0.0, upper_bound=9.0, value=0.0)
    sc = DOEScenario([st.top], st.yout, ds, formulation_name="DisciplinaryOpt")
    samples = np.array([[float(k + 1)] for k in range(len(hist))])
    try:
        sc.execute(algo_name="CustomDOE", samples=samples)
        pc, cls, origin = "returned", None, None
    except Exception as ex:  # noqa: BLE001
        e = _exc(ex)
        pc, cls, origin = "raised", e["cls"], e["origin"]
    db = sc.formulation.optimization_problem.database
    stored, values_ok = [], True
    for x, vals in db.items():
        p = int(round(float(x.unwrap()[0])))
        stored.append(p)
        y = vals.get(st.yout)
        if y is None or int(round(float(np.asarray(y).ravel()[0]))) // 100 != p:
            values_ok = False
    proj = st.projection()
    return {"pc": pc, "cls": cls, "origin": origin, "stored": tuple(stored), "values_ok": values_ok, **proj}


def _diff_case(case, real, *, with_exc=True):
    d = []
    for k in ("pc", "runs"):
        if case[k] != real[k]:
            d.append((k, case[k], real[k]))
    for k in ("stored", "status", "nexec"):
        if tuple(case[k]) != tuple(real[k]):
            d.append((k, tuple(case[k]), tuple(real[k])))
    if with_exc and case["pc"] == "raised" and real["pc"] == "raised":
        if case["cls"] != real["cls"] or case["origin"] != real["origin"]:
            d.append(("exception", (case["cls"], case["origin"]), (real["cls"], real["origin"])))
    if real.get("values_ok") is False:
        d.append(("stored_values", "outputs of the sample's own run", "other"))
    return d


def doe(ck, obs, depths, n, kind_sets):
    cases = terminal_cases(ck, "doe", depths, n, ["top", "all"], DOE_INVS)
    isolation = []
    for (depth, reset, hist), c in sorted(cases.items()):
        if reset != "top":
            continue
        # the isolated variant stops at the first fatal outcome of the environment: same history up to there
        cut = hist.index("fatal") + 1 if "fatal" in hist else len(hist)
        ideal = cases[(depth, "all", hist[:cut])]
        for kinds in kind_sets[depth]:
            real = run_doe(kinds, hist)
            ck.traces += 1
            diff = _diff_case(c, real)
            if diff:
                obs("G04.doe.tolerant-loop",
                    {"mode": "doe", "kinds": list(kinds), "outcomes": list(hist), "field": diff[0][0]},
                    {"differences": [list(map(str, x)) for x in diff], "spec": str(c), "gemseo": str(real)})
            di = _diff_case(ideal, real, with_exc=False)
            if di:
                isolation.append((len(hist), hist, kinds, di, real))
    ck.sample({"g04": "doe", "depths": list(depths), "histories": 2 ** (n + 1) - 1,
               "kinds": {d: [list(k) for k in v] for d, v in kind_sets.items()}})
    return isolation


def retry(ck, obs, depths, n, kind_sets, resets):
    cases = terminal_cases(ck, "retry", depths, n, resets, RETRY_INVS)
    for (depth, reset, hist), c in sorted(cases.items()):
        for kinds in kind_sets[depth]:
            st = Stack(kinds)
            res = None
            for o in hist:          # the specification decided how long the loop goes on
                st.reset(reset)
                res = st.call(1, o)
            ck.traces += 1
            real = dict(st.projection(), pc=c["pc"], stored=())
            diff = _diff_case(dict(c, stored=()), real, with_exc=False)
            want = ("ret", "none", "none") if c["pc"] == "returned" else ("exc", c["cls"], c["origin"])
            if (res["kind"], res["cls"], res["origin"]) != want:
                diff.append(("result", want, (res["kind"], res["cls"], res["origin"])))
            if c["pc"] == "returned" and (res["kind"] != "ret" or res["run"] != c["run"] or res["pt"] != 1):
                diff.append(("returned_outputs", (1, c["run"]), (res.get("pt"), res.get("run"))))
            if diff:
                obs("G04.retry.reference-client",
                    {"mode": "retry", "kinds": list(kinds), "reset": reset, "outcomes": list(hist), "field": diff[0][0]},
                    {"differences": [list(map(str, x)) for x in diff], "spec": str(c)})


# ------------------------------------------------------------------ entry point

def run(ck):
    from gemseo.core.execution_statistics import ExecutionStatistics
    was_enabled = ExecutionStatistics.is_enabled
    ExecutionStatistics.is_enabled = True
    try:
        _run(ck)
    finally:
        ExecutionStatistics.is_enabled = was_enabled


def _run(ck):
    thorough = ck.thorough
    one = [()]
    two = [(k,) for k in KINDS]
    three = list(itertools.product(KINDS, KINDS))
    few3 = [("filter", "remap"), ("chain", "filter"), ("remap", "chain")]
    ck.assumptions.append(
        "G04: gemseo has no RetryDiscipline / time-out; Retry.tla specifies the failure protocol of "
        "Discipline.execute under wrappers, the sequential DOE loop and a reference retry client")
    n = 4 if thorough else 3
    obs = _Obs(ck)
    kinds = {1: one, 2: two, 3: three if thorough else few3}

    # 0. the implementation-shaped variants have no failure isolation (design-level finding, by TLC)
    refutations(ck, n)

    # 1. direct: every history of calls and user resets, transition tour on the real stacks
    direct(ck, obs, [1, 2, 3], n, (1, 2), 2 if thorough else 1, kinds)
    if thorough:
        direct(ck, obs, [2, 3], n, (1, 2), 0, kinds, resets=("top", "all"))

    # 2. doe: every outcome sequence, the real sequential DOE
    isolation = doe(ck, obs, [1, 2, 3], n, kinds)
    if isolation:
        isolation.sort(key=lambda t: (len(t[2]), sum(o != "ok" for o in t[1]), t[1], t[2]))
        _, hist, kd, di, real = isolation[0]
        ck.observe("G04.doe.failure-isolation",
                   {"mode": "doe", "kind": "non-fatal-failure-costs-more-than-its-own-sample",
                    "depths": sorted({len(t[2]) + 1 for t in isolation}),
                    "smallest": {"kinds": list(kd), "outcomes": list(hist)}},
                   {"cases_disagreeing_with_Reset_all": len(isolation),
                    "differences": [list(map(str, x)) for x in di], "gemseo": str(real),
                    "what": "StoredComplete / EverySampleRuns of Retry.tla: after a ValueError raised below the top "
                            "discipline, the following samples are refused (status FAILED) and silently dropped"})

    # 3. retry: reference client, the executes of every printed history
    retry(ck, obs, [1, 2, 3] if thorough else [1, 2], n, kinds, ("none", "top", "all"))
    obs.finish()
