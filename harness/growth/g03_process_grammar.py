"""G03 (specification growth): namespaces and the grammar / data-flow construction of composite processes.

Specification: specs/ProcessGrammar.tla.  TLC enumerates small systems of disciplines as initial states
(2-3 disciplines, 2-4 bare names, 0-1 namespace; per (discipline, name): input absent / required /
required+default / optional+default / optional, output or not), explores the behaviours
    AddNamespaceToInput/Output*  ->  BuildChain | BuildParallelChain  ->  Execute(D)
checks its invariants on every state (to_namespaced/from_namespaced inverse bijections; composite grammar built
by the fold of `BaseGrammar.update` = declarative definition; the composite accepts exactly what the
disciplines accept during the propagation; no fall-back on a discipline default inside an accepted chain; data
returned by the fold of executions = declarative data flow; coupling changes of a namespace = name equality)
and prints, per built composite, one CASE record (JSON): the instance, the add_namespace calls, the expected
state of every discipline grammar, the expected grammars of the composite, the expected couplings and, for
every offered data set D, the expected verdict / returned data / data of each discipline.

Binding (spec -> code): for every CASE record the real objects are built (harness leaf `Discipline`s with
integer values, JSONGrammar or SimpleGrammar), the real `add_namespace_to_input/output` calls are replayed (a
rejected call must raise the exception class the specification names and leave the grammars unchanged), the
real `MDOChain` / `MDOParallelChain` is constructed and executed, and everything observable is compared with
the record.  Python only transports values: the numeric layer of the leaves (weights, bases, input values) is
read from the HEADER record printed by TLC.

Every disagreement is an OBSERVATION (`ck.observe`), never a violation: the clauses are outside the listed
properties.
"""
from __future__ import annotations

import json
import random
import re

import numpy as np

from ..core import MachineryError

MODULE = "ProcessGrammar"
TAG = "growth-g03"
INVARIANTS = ("TypeOK NsBijective ChainNsCoherent FoldIsDeclarative AcceptEquiv SubDefaultsUnused "
              "RunIsDataFlow NestAssoc RawTheorem ResOK")


def cfg(n, nn, ns, max_ops, first, stride, count, *, rejected=False, kinds=("chain", "parallel"),
        execute=False, emit=True, wide=False, invariants=INVARIANTS, action_property=True):
    b = lambda x: "TRUE" if x else "FALSE"  # noqa: E731
    return (
        "CONSTANTS\n"
        f" N = {n}\n NN = {nn}\n NSs = {{{', '.join(json.dumps(x) for x in ns)}}}\n MaxNsOps = {max_ops}\n"
        f" AllowRejected = {b(rejected)}\n Kinds = {{{', '.join(json.dumps(k) for k in kinds)}}}\n"
        f" First = {first}\n Stride = {stride}\n Count = {count}\n WideData = {b(wide)}\n DoExecute = {b(execute)}\n Emit = {b(emit)}\n"
        "SPECIFICATION Spec\n"
        f"INVARIANTS {invariants}\n"
        + ("PROPERTY NsCouplingStep\n" if action_property else "")
    )


def printed_json(out):
    """Values printed with PrintT(ToJson(v)): one TLA+ string per line."""
    for line in out.splitlines():
        if line.startswith('"{'):
            try:
                yield json.loads(json.loads(line))
            except ValueError:
                continue


# ----------------------------------------------------------------------------- transport helpers

def nm(s):
    """Name of the specification ("n_a") -> gemseo name ("n:a")."""
    return s.replace("_", ":")


def as_map(x):
    """ToJson prints the empty function as []."""
    return {} if isinstance(x, list) and not x else dict(x)


def names(xs):
    return {nm(x) for x in xs}


def name_map(x):
    return {nm(k): nm(v) for k, v in as_map(x).items()}


def name_seq_map(x):
    return {nm(k): [nm(v) for v in vs] for k, vs in as_map(x).items()}


def int_map(x):
    return {nm(k): int(v) for k, v in as_map(x).items()}


def real_ints(data):
    return {k: int(np.asarray(v).ravel()[0]) for k, v in dict(data).items()}


def real_ns(m):
    """to_namespaced / from_namespaced of a composite: str | list[str] per name (update_namespaces)."""
    return {k: ([v] if isinstance(v, str) else list(v)) for k, v in dict(m).items()}


def _plain(x):
    """Sets -> sorted lists (picklable / JSON-able details)."""
    if isinstance(x, dict):
        return {str(k): _plain(v) for k, v in x.items()}
    if isinstance(x, (set, frozenset)):
        return sorted((_plain(v) for v in x), key=str)
    if isinstance(x, (list, tuple)):
        return [_plain(v) for v in x]
    return x


def arrays(d):
    return {k: np.array([v]) for k, v in d.items()}


# ----------------------------------------------------------------------------- harness leaves

_LEAF = None


def leaf_class():
    global _LEAF
    if _LEAF is not None:
        return _LEAF
    from gemseo.core.discipline import Discipline

    class Leaf(Discipline):
        """o = kbase*k + obase*idx(o) + sum_i w[i]*x_i over the bare inputs present (integers)."""

        def __init__(self, k, rec, header, grammar_type):
            self.default_grammar_type = grammar_type
            super().__init__(f"D{k}")
            self.k, self.h = k, header
            self.bins, self.bouts = sorted(rec["ins"]), sorted(rec["outs"])
            ig, og = self.io.input_grammar, self.io.output_grammar
            ig.update_from_names(self.bins)
            og.update_from_names(self.bouts)
            for name in set(self.bins) - set(rec["req"]):
                ig.required_names.discard(name)
            ig.defaults.update(arrays(int_map(rec["dflt"])))

        def _run(self, input_data):
            h = self.h
            s = 0
            for i in self.bins:
                v = input_data.get(i)
                if v is not None:
                    s += h["w"][i] * int(np.asarray(v).ravel()[0])
            idx = {b: j + 1 for j, b in enumerate(h["names"])}
            junk = np.array([h["junk"]["val"]])
            out = {i: junk for i in self.bins}          # foreign items: must be ignored by update_output_data
            out[h["junk"]["name"]] = junk
            out.update({o: np.array([h["kbase"] * self.k + h["obase"] * idx[o] + s]) for o in self.bouts})
            return out

    _LEAF = Leaf
    return Leaf


def grammar_state(g):
    return {
        "names": set(g.names),
        "req": set(g.required_names),
        "dflt": real_ints(g.defaults),
        "to": dict(g.to_namespaced),
        "from": dict(g.from_namespaced),
    }


def expected_disc(rec):
    return (
        {"names": names(rec["ins"]), "req": names(rec["req"]), "dflt": int_map(rec["dflt"]),
         "to": name_map(rec["inTo"]), "from": name_map(rec["inFrom"])},
        {"names": names(rec["outs"]), "req": names(rec["outs"]), "dflt": {},
         "to": name_map(rec["outTo"]), "from": name_map(rec["outFrom"])},
    )


# ----------------------------------------------------------------------------- replay of one CASE record

class Replayer:
    def __init__(self, header, rng, par_execs, max_nests=1):
        self.h, self.rng, self.par_execs, self.max_nests = header, rng, par_execs, max_nests
        self.n_cases = self.n_execs = self.n_ops = self.n_rejected = self.n_nested = self.n_raw = self.n_raw_differ = 0
        self.observations = []      # (clause, signature, detail): handed to ck.observe by the parent process

    def obs(self, clause, case, what, expected, got, **more):
        sig = {"kind": case["kind"], "what": what}
        sig.update(more)
        self.observations.append((f"G03.{clause}", sig, _plain({
            "code": case["code"], "n": case["n"], "ops": case["ops"], "init": case["init"],
            "expected_by_specification": expected, "gemseo": got})))

    def build_leaves(self, case, grammar_type):
        leaf = leaf_class()
        return [leaf(k + 1, rec, self.h, grammar_type) for k, rec in enumerate(case["init"])]

    def apply_ops(self, case, discs):
        for op in case["ops"]:
            d = discs[op["k"] - 1]
            side = op["side"]
            fn = d.add_namespace_to_input if side == "in" else d.add_namespace_to_output
            g = d.io.input_grammar if side == "in" else d.io.output_grammar
            before = grammar_state(g)
            self.n_ops += 1
            try:
                fn(nm(op["name"]), op["ns"])
                raised = ""
            except Exception as ex:  # noqa: BLE001
                raised = type(ex).__name__
            if raised != op["exc"]:
                self.obs("add_namespace", case, "exception", op["exc"] or "accepted", raised or "accepted",
                         side=side)
                return False
            if not op["ok"]:
                self.n_rejected += 1
                after = grammar_state(g)
                if after != before:
                    self.obs("add_namespace", case, "rejected-call-changed-grammar", before, after, side=side)
                    return False
        return True

    def check_disciplines(self, case, discs):
        ok = True
        for k, (d, rec) in enumerate(zip(discs, case["discs"]), 1):
            exp_in, exp_out = expected_disc(rec)
            for side, g, exp in (("in", d.io.input_grammar, exp_in), ("out", d.io.output_grammar, exp_out)):
                got = grammar_state(g)
                for key in ("names", "req", "dflt", "to", "from"):
                    if got[key] != exp[key]:
                        clause = "namespace-maps" if key in ("to", "from") else "discipline-grammar"
                        self.obs(clause, case, f"{side}.{key}", exp[key], got[key])
                        ok = False
                # to_namespaced / from_namespaced are inverse on the existing names (read on the real object)
                to, frm = got["to"], got["from"]
                if {v: k2 for k2, v in to.items()} != frm or any(v not in got["names"] for v in to.values()):
                    self.obs("namespace-maps", case, f"{side}.not-inverse", "inverse bijections", [to, frm])
                    ok = False
        return ok

    def check_composite_grammar(self, case, comp, g=None, where=""):
        g = case["g"] if g is None else g
        ig, og = comp.io.input_grammar, comp.io.output_grammar
        exp = {
            "in.names": names(g["ins"]), "in.required": names(g["req"]), "in.defaults": int_map(g["dflt"]),
            "out.names": names(g["outs"]), "out.required": names(g["outs"]),
            "in.to_namespaced": name_seq_map(g["inTo"]), "in.from_namespaced": name_seq_map(g["inFrom"]),
            "out.to_namespaced": name_seq_map(g["outTo"]), "out.from_namespaced": name_seq_map(g["outFrom"]),
        }
        got = {
            "in.names": set(ig.names), "in.required": set(ig.required_names), "in.defaults": real_ints(ig.defaults),
            "out.names": set(og.names), "out.required": set(og.required_names),
            "in.to_namespaced": real_ns(ig.to_namespaced), "in.from_namespaced": real_ns(ig.from_namespaced),
            "out.to_namespaced": real_ns(og.to_namespaced), "out.from_namespaced": real_ns(og.from_namespaced),
        }
        ok = True
        for key, e in exp.items():
            if got[key] != e:
                clause = "composite-namespace-maps" if "namespaced" in key else "composite-grammar"
                self.obs(clause, case, where + key, e, got[key])
                ok = False
        return ok

    def check_flow(self, case, comp, discs):
        from gemseo.core.dependency_graph import DependencyGraph

        exp = {(j, k, frozenset(names(s))) for j, k, s in case["flow"]}
        pos = {id(d): k for k, d in enumerate(discs, 1)}
        got = {(pos[id(a)], pos[id(b)], frozenset(s)) for a, b, s in DependencyGraph(discs).get_disciplines_couplings()}
        if got != exp:
            self.obs("couplings", case, "dependency-graph", sorted(map(list, exp), key=str), sorted(map(list, got), key=str))
            return False
        if case["kind"] == "chain":
            got = {(pos[id(a)], pos[id(b)], frozenset(s)) for a, b, s in comp.get_process_flow().get_data_flow()}
            if got != exp:
                self.obs("couplings", case, "chain-data-flow", sorted(map(list, exp), key=str),
                         sorted(map(list, got), key=str))
                return False
        return True

    def check_exec(self, case, comp, discs, ex, where=""):
        from gemseo.core.grammars.errors import InvalidDataError

        data = int_map(ex["D"])
        r = ex["r"]
        self.n_execs += 1
        try:
            out = comp.execute(arrays(data))
            got_ok, err = True, ""
        except InvalidDataError as e:
            got_ok, err, out = False, str(e), None
        except Exception as e:  # noqa: BLE001
            self.obs("execute", case, where + "exception", "ok" if r["ok"] else "InvalidDataError", repr(e)[:300],
                     exception=type(e).__name__)
            return False
        if got_ok != r["ok"]:
            self.obs("acceptance", case, where + ("accepted" if got_ok else "rejected"),
                     {"D": data, "ok": r["ok"], "at": r["at"]}, {"ok": got_ok, "error": err[:300]})
            return False
        if not got_ok:
            if comp.io.input_grammar.name not in err:
                self.obs("acceptance", case, where + "rejected-by-another-grammar",
                         {"D": data, "rejected_by": comp.io.input_grammar.name}, err[:300])
                return False
            return True
        exp = int_map(r["data"])
        got = real_ints(out)
        if got != exp:
            self.obs("returned-data", case, where + "data", {"D": data, "data": exp}, got)
            return False
        for k, (d, step) in enumerate(zip(discs, r["steps"]), 1):
            exp_k, got_k = int_map(step), real_ints(d.io.data)
            if exp_k != got_k:
                self.obs("propagated-data", case, where + "discipline-data", {"D": data, "k": k, "data": exp_k}, got_k)
                return False
        for k, (d, acc) in enumerate(zip(discs, ex["acc"]), 1):
            exp_k = {"in": int_map(acc["inb"]), "out": int_map(acc["outb"])}
            got_k = {"in": real_ints(d.io.get_input_data(with_namespaces=False)),
                     "out": real_ints(d.io.get_output_data(with_namespaces=False))}
            if exp_k != got_k:
                self.obs("accessors", case, where + "without-namespaces", {"D": data, "k": k, **exp_k}, got_k)
                return False
        return True

    def replay_raw(self, case, grammar_type, ex):
        """The members executed by hand on D (no composite): the specification computed what they return
        (`raw`), which differs from what the composite returns when the defaults are not coherent."""
        from gemseo.core.grammars.errors import InvalidDataError

        self.n_raw += 1
        discs = self.build_leaves(case, grammar_type)
        if not self.apply_ops(case, discs):
            return False
        data = arrays(int_map(ex["D"]))
        out_names = set().union(*(set(d.io.output_grammar.names) for d in discs))
        try:
            if case["kind"] == "chain":
                for d in discs:
                    data.update(d.execute(data))
            else:
                results = [d.execute(data) for d in discs]
                data = dict(data)
                for d, res in zip(discs, results):
                    data.update({k: res[k] for k in d.io.output_grammar.names})
            got = {"ok": True, "outs": {k: v for k, v in real_ints(data).items() if k in out_names}}
        except InvalidDataError:
            got = {"ok": False, "outs": {}}
        exp = {"ok": ex["raw"]["ok"], "outs": int_map(ex["raw"]["outs"])}
        if got != exp:
            self.obs("members-executed-by-hand", case, "raw", {"D": int_map(ex["D"]), **exp}, got)
            return False
        return True

    def replay_nested(self, case, nst, grammar_type, execs):
        """MDOChain([.., MDOChain(members lo..hi), ..]): the specification says (invariant NestAssoc, and the
        `same` field evaluated by TLC for this record) that it behaves as the flat chain of the record."""
        from gemseo.core.chains.chain import MDOChain

        lo, hi = nst["lo"], nst["hi"]
        where = f"nested[{lo}..{hi}]."
        self.n_nested += 1
        discs = self.build_leaves(case, grammar_type)
        if not self.apply_ops(case, discs):
            return False
        inner = MDOChain(discs[lo - 1:hi], name="Inner")
        outer = MDOChain([*discs[:lo - 1], inner, *discs[hi:]], name="Outer")
        ok = self.check_composite_grammar(case, inner, nst["inner"], where + "inner.")
        ok = self.check_composite_grammar(case, outer, nst["g"], where) and ok
        if nst["same"]:
            if len(execs) > 6:          # the largest data set + a seeded sample
                full = max(execs, key=lambda e: len(as_map(e["D"])))
                execs = [full] + self.rng.sample([e for e in execs if e is not full], 5)
            for ex in execs:
                ok = self.check_exec(case, outer, discs, ex, where) and ok
        return ok

    def replay(self, case, grammar_type):
        from gemseo.core.chains.chain import MDOChain
        from gemseo.core.chains.parallel_chain import MDOParallelChain

        self.n_cases += 1
        try:
            discs = self.build_leaves(case, grammar_type)
            if not self.apply_ops(case, discs):
                return False
            ok = self.check_disciplines(case, discs)
            if case["kind"] == "chain":
                comp = MDOChain(discs)
            else:
                comp = MDOParallelChain(discs, use_threading=True, n_processes=1)
            ok = self.check_composite_grammar(case, comp) and ok
            ok = self.check_flow(case, comp, discs) and ok
            execs = sorted(case["execs"], key=lambda e: sorted(as_map(e["D"])))
            if case["kind"] == "parallel" and len(execs) > self.par_execs:
                # thread-pool executions are slow: the empty and the largest data sets + a seeded sample
                keep = [execs[0], max(execs, key=lambda e: len(as_map(e["D"])))]
                rest = [e for e in execs if e not in keep]
                execs = keep + self.rng.sample(rest, max(0, self.par_execs - len(keep)))
            if case["ops"] and not case["ops"][-1]["ok"]:
                # the last call was rejected: the same system as the behaviour without it, which is replayed too
                execs = execs[-1:]
            for ex in execs:
                ok = self.check_exec(case, comp, discs, ex) and ok
            differ = [e for e in execs if not e["rawsame"]]
            agree = [e for e in execs if e["rawsame"]]
            for ex in self.rng.sample(differ, min(2, len(differ))) + self.rng.sample(agree, min(1, len(agree))):
                ok = self.replay_raw(case, grammar_type, ex) and ok
                self.n_raw_differ += not ex["rawsame"]
            nests = sorted(case.get("nest", ()), key=lambda x: (x["lo"], x["hi"]))
            if len(nests) > self.max_nests:
                nests = self.rng.sample(nests, self.max_nests)
            for nst in nests:
                ok = self.replay_nested(case, nst, grammar_type, execs) and ok
            return ok
        except Exception as e:  # noqa: BLE001  (an exception of gemseo where the specification allows the call)
            self.obs("exception", case, "unexpected-exception", "no exception", repr(e)[:300],
                     exception=type(e).__name__)
            return False


# ----------------------------------------------------------------------------- families

def families(ck):
    """(label, cfg kwargs, TLC workers).  codes: one decimal digit per (discipline, name) -> 10**(n*nn) instances."""
    s = ck.seed
    if not ck.thorough:
        return [
            # every add_namespace call, accepted or rejected (KeyError / ValueError), then Execute as an action
            ("2x2-rejected", dict(n=2, nn=2, ns=["n"], max_ops=1, first=(7 + s) % 2477, stride=2477, count=4,
                                  rejected=True, execute=True), 1),
            # two calls (the order of the calls is part of the behaviour)
            ("2x2-two-ops", dict(n=2, nn=2, ns=["n"], max_ops=2, first=(3 + s) % 1249, stride=1249, count=8,
                                 kinds=("chain",), wide=True), 1),
            ("3x2-one-op", dict(n=3, nn=2, ns=["n"], max_ops=1, first=(11 + s) % 62497, stride=62497, count=16), 1),
            ("2x3-one-op", dict(n=2, nn=3, ns=["n"], max_ops=1, first=(5 + s) % 62483, stride=62483, count=16), 1),
            ("3x3-no-namespace", dict(n=3, nn=3, ns=[], max_ops=0, first=(13 + s) % 9999991, stride=9999991,
                                      count=100), 1),
        ]
    return [
        ("2x2-rejected", dict(n=2, nn=2, ns=["n"], max_ops=1, first=(7 + s) % 331, stride=331, count=30,
                              rejected=True, execute=True), 2),
        ("2x2-one-op", dict(n=2, nn=2, ns=["n"], max_ops=1, first=(2 + s) % 25, stride=25, count=400, wide=True), 4),
        ("2x2-two-ops", dict(n=2, nn=2, ns=["n"], max_ops=2, first=(3 + s) % 331, stride=331, count=30, wide=True), 4),
        ("3x2-two-ops", dict(n=3, nn=2, ns=["n"], max_ops=2, first=(11 + s) % 66653, stride=66653, count=15,
                             kinds=("chain",)), 4),
        ("2x3-two-ops", dict(n=2, nn=3, ns=["n"], max_ops=2, first=(5 + s) % 66643, stride=66643, count=15,
                             kinds=("chain",)), 4),
        ("3x2-one-op", dict(n=3, nn=2, ns=["n"], max_ops=1, first=(11 + s) % 8329, stride=8329, count=120), 4),
        ("2x3-one-op", dict(n=2, nn=3, ns=["n"], max_ops=1, first=(5 + s) % 8317, stride=8317, count=120), 4),
        ("3x3-one-op", dict(n=3, nn=3, ns=["n"], max_ops=1, first=(13 + s) % 16666643, stride=16666643, count=60), 4),
        ("2x4-one-op", dict(n=2, nn=4, ns=["n"], max_ops=1, first=(17 + s) % 1666663, stride=1666663, count=60), 4),
        ("3x3-no-namespace", dict(n=3, nn=3, ns=[], max_ops=0, first=(13 + s) % 1666663, stride=1666663,
                                  count=600), 4),
        ("2x2-no-namespace", dict(n=2, nn=2, ns=[], max_ops=0, first=s % 4, stride=4, count=2500, wide=True), 4),
    ]


_JVM = "-XX:+UseParallelGC -XX:ParallelGCThreads=2 -Xmx3g"     # several small JVMs side by side


def _replay_chunk(args):
    """Worker (forked): replay CASE records on the real gemseo objects."""
    import logging
    import warnings

    logging.disable(logging.CRITICAL)
    warnings.filterwarnings("ignore")
    header, cases, seed, par_execs, max_nests = args
    rp = Replayer(header, random.Random(seed), par_execs, max_nests)
    quiet = 0
    for i, case in cases:
        gt = "JSONGrammar" if (case["code"] + i) % 2 == 0 else "SimpleGrammar"
        quiet += bool(rp.replay(case, gt))
    return {"cases": rp.n_cases, "execs": rp.n_execs, "ops": rp.n_ops, "rejected_ops": rp.n_rejected,
            "nested": rp.n_nested, "by_hand": rp.n_raw, "by_hand_differs_from_composite": rp.n_raw_differ,
            "quiet_cases": quiet, "observations": rp.observations}


def run(ck):
    import multiprocessing as mp
    from concurrent.futures import ThreadPoolExecutor

    fams = families(ck)
    n_jvm = 4 if ck.thorough else 6

    def model_check(item):
        label, kw, workers = item
        # TLC's coverage statistics double the run time: vacuity is checked on the printed records instead (which
        # add_namespace calls were accepted, which composites were built) and, for Execute, on the depth of the
        # state graph (Init, calls, Build, Execute)
        r = ck.tlc(MODULE, cfg(**kw), workers=workers, timeout=1200 if ck.thorough else 240, deadlock=False,
                   coverage=False, tag=f"{TAG}/{label}", env={"JAVA_TOOL_OPTIONS": _JVM})
        if kw.get("execute") and r.depth < kw["max_ops"] + 3:
            raise MachineryError(f"G03: vacuity: Execute never taken in family {label} (depth {r.depth})")
        recs = list(printed_json(r.out))
        header = next((x for x in recs if x.get("tag") == "HEADER"), None)
        # one-line records: complete whatever the number of TLC workers; sorted, the order is deterministic
        cases = sorted((x for x in recs if x.get("tag") == "CASE"),
                       key=lambda c: (c["code"], len(c["ops"]), json.dumps(c["ops"], sort_keys=True), c["kind"]))
        if header is None or not cases:
            raise MachineryError(f"G03: TLC printed no HEADER/CASE record for family {label}")
        if kw["max_ops"] > 0:
            sides = {op["side"] for c in cases for op in c["ops"] if op["ok"]}
            if sides != {"in", "out"}:
                raise MachineryError(f"G03: vacuity: add_namespace calls on {sorted(sides)} only in family {label}")
        if {c["kind"] for c in cases} != set(kw.get("kinds", ("chain", "parallel"))):
            raise MachineryError(f"G03: vacuity: a kind of composite was never built in family {label}")
        return label, kw, r, header, cases

    def non_theorem(_):
        """`RawAlwaysAgrees` is NOT an invariant of the specification: TLC must find the counterexample (two
        members with different defaults / requirements for a shared input).  Recorded as a design observation."""
        r = ck.tlc(MODULE, cfg(n=2, nn=2, ns=[], max_ops=0, first=0, stride=1, count=10000, emit=False, wide=True,
                               invariants="RawAlwaysAgrees", action_property=False),
                   workers=1, timeout=240, deadlock=False, coverage=False, count=False, expect_ok=False,
                   tag=f"{TAG}/non-theorem", env={"JAVA_TOOL_OPTIONS": _JVM})
        if r.violated != "RawAlwaysAgrees":
            raise MachineryError("G03: TLC found no counterexample to RawAlwaysAgrees (expected: the composite's "
                                 "defaults differ from its members')")
        code = re.findall(r"/\\ code = (\d+)", r.out)
        kind = re.findall(r'<Build\("(\w+)"\)', r.out)
        return {"violated": r.violated, "counterexample_instance_code": int(code[-1]) if code else None,
                "composite": kind[-1] if kind else None,
                "meaning": "members with different defaults/requirements for a shared input: the composite feeds "
                           "all of them the default of the last member that declares one"}

    # 1. the specification: every family model-checked (invariants + action property), CASE records printed
    with ThreadPoolExecutor(max_workers=min(n_jvm, len(fams) + 1)) as tp:
        fut = tp.submit(non_theorem, None)
        checked = list(tp.map(model_check, fams))
        ck.extra["growth_G03_non_theorem_RawAlwaysAgrees"] = fut.result()

    # 2. the binding: the records replayed on the real objects (forked workers; gemseo imported once)
    import gemseo  # noqa: F401

    jobs, owner = [], []
    chunk = 60
    par_execs = 4 if ck.thorough else 3
    for f, (label, kw, r, header, cases) in enumerate(checked):
        indexed = list(enumerate(cases))
        for c in range(0, len(indexed), chunk):
            jobs.append((header, indexed[c:c + chunk], ck.seed * 7919 + 1000 * f + c, par_execs,
                         2 if ck.thorough else 1))
            owner.append(label)
    n_proc = max(1, min(8, len(jobs)))
    results = None
    if n_proc > 1:
        try:
            with mp.get_context("fork").Pool(n_proc) as pool:
                results = pool.map(_replay_chunk, jobs, chunksize=1)
        except (AssertionError, OSError):     # e.g. called from a daemonic process: replay in this process
            results = None
    if results is None:
        results = [_replay_chunk(j) for j in jobs]

    total = {"cases": 0, "execs": 0, "ops": 0, "rejected_ops": 0, "nested": 0, "by_hand": 0,
             "by_hand_differs_from_composite": 0, "quiet_cases": 0}
    per_family = {label: {"instances": kw["count"], "tlc_distinct_states": r.distinct, "composites": 0,
                          "executions": 0, "add_namespace_calls": 0, "rejected_calls": 0, "nested_chains": 0}
                  for label, kw, r, _, _ in checked}
    for label, res in zip(owner, results):
        pf = per_family[label]
        pf["composites"] += res["cases"]
        pf["executions"] += res["execs"]
        pf["add_namespace_calls"] += res["ops"]
        pf["rejected_calls"] += res["rejected_ops"]
        pf["nested_chains"] += res["nested"]
        for key in total:
            total[key] += res[key]
        for clause, sig, detail in res["observations"]:
            ck.observe(clause, sig, detail)
    for label, kw, r, header, cases in checked[:3]:
        c = cases[len(cases) // 2]
        ck.sample({"growth": "G03", "family": label, "code": c["code"], "kind": c["kind"], "ops": c["ops"],
                   "expected_input_names": c["g"]["ins"], "expected_required": c["g"]["req"],
                   "n_data_sets": len(c["execs"])})
    ck.traces += total["cases"]
    ck.extra["growth_G03_process_grammar"] = {"families": per_family, **total}
    return total
