"""G02 (specification growth, outside the listed properties) - Database maintenance operations interleaved
with incremental (append) HDF5 exports, to one file or to two files alternately.

Specification: specs/HDFStoreMaint.tla (instantiates HDFStoreImpl / HDFStore of C11).  It has two layers:
 * the code-shaped rules (actions Store, StoreMore, RemoveEmptyEntries, ClearFromIteration(k), Filter(names),
   Delete(key), Clear, ExportTo(file, append)): the one pending buffer per database, the index = position in
   the database, the writer of _hdf_database.py with its truncated zip / default mapping / exceptions in the
   middle of a loop;
 * what the maintainers expect of them (ExportSucceeds, FilesLoadable, FileIsLastExport = NoMissingData +
   NoStaleData + order, NoForeignOutputs, NamesAligned, AppendEqualsFull).  TLC evaluates them in every state
   (derived variable `viol`) and refutes them; with no maintenance operation and one file they hold and the
   module refines HDFStoreImpl.

Binding (spec -> code), all values coming from TLC states:
 * transition tour of the state graph of every configuration on a real `Database` and real HDF5 files under
   ck.work: after every operation the in-memory database is compared with the state's `db`; after every export
   the exception raised (or not) with `out`, the raw h5py layout with `files[f]`, and `Database.from_hdf`
   (or its failure) with `obs[f]`.  A difference is the observation `ImplShape` (the rules do not describe
   gemseo: this is what the mutants produce);
 * for every expectation TLC refutes and every maintenance operation (or the alternation of two files) the
   shortest refuting history of the graph is replayed the same way; when the real code follows the rules to
   the end, the refutation holds for gemseo and is reported as an observation named after the expectation.
"""
from __future__ import annotations

import multiprocessing as mp
import os
import random
import re
import time
import traceback
from collections import deque
from pathlib import Path

from ..checks import c11_replay as rp
from ..core import Check, Graph, MachineryError

MODULE = "HDFStoreMaint"
TAG = "growth-g02"
ALL_OPS = ("RemoveEmptyEntries", "ClearFromIteration", "Filter", "Delete", "Clear")
SHIFT_OPS = ("RemoveEmptyEntries", "ClearFromIteration", "Delete", "Clear")
RULES = ["TypeOK", "DerivedOK", "NewEntryAgrees", "FullDecodes", "BufferRule"]  # hold of the code-shaped rules
EXPECTED = ["ExportSucceeds", "FilesLoadable", "NoMissingData", "NoStaleData", "FileIsLastExport",
            "NoForeignOutputs", "NamesAligned"]
KINDS = ("ExportRaises", "PartialWrite", "Unloadable", "ForeignOutputs", "MisnamedOutputs", "MissingData",
         "Reordered", "StaleData")  # what `viol` may hold, the most serious first

# name: (NKeys, {name: kind}, files, maintenance operations, Restore, MaxMaint)
CONFIGS = {
    # the operations that move the points (the position in the database is the address in the file)
    "S": (2, {"f": "scalar"}, ("A",), SHIFT_OPS, True, 1),
    # filter: the file entry keeps names that the database entry has lost
    "F": (1, {"f": "scalar", "g": "vector"}, ("A",), ("Filter",), False, 2),
    # two files alternately, no maintenance: one buffer for both
    "T": (3, {}, ("A", "B"), (), False, 0),
    "U": (2, {"f": "scalar"}, ("A", "B"), (), False, 0),
    # thorough
    "S3": (3, {"f": "scalar"}, ("A",), SHIFT_OPS, False, 1),
    "F2": (2, {"f": "scalar", "g": "vector"}, ("A",), ("Filter", "RemoveEmptyEntries"), False, 2),
    "N3": (1, {"@g": "matrix", "f": "scalar", "g": "vector"}, ("A",), ("Filter",), False, 2),
    "X": (2, {"f": "scalar"}, ("A", "B"), ALL_OPS, False, 1),
    # no maintenance, one file: the expectations hold and the module refines HDFStoreImpl
    "base": (2, {"f": "scalar", "g": "vector"}, ("A",), (), False, 0),
    "base-quick": (2, {"g": "vector"}, ("A",), (), False, 0),
}


def tla_set(xs):
    return "{" + ", ".join('"%s"' % x for x in sorted(xs)) + "}"


def cfg(conf, *, invariants=(), properties=()):
    nkeys, kinds, files, ops, restore, maxm = CONFIGS[conf]
    by = lambda kind: tla_set(n for n, k in kinds.items() if k == kind)  # noqa: E731
    s = (f"CONSTANTS NKeys = {nkeys}\n Names = {tla_set(kinds)}\n Scalars = {by('scalar')}\n"
         f" Size1s = {by('size1')}\n Vectors = {by('vector')}\n Matrices = {by('matrix')}\n"
         f" Files = {tla_set(files)}\n MaintOps = {tla_set(ops)}\n Restore = {'TRUE' if restore else 'FALSE'}\n"
         f" MaxMaint = {maxm}\n MaxLevel = 0\nSPECIFICATION Spec\nCHECK_DEADLOCK FALSE\n")
    for i in invariants:
        s += f"INVARIANT {i}\n"
    for p in properties:
        s += f"PROPERTY {p}\n"
    return s


def counterexample(out):
    """[(action label, state)] of the error trace TLC printed."""
    from ..tlaval import parse_state

    tr = []
    for m in re.finditer(r"State (\d+): <([^>]*)>\n((?:/\\ .*\n(?:[ \t]+.*\n)*)+)", out):
        tr.append((m.group(2).split(" line")[0].strip(), parse_state(m.group(3))))
    return tr


# ----------------------------------------------------------------------------- replay of one history

def label(act, args):
    if act == "ExportTo":
        return f"ExportTo({args[0]},{'append' if args[1] else 'full'})"
    if act in ("Store", "StoreMore", "Filter"):
        names = sorted(args[-1])
        return f"{act}({','.join([str(a) for a in args[:-1]] + ['{' + ' '.join(names) + '}'])})"
    return act + ("(" + ",".join(str(a) for a in args) + ")" if args else "")


class Replayer:
    """Steps a real Database and real HDF5 files through one walk of the HDFStoreMaint graph."""

    def __init__(self, graph, workdir, tag, node="", listener=False):
        self.g = graph
        self.node = node
        self.listener = listener  # an append export that follows a store is made by a store listener
        self.n_listener = 0
        self.paths = {f: Path(workdir) / f"{tag}-{f}.h5" for f in ("A", "B")}
        self.diffs = []  # ImplShape: the real code against the TLC state
        self.n_exports = self.n_loads = 0
        self.confirmed = {}  # kind -> number of export steps whose TLC verdict has it, real code agreeing
        self.last = {}  # what the real code gave at the last export (for the reports)

    def cleanup(self):
        for p in self.paths.values():
            if p.exists():
                os.remove(p)

    def differ(self, what, ops, detail):
        self.diffs.append({"what": what, "ops": list(ops), "detail": detail})
        return False

    def to_hdf(self, database, f, append):
        try:
            database.to_hdf(self.paths[f], append=append, hdf_node_path=self.node)
        except Exception as ex:  # noqa: BLE001 - compared with the outcome the rules give
            self.last["export_exception"] = repr(ex)[:200]
            return type(ex).__name__
        return "none"

    def store(self, database, x, outputs, then_export):
        """database.store; then_export = (file, append): the export is made from a store listener, i.e. inside
        store(), after the buffer and the data were updated (the way OptimizationProblem exports a history)."""
        if then_export is None:
            database.store(x, outputs)
            return None
        raised = []

        def listener(_):
            raised.append(self.to_hdf(database, *then_export))

        database.add_store_listener(listener)
        try:
            database.store(x, outputs)
        finally:
            database.clear_listeners(new_iter_listeners=None, store_listeners=[listener])
        self.n_listener += 1
        return raised[0]

    def export(self, database, f, append, state, ops, raised=None):
        from gemseo.algos.database import Database

        path = self.paths[f]
        if raised is None:
            raised = self.to_hdf(database, f, append)
        self.n_exports += 1
        if raised != state["out"]:
            return self.differ("export-outcome", ops, {"impl": raised, "spec": state["out"],
                                                       "exception": self.last.get("export_exception")})
        try:
            lay = rp.read_layout(path, self.node)
        except Exception as ex:  # noqa: BLE001
            return self.differ("layout-unreadable", ops, {"exception": repr(ex)})
        want = rp.spec_file(state["files"][f])
        if lay != want:
            bad = sorted(str(i) for i in set(lay) | set(want) if lay.get(i) != want.get(i))
            i = next(i for i in list(want) + list(lay) if str(i) == bad[0])
            return self.differ("layout", ops, {"file": f, "entry": bad[0], "impl": lay.get(i), "spec": want.get(i)})
        obs = state["obs"][f]
        try:
            back = Database.from_hdf(path, hdf_node_path=self.node)
            got = rp.project_db(back)
            loaded = True
        except Exception as ex:  # noqa: BLE001
            loaded, got = False, repr(ex)[:200]
        self.n_loads += 1
        self.last.update(reloaded=got, memory=rp.project_db(database), loadable=loaded, file=f)
        if loaded != obs["ok"]:
            return self.differ("loadable", ops, {"file": f, "impl": got, "spec_loadable": obs["ok"]})
        if loaded:
            d = rp.Replayer.diff_db(got, rp.spec_db(obs["db"]))
            if d:
                return self.differ("reload:" + d[0], ops, dict(d[1], file=f, reloaded=got, spec=rp.spec_db(obs["db"])))
        for kind in state["viol"]:
            self.confirmed[str(kind)] = self.confirmed.get(str(kind), 0) + 1
        return True

    def run(self, edge_ids):
        """returns the number of steps on which the real code followed the specification."""
        from gemseo.algos.database import Database

        g = self.g
        database = Database()
        ops = []
        steps = 0
        done = None  # the outcome of an export already made by a listener
        for pos, k in enumerate(edge_ids):
            _, dst, act, args = g.edges[k]
            state = g.states[dst]
            ops.append(label(act, args))
            try:
                if act in ("Store", "StoreMore"):
                    key, names = args
                    entry = next(e for e in rp.as_seq(state["db"]) if e["key"] == key)
                    outputs = {}
                    for n in sorted(names, reverse=True):  # insertion order deliberately not sorted
                        o = entry["outs"][n]
                        outputs[str(n)] = rp.build(str(n), o["kind"], o["val"])
                    nxt = g.edges[edge_ids[pos + 1]] if pos + 1 < len(edge_ids) else None
                    then = None
                    if self.listener and nxt is not None and nxt[2] == "ExportTo" and nxt[3][1]:
                        then = (str(nxt[3][0]), True)
                    done = self.store(database, rp.POINTS[key].copy(), outputs, then)
                elif act == "RemoveEmptyEntries":
                    database.remove_empty_entries()
                elif act == "ClearFromIteration":
                    database.clear_from_iteration(int(args[0]))
                elif act == "Filter":
                    database.filter(sorted(str(n) for n in args[0]))
                elif act == "Delete":
                    del database[rp.POINTS[args[0]]]
                elif act == "Clear":
                    database.clear()
                elif act == "ExportTo":
                    ok = self.export(database, str(args[0]), bool(args[1]), state, ops, raised=done)
                    done = None
                    if not ok:
                        return steps
                else:
                    raise RuntimeError(f"unknown action {act}")
            except Exception as ex:  # noqa: BLE001 - an operation the rules allow
                if isinstance(ex, RuntimeError) and "unknown action" in str(ex):
                    raise
                self.differ("exception:" + type(ex).__name__, ops,
                            {"exception": repr(ex), "traceback": traceback.format_exc(limit=4)})
                return steps
            d = rp.Replayer.diff_db(rp.project_db(database), rp.spec_db(state["db"]))
            if d:
                self.differ("memory:" + d[0], ops, d[1])
                return steps
            steps += 1
        return steps


_G = None
_PAR = None


def set_graph(graph):
    global _G, _PAR
    _G = graph
    _PAR = graph.bfs_tree()


def run_walk(job):
    import logging
    import warnings

    logging.disable(logging.CRITICAL)
    warnings.filterwarnings("ignore")
    idx, edge_ids, node, workdir = job
    listener = (idx // 2) % 2 == 1
    r = Replayer(_G, workdir, f"w{idx}", node, listener)
    try:
        steps = r.run(edge_ids)
    finally:
        r.cleanup()
    diffs = r.diffs
    if diffs and steps < len(edge_ids):  # minimise: the shortest history that takes the failing transition
        k = edge_ids[steps]
        short = _G.path_to(_G.edges[k][0], _PAR) + [k]
        if len(short) < steps + 1:
            r2 = Replayer(_G, workdir, f"w{idx}m", node, listener)
            try:
                r2.run(short)
            finally:
                r2.cleanup()
            if r2.diffs:
                diffs = r2.diffs
    for d in diffs:
        d["detail"]["export_from_listener"] = listener
    return {"idx": idx, "steps": steps, "len": len(edge_ids), "exports": r.n_exports, "loads": r.n_loads,
            "listener_exports": r.n_listener, "diffs": diffs, "confirmed": r.confirmed}


# ----------------------------------------------------------------------------- graph queries

def shortest_to(g, goal, allowed):
    """edge ids of a shortest path from the initial state to a state satisfying goal, through transitions whose
    action is in `allowed` (BFS over the graph TLC produced; the order of the canonicalised graph breaks ties)."""
    start = g.init[0]
    prev = {start: None}
    q = deque([start])
    while q:
        s = q.popleft()
        if goal(g.states[s]):
            p = []
            while prev[s] is not None:
                p.append(prev[s])
                s = g.edges[prev[s]][0]
            p.reverse()
            return p
        for k in g.out.get(s, ()):
            e = g.edges[k]
            if e[2] in allowed and e[1] not in prev:
                prev[e[1]] = k
                q.append(e[1])
    return None


# ----------------------------------------------------------------------------- one configuration

def explore(ck: Check, conf, workers=8):
    """Exhaustive TLC run of the code-shaped rules (their own invariants hold), graph dumped.
    (count=False: the caller adds the states, this function may run in a thread.)"""
    ops = CONFIGS[conf][3]
    req = ("Store", "StoreMore", "ExportTo") + tuple(ops)
    if not CONFIGS[conf][1]:
        req = tuple(a for a in req if a != "Filter")
    # -coverage triples the cost of these runs: vacuity is checked on the dumped graph instead
    tag = f"{TAG}/{conf}"
    r = ck.tlc(MODULE, cfg(conf, invariants=RULES, properties=["FullExportRepairs"]), workers=workers, timeout=1200,
               dump=True, tag=tag, coverage=False, count=False)
    g = rp.canonicalise(Graph(ck.work / tag / f"{MODULE}.dot"))
    (ck.work / tag / f"{MODULE}.dot").unlink()
    if len(g.states) != r.distinct:
        raise MachineryError(f"graph dump has {len(g.states)} states, TLC found {r.distinct}")
    taken = {e[2] for e in g.edges}
    for a in req:
        if a not in taken:
            raise MachineryError(f"vacuity: action {a} of {MODULE} never taken in configuration {conf}")
    return r, g


def refutations(g, conf):
    """{(kind, culprit): shortest refuting walk}: for every expectation kind held by `viol` in some state and
    every maintenance operation of the configuration (alone) or the alternation of two files."""
    nkeys, kinds, files, ops, restore, maxm = CONFIGS[conf]
    base = {"Store", "StoreMore", "ExportTo"}
    culprits = [(op, base | {op}) for op in ops] if ops else [("TwoFiles", base)]
    if ops and len(files) > 1:
        return {}  # a mixed configuration: toured only
    found = {}
    present = set()
    for st in g.states.values():
        present |= {str(k) for k in st["viol"]}
    for kind in KINDS:
        if kind not in present:
            continue
        for culprit, allowed in culprits:
            w = shortest_to(g, lambda st, kind=kind: kind in st["viol"], allowed)
            if w is not None:
                found[(kind, culprit)] = w
    return found


def tour(ck: Check, conf, g, *, max_len, io_budget, nproc, rng):
    t = rp.Tour(g)
    # a sampled tour covers the exports and the maintenance operations up to the budget; the stores on the way
    # are exercised too
    wanted_edge = lambda e: e[2] not in ("Store", "StoreMore")  # noqa: E731
    if io_budget is None:
        walks, covered, wanted = t.walks(max_len)
    else:
        walks, covered, wanted = t.walks(max_len, want=wanted_edge, budget=io_budget, rng=rng)
    set_graph(g)
    jobs = [(i, w, "" if i % 2 == 0 else "hist/run_1", str(ck.work)) for i, w in enumerate(walks)]
    if nproc > 1 and len(jobs) > 1:
        with mp.get_context("fork").Pool(nproc) as pool:
            results = pool.map(run_walk, jobs, chunksize=max(1, len(jobs) // (nproc * 8)))
    else:
        results = [run_walk(j) for j in jobs]
    results.sort(key=lambda x: x["idx"])
    confirmed = {}
    n_diff = 0
    for x in results:
        for k, n in x["confirmed"].items():
            confirmed[k] = confirmed.get(k, 0) + n
        for d in x["diffs"]:
            n_diff += 1
            if n_diff <= 6:  # a broken rule breaks many walks: a few minimised histories are enough
                ck.observe("ImplShape", {"what": d["what"], "config": conf, "ops": d["ops"][-8:]},
                           dict(d["detail"], ops=d["ops"], config=conf, kinds=CONFIGS[conf][1]))
        if not x["diffs"]:
            ck.traces += 1
    return {"walks": len(walks), "wanted_edges_covered": covered, "wanted_edges": wanted,
            "sampled": covered < wanted, "steps_replayed": sum(x["steps"] for x in results),
            "exports": sum(x["exports"] for x in results), "loads": sum(x["loads"] for x in results),
            "exports_made_by_a_store_listener": sum(x["listener_exports"] for x in results),
            "walks_off_the_rules": sum(1 for x in results if x["diffs"]),
            "export_steps_refuting_an_expectation_confirmed_on_gemseo": confirmed}


def base_check(ck: Check):
    """With no maintenance operation and one file the expectations hold and HDFStoreMaint refines HDFStoreImpl
    (so the refutations below are due to the added operations, not to a stricter reading of C11)."""
    conf = "base" if ck.thorough else "base-quick"
    r = ck.tlc(MODULE, cfg(conf, invariants=RULES + EXPECTED + ["Expected"],
                           properties=["AppendEqualsFull", "RefinesBase"]),
               workers=8, timeout=900, tag=TAG, coverage=False)
    if r.distinct < 10:
        raise MachineryError(f"vacuity: the base configuration has {r.distinct} states")
    return {"config": conf, "states": r.distinct}


def refute_with_tlc(ck: Check, conf, names):
    """TLC itself refutes each expectation (one run each, stops at the first counterexample)."""
    out = {}
    for inv in names:
        kw = {"properties": [inv]} if inv == "AppendEqualsFull" else {"invariants": [inv]}
        # one worker: a strict breadth-first search, hence a shortest and reproducible counterexample
        r = ck.tlc(MODULE, cfg(conf, **kw), workers=1, timeout=600, tag=TAG, expect_ok=False, count=False,
                   coverage=False)
        if r.violated:
            tr = counterexample(r.out)
            out[inv] = [a for a, _ in tr[1:]]
    return out


def confirm(ck: Check, conf, g, kind, culprit, walk):
    """Replay a refuting history on the real code; when gemseo follows the rules to the end the refutation holds
    for gemseo: an observation named after the expectation."""
    set_graph(g)
    r = Replayer(g, ck.work, f"cex-{conf}-{kind}-{culprit}")
    try:
        steps = r.run(walk)
    finally:
        r.cleanup()
    ops = [label(g.edges[k][2], g.edges[k][3]) for k in walk]
    final = g.states[g.edges[walk[-1]][1]]
    if r.diffs or steps < len(walk):
        d = r.diffs[0] if r.diffs else {"what": "stopped", "detail": {}}
        ck.observe("ImplShape", {"what": d["what"], "config": conf, "ops": ops[-8:], "refuting": kind},
                   dict(d["detail"], ops=ops, config=conf))
        return False
    ck.traces += 1
    result = {"file": r.last.get("file"), "database": r.last.get("memory"), "reloaded": r.last.get("reloaded")}
    if final["out"] != "none":
        result["export_raised"] = r.last.get("export_exception")
    detail = {"config": conf, "kinds": CONFIGS[conf][1], "spec_verdict": sorted(str(k) for k in final["viol"]),
              "spec_out": final["out"], **result}
    ck.observe(kind, {"kind": kind, "after": culprit, "ops": ops, "result": result}, detail)
    return detail


def run(ck: Check):
    rng = random.Random(ck.seed)
    nproc = 16 if ck.thorough else 8
    rp.preload()
    t0 = time.time()
    info = {"base": base_check(ck)}
    if ck.thorough:
        plans = [("S", 60, None), ("F", 60, None), ("T", 60, None), ("U", 60, None), ("S3", 80, 4000),
                 ("F2", 80, 3000), ("N3", 80, 4000), ("X", 80, 3000)]
    else:
        plans = [("S", 60, 1500), ("F", 60, 900), ("T", 60, 800), ("U", 60, 800)]
    best = {}  # (kind, culprit) -> (length, conf, walk)
    graphs = {}
    explored = {}
    if not ck.thorough:  # small models: the cost is the start of the JVM; run them side by side
        from concurrent.futures import ThreadPoolExecutor

        t1 = time.time()
        with ThreadPoolExecutor(len(plans)) as pool:
            explored = dict(zip([p[0] for p in plans], pool.map(lambda p: explore(ck, p[0], workers=4), plans)))
        info["wall_s_tlc_side_by_side"] = round(time.time() - t1, 1)
    for conf, max_len, budget in plans:
        t1 = time.time()
        r, g = explored.pop(conf) if conf in explored else explore(ck, conf)
        ck.states += r.distinct
        ck.transitions += r.generated
        t2 = time.time()
        counts = {}
        for st in g.states.values():
            for k in st["viol"]:
                counts[str(k)] = counts.get(str(k), 0) + 1
        found = refutations(g, conf)
        for key, w in found.items():
            if key not in best or len(w) < best[key][0]:
                best[key] = (len(w), conf, w)
        graphs[conf] = g
        ti = tour(ck, conf, g, max_len=max_len, io_budget=budget, nproc=nproc, rng=rng)
        info[conf] = {"constants": {"NKeys": CONFIGS[conf][0], "names": CONFIGS[conf][1], "files": CONFIGS[conf][2],
                                    "maintenance": CONFIGS[conf][3], "Restore": CONFIGS[conf][4],
                                    "MaxMaint": CONFIGS[conf][5]},
                      "states": r.distinct, "transitions": len(g.edges),
                      "states_refuting_an_expectation": counts,
                      "states_meeting_all_expectations": sum(1 for st in g.states.values() if not st["viol"]),
                      "tour": ti, "wall_s": {"tlc": round(t2 - t1, 1), "tour": round(time.time() - t2, 1)}}
    # one history per kind first (the shortest), then the other culprits: the report prints the first ones
    order = sorted(best, key=lambda kc: (KINDS.index(kc[0]), best[kc][0], kc[1]))
    first = {}
    for kc in order:
        first.setdefault(kc[0], kc)
    order = [kc for kc in order if first[kc[0]] == kc] + [kc for kc in order if first[kc[0]] != kc]
    details = {}
    for kind, culprit in order:
        _, conf, w = best[(kind, culprit)]
        d = confirm(ck, conf, graphs[conf], kind, culprit, w)
        if d:
            g = graphs[conf]
            details[f"{kind}/{culprit}"] = dict(d, ops=[label(g.edges[k][2], g.edges[k][3]) for k in w])
    info["refutations"] = {"found_by_TLC": len(best), "confirmed_on_gemseo": len(details), "confirmed": details}
    if ck.thorough:
        info["tlc_counterexamples"] = {
            conf: refute_with_tlc(ck, conf, EXPECTED + ["AppendEqualsFull"]) for conf in ("S", "F", "T")}
    else:
        info["tlc_counterexamples"] = {"S": refute_with_tlc(ck, "S", ["Expected"])}
    info["wall_s"] = round(time.time() - t0, 1)
    ck.extra["growth_g02_db_maintenance"] = info
    ck.assumptions.append(
        "G02 (growth): values are identified by (key, name) as in C11; the maintenance histories are bounded by "
        "MaxMaint operations over <= 3 points and <= 3 output names; the files are compared after exports only")
