"""G06 (specification growth) - the life cycle of an OptimizationProblem under any sequence of public calls:
specs/ProblemLife.tla.

What the specification states (one action per public call; reset written in the order of the code): functions are
added (objective f, constraint g, observable o - an observable added with new_iter=True sits in two lists, slot o and
its twin n); preprocess_functions wraps what the lists contain, once, with the options of the FIRST call since the last
reset(preprocessing=True); a wrapper counts its calls, serves recorded values, refuses a new point when the budget is
spent, runs the original at the PHYSICAL point and records under it; the first output stored for a point notifies the
new-iteration listeners (the twins are evaluated and recorded, the counter counts - within the budget); an
unpreprocessed problem records and counts nothing; reset(database, current_iter, design_space, function_calls,
preprocessing): each flag does its own job and nothing else, reset() with every flag gives a problem as freshly built;
database.clear(), check(), set_current_value, the listeners and the maximum are the remaining calls.

Binding (spec -> code): TLC dumps the state graph of every behaviour of <= MaxSteps public calls for several action
alphabets (all 32 flag combinations of reset; the whole alphabet; functions added late; the budget); a transition tour
(stratified seeded sample of it in the quick tier) is replayed on a real OptimizationProblem over x in [0, 4] built from
harness MDOFunctions whose callables count their runs and remember the vectors they saw; after every call the projection
through public accessors (what sits in objective / constraints / observables / new_iter_observables: wrapped or not,
wrapping depth, n_calls of the wrapper and of the original, expects_normalized_inputs; functions / original_functions /
function_names; database entries in order; evaluation_counter; current value, also normalized; the listeners; real runs;
what the call returned, which vectors the callables saw, which exception class it raised) is compared with the state
TLC computed.  The replayed model is the one AS CODED (SharedOriginal = TRUE, NewIterCallsCleared = FALSE,
LateAdd = TRUE).

Design-level results TLC must reproduce on every run (otherwise the clauses are vacuous), each refuted clause is
reported once as an OBSERVATION (outside the listed properties):
  ResetKeepsCalls           refuted as coded, holds when each list wraps its own object (SharedOriginal = FALSE)
  ResetClearsCalls          refuted as coded, holds when the twins are walked too (NewIterCallsCleared = TRUE)
  OriginalCallsAreRealRuns  refuted (reset hands the WRAPPER's count, database hits included, to the original)
  with functions added after the preprocessing (LateAdd = TRUE): ResetNeverRaises, FailedResetChangesNothing,
  NeverHalfReset, PreprocessedMeansWrapped, EvaluatedAtPhysicalPoint, OncePerCall, ReturnedIsRecorded are refuted;
  all of them hold when functions are only added before (LateAdd = FALSE).
Python only transports values: every expected value comes from TLC.
"""
from __future__ import annotations

import random

import numpy as np

from ..core import Graph, MachineryError

TAG = "growth-g06"
UB = 4.0                       # x in [0, UB]: the normalized value of the point p is p / UB
X0 = 1
K = {"f": 0, "g": 1, "o": 2}   # value of fn on the vector x: 100 K + 10 x ; Jacobian 10
SLOTS = ("f", "g", "o", "n")
FLAGS = ("db", "it", "ds", "fc", "pp")
ALL_ACTS = ("Add", "Preprocess", "SetCurrent", "Listen", "SetMax", "DbClear", "Check", "EvalAll", "EvalFn", "JacFn",
            "Reset")
INVS = ["TypeOK", "WrappedUnderFlag", "TwinsTogether", "ResetAllIsFresh"]
PROPS = ["UnpreprocessedNoRecord", "SecondPreprocessNoop", "PreprocessTakesOptions", "ServedFromDatabase",
         "CounterCountsNewEntries", "BudgetRespected", "ResetDatabaseFlag", "ResetIterFlag", "ResetDesignSpaceFlag",
         "ResetPreprocessingFlag", "ResetLeavesTheRest"]
# (from the most specific clause to the most general one: see _expect)
LATE_INVS = ["OncePerCall", "EvaluatedAtPhysicalPoint", "ReturnedIsRecorded", "NeverHalfReset", "ResetNeverRaises",
             "PreprocessedMeansWrapped"]
LATE_PROPS = ["FailedResetChangesNothing"]
ALL_FLAGS = [frozenset(f for i, f in enumerate(FLAGS) if k >> i & 1) for k in range(32)]


def _set(vals):
    def one(v):
        if isinstance(v, bool):
            return "TRUE" if v else "FALSE"
        if isinstance(v, (set, frozenset, list, tuple)):
            return _set(sorted(v))
        return f'"{v}"' if isinstance(v, str) else str(v)
    return "{" + ", ".join(one(v) for v in vals) + "}"


def cfg(*, starts, acts=ALL_ACTS, pre_opts=(("norm", "db"),), flags=(FLAGS,), points=(1, 2), forms=("norm",),
        jac=(False,), direct=(), jacs=(), maxs=(0,), late=True, shared=True, twins_cleared=False, max_resets=1,
        max_steps=3, invs=INVS, props=PROPS):
    b = lambda v: "TRUE" if v else "FALSE"  # noqa: E731
    s = (f"CONSTANTS Points = {_set(points)}\n Starts = {_set(starts)}\n PreOpts = {_set(pre_opts)}\n"
         f" ResetFlags = {_set(flags)}\n EvalForms = {_set(forms)}\n EvalJac = {_set(jac)}\n"
         f" DirectSlots = {_set(direct)}\n JacSlots = {_set(jacs)}\n Maxs = {_set(maxs)}\n Acts = {_set(acts)}\n"
         f" LateAdd = {b(late)}\n SharedOriginal = {b(shared)}\n NewIterCallsCleared = {b(twins_cleared)}\n"
         f" MaxResets = {max_resets}\n MaxSteps = {max_steps}\nSPECIFICATION Spec\nCHECK_DEADLOCK FALSE\n")
    for i in invs:
        s += f"INVARIANT {i}\n"
    for p in props:
        s += f"PROPERTY {p}\n"
    return s


# ------------------------------------------------------------------ the real object

class _Body:
    """The callables of one harness function: integer-valued on the points used, counting, remembering."""

    def __init__(self, name):
        self.name, self.k = name, K[name]
        self.runs = self.jruns = 0
        self.seen = []

    def func(self, x):
        self.runs += 1
        self.seen.append((self.name, "f", float(np.asarray(x).ravel()[0])))
        return np.array([100.0 * self.k + 10.0 * float(np.asarray(x).ravel()[0])])

    def jac(self, x):
        self.jruns += 1
        self.seen.append((self.name, "j", float(np.asarray(x).ravel()[0])))
        return np.array([[10.0]])


def _x(p, space):
    """The vector that stands for the physical point p in a space (transport of a TLC value)."""
    return float(p) / UB if str(space) == "norm" else float(p)


class World:
    def __init__(self, st):
        from gemseo.algos.design_space import DesignSpace
        from gemseo.algos.optimization_problem import OptimizationProblem
        from gemseo.core.mdo_functions.mdo_function import MDOFunction

        present = st["present"]
        self.bodies = {n: _Body(n) for n in K}
        types = {"f": MDOFunction.FunctionType.OBJ, "g": MDOFunction.ConstraintType.INEQ,
                 "o": MDOFunction.FunctionType.OBS}
        self.orig = {n: MDOFunction(b.func, n, jac=b.jac, f_type=types[n]) for n, b in self.bodies.items()}
        ds = DesignSpace()
        if st["x0"]:
            ds.add_variable("x", lower_bound=0.0, upper_bound=UB, value=float(st["x0"]))
        else:
            ds.add_variable("x", lower_bound=0.0, upper_bound=UB)
        self.p = OptimizationProblem(ds)
        self.p.objective = self.orig["f"]
        if present["g"]:
            self.p.add_constraint(self.orig["g"])
        if present["o"]:
            self.p.add_observable(self.orig["o"], new_iter=bool(present["n"]))
        self.last = {"act": "none"}
        if st["cntL"]:
            self._attach()

    def _count(self, _x_vect):
        self.p.evaluation_counter.current += 1

    def _attach(self):
        # what BaseDriverLibrary.execute registers, through the public add_listener
        if self.p.new_iter_observables:
            self.p.add_listener(self.p.new_iter_observables.evaluate)
        self.p.add_listener(self._count)

    def slots(self):
        p = self.p
        return {"f": p.objective, "g": p.constraints[0] if len(p.constraints) else None,
                "o": p.observables[0] if len(p.observables) else None,
                "n": p.new_iter_observables[0] if len(p.new_iter_observables) else None}

    def do(self, act, args, spec_last):
        from gemseo.algos.stop_criteria import MaxIterReachedException

        p = self.p
        self.last = last = {"act": act, "outcome": "ok", "ret": {}}
        for b in self.bodies.values():
            b.seen = []
        runs0 = {n: b.runs for n, b in self.bodies.items()}
        try:
            if act == "AddConstraint":
                p.add_constraint(self.orig["g"])
            elif act == "AddObservable":
                n = len(p.observables)
                p.add_observable(self.orig["o"], new_iter=bool(args[0]))
                if len(p.observables) == n:
                    last["outcome"] = "ignored"
            elif act == "Preprocess":
                p.preprocess_functions(is_function_input_normalized="norm" in args[0], use_database="db" in args[0])
                last["outcome"] = None          # returns nothing: the state tells
            elif act == "SetCurrent":
                p.design_space.set_current_value(np.array([float(args[0])]))
            elif act == "Attach":
                self._attach()
            elif act == "Detach":
                p.database.clear_listeners()
            elif act == "SetMax":
                p.evaluation_counter.maximum = int(args[0])
            elif act == "DbClear":
                p.database.clear()
            elif act == "Check":
                p.check()
            elif act == "EvalAll":
                pt, form, jac = args
                kw = {"jacobian_functions": ()} if jac else {}
                if str(form) == "cur":
                    out = p.evaluate_functions(**kw)
                elif str(form) == "norm":
                    out = p.evaluate_functions(np.array([_x(pt, "norm")]), **kw)
                else:
                    out = p.evaluate_functions(np.array([_x(pt, "phys")]), design_vector_is_normalized=False, **kw)
                last["ret"] = {k: float(np.asarray(v).ravel()[0]) for k, v in out[0].items()}
            elif act == "EvalFn":
                f = self.slots()[str(args[0])]
                v = f.evaluate(np.array([_x(args[1], spec_last["arg"])]))
                last["ret"] = {f.name: float(np.asarray(v).ravel()[0])}
            elif act == "JacFn":
                f = self.slots()[str(args[0])]
                f.jac(np.array([_x(args[1], spec_last["arg"])]))
            elif act == "Reset":
                fl = args[0] if isinstance(args[0], (set, frozenset)) else frozenset()
                p.reset(database="db" in fl, current_iter="it" in fl, design_space="ds" in fl,
                        function_calls="fc" in fl, preprocessing="pp" in fl)
            else:  # pragma: no cover
                raise MachineryError(f"unexpected action {act}")
        except MachineryError:
            raise
        except MaxIterReachedException:
            last["outcome"] = "max_iter"
        except AttributeError as e:
            last["outcome"] = "attribute_error" if "n_calls" in str(e) else f"raised:AttributeError:{e}"
        except KeyError:
            last["outcome"] = "key_error"
        except Exception as e:  # noqa: BLE001
            last["outcome"] = f"raised:{type(e).__name__}"
        if last["outcome"] != "ok" and last["outcome"] is not None:
            last["ret"] = {}
        last["seen"] = {t for b in self.bodies.values() for t in b.seen}
        last["ran"] = {n: b.runs - runs0[n] for n, b in self.bodies.items()}

    def projection(self):
        from gemseo.algos.problem_function import ProblemFunction

        p = self.p
        sl = self.slots()
        out = {"present": {s: f is not None for s, f in sl.items()}, "wrapped": {}, "depth": {}, "wcalls": {},
               "ocalls": {}, "norm": {}, "innermost": {}}
        for s, f in sl.items():
            if f is None:
                continue
            depth, g = 0, f
            while g.original is not g and depth < 5:
                depth, g = depth + 1, g.original
            out["wrapped"][s] = isinstance(f, ProblemFunction)
            out["depth"][s] = depth
            out["wcalls"][s] = f.n_calls if isinstance(f, ProblemFunction) else 0
            out["ocalls"][s] = getattr(f.original, "n_calls", -1)
            out["norm"][s] = bool(f.expects_normalized_inputs)
            out["innermost"][s] = g is self.orig["o" if s == "n" else s]
        names = [s for s in ("f", "g", "o") if sl[s] is not None]
        out["views"] = {
            "functions": [f.name for f in p.functions] == names and all(
                a is sl[s] for a, s in zip(p.functions, names)),
            "original_functions": len(p.original_functions) == len(names) and all(
                a is sl[s].original for a, s in zip(p.original_functions, names)),
            "function_names": list(p.function_names) == names}
        out["db"] = {float(k.wrapped_array[0]): frozenset(v) for k, v in p.database.items()}
        out["ord"] = [float(x[0]) for x in p.database.get_x_vect_history()]
        out["cnt"], out["max"] = p.evaluation_counter.current, p.evaluation_counter.maximum
        ds = p.design_space
        out["cur"] = float(ds.get_current_value()[0]) if ds.has_current_value else 0.0
        out["cur_norm"] = float(ds.get_current_value(normalize=True)[0]) if ds.has_current_value else 0.0
        out["runs"] = {n: b.runs for n, b in self.bodies.items()}
        out["jruns"] = {n: b.jruns for n, b in self.bodies.items()}
        # a listener is registered once: adding it again is refused exactly when it is there
        db = p.database
        for key, fn in (("cntL", self._count), ("obsL", p.new_iter_observables.evaluate)):
            there = not db.add_new_iter_listener(fn)
            if not there:
                db.clear_listeners(new_iter_listeners=(fn,), store_listeners=None)
            out[key] = there
        out["last"] = self.last
        return out


def _fn(v):
    return dict(v) if isinstance(v, dict) else {}


def _db(v):
    """db : Points -> SUBSET Names as parsed by tlaval (a function over 1..n comes back as a tuple)."""
    items = v.items() if isinstance(v, dict) else enumerate(v, start=1)
    return {float(k): frozenset(map(str, names)) for k, names in items if names}


def diff(spec, proj):
    """The fields of the projection that differ from the state TLC computed (transport and comparison only)."""
    d = []
    pres = {s: bool(spec["present"][s]) for s in SLOTS}
    if pres != proj["present"]:
        return [("present", pres, proj["present"])]
    on = [s for s in SLOTS if pres[s]]
    for name, want in (("wrapped", {s: bool(spec["wrapped"][s]) for s in on}),
                       ("depth", {s: int(bool(spec["wrapped"][s])) for s in on}),
                       ("wcalls", {s: spec["wcalls"][s] for s in on}),
                       ("ocalls", {s: spec["ocalls"][s] for s in on}),
                       ("norm", {s: bool(spec["inorm"][s]) for s in on}),
                       ("innermost", {s: True for s in on})):
        if want != proj[name]:
            d.append((name, want, proj[name]))
    for k, ok in proj["views"].items():
        if not ok:
            d.append(("view:" + k, "objective, constraints, observables", "differs"))
    if _db(spec["db"]) != proj["db"]:
        d.append(("database", _db(spec["db"]), proj["db"]))
    if [float(p) for p in spec["ord"]] != proj["ord"]:
        d.append(("database_order", list(spec["ord"]), proj["ord"]))
    for k in ("cnt", "max", "runs", "jruns"):
        want = {str(a): b for a, b in spec[k].items()} if isinstance(spec[k], dict) else spec[k]
        if want != proj[k]:
            d.append((k, want, proj[k]))
    for k in ("obsL", "cntL"):
        if bool(spec[k]) != proj[k]:
            d.append(("listener:" + k, bool(spec[k]), proj[k]))
    if float(spec["cur"]) != proj["cur"] or _x(spec["cur"], "norm") != proj["cur_norm"]:
        d.append(("current_value", spec["cur"], (proj["cur"], proj["cur_norm"])))
    sl, pl = spec["last"], proj["last"]
    if pl.get("outcome") is not None and str(sl["outcome"]) != pl["outcome"]:
        d.append(("outcome", str(sl["outcome"]), pl["outcome"]))
    seen = {(str(t[0]), str(t[1]), _x(t[2], t[3])) for t in sl["seen"]}
    if seen != pl["seen"]:
        d.append(("vectors_seen_by_the_callables", sorted(seen), sorted(pl["seen"])))
    ran = {str(a): b for a, b in sl["ran"].items()}
    if ran != pl["ran"]:
        d.append(("runs_in_this_call", ran, pl["ran"]))
    ret = {str(n): 100.0 * K[str(n)] + 10.0 * _x(v[0], v[1]) for n, v in _fn(sl["ret"]).items()}
    if ret != pl["ret"]:
        d.append(("returned", ret, pl["ret"]))
    return d


class _Obs:
    CAP = 3

    def __init__(self, ck):
        self.ck, self.n = ck, {}

    def __call__(self, clause, signature, detail):
        self.n[clause] = self.n.get(clause, 0) + 1
        if self.n[clause] <= self.CAP:
            self.ck.observe(clause, signature, detail)

    def finish(self):
        for clause, n in sorted(self.n.items()):
            if n > self.CAP:
                self.ck.observe(clause, {"more": True, "total": n}, {"written_out": self.CAP})


def _arg_class(act, args):
    if act == "Reset":
        return tuple(sorted(args[0])) if isinstance(args[0], (set, frozenset)) else ()
    if act in ("EvalFn", "JacFn"):
        return str(args[0])
    if act == "EvalAll":
        return (str(args[1]), bool(args[2]))
    if act == "Preprocess":
        return tuple(sorted(args[0])) if isinstance(args[0], (set, frozenset)) else ()
    return tuple(map(str, args))


def _stratified(g, paths, cap, rng):
    """A sample of the tour that keeps every class of final transition (action and its flags, outcome, preprocessed or
    not and with which options before it, functions added late, listeners, budget, length) before filling up at random."""
    classes = {}
    for p in paths:
        src, dst, act, args = g.edges[p[-1]]
        a, b = g.states[src], g.states[dst]
        late = any(a["present"][s] and bool(a["pre"]) and not a["wrapped"][s] for s in SLOTS)
        key = (act, _arg_class(act, args), str(b["last"]["outcome"]), bool(a["pre"]), bool(a["opts"]["norm"]),
               bool(a["opts"]["db"]), late, bool(a["cntL"]), a["max"] > 0, bool(b["last"]["seen"]),
               tuple(sorted(s for s in SLOTS if a["present"][s])), len(p))
        classes.setdefault(key, []).append(p)
    chosen, rest = [], []
    per = max(1, cap // (2 * max(1, len(classes))))
    for key in sorted(classes, key=str):
        ps = classes[key]
        rng.shuffle(ps)
        chosen += ps[:per]
        rest += ps[per:]
    if len(chosen) < cap:
        chosen += rng.sample(rest, min(len(rest), cap - len(chosen)))
    return chosen, len(classes)


def _show(a):
    if isinstance(a, (set, frozenset)):
        return sorted(map(str, a))
    return a if isinstance(a, (bool, int)) else str(a)


def replay(ck, obs, label, conf, cap, rng, need_actions, need_outcomes=()):
    r = ck.tlc("ProblemLife", cfg(**conf), dump=True, tag=TAG, workers=4, require_actions=need_actions)
    g = Graph(ck.work / TAG / "ProblemLife.dot")
    max_steps = conf["max_steps"]
    paths = g.tour(max_len=max_steps)
    n_all, n_classes = len(paths), None
    if cap and n_all > cap:
        paths, n_classes = _stratified(g, paths, cap, rng)
    calls, disagreements = 0, 0
    outcomes = {}
    # vacuity is judged on what the sample CONTAINS (a disagreement stops the replay of its path)
    planned = {f"{g.edges[k][2]}:{g.states[g.edges[k][1]]['last']['outcome']}" for path in paths for k in path}
    resets = {_arg_class("Reset", g.edges[k][3]) for path in paths for k in path if g.edges[k][2] == "Reset"}
    for need in need_outcomes:
        if need not in planned:
            raise MachineryError(f"G06 {label}: no call with outcome {need} in the replayed sample (vacuous replay)")
    for path in paths:
        st0 = g.states[g.edges[path[0]][0]]
        w = World(st0)
        df = diff(st0, dict(w.projection(), last={"seen": set(), "ran": {n: 0 for n in K}, "ret": {}}))
        steps = []
        for k in path:
            if df:
                break
            _, dst, act, args = g.edges[k]
            st = g.states[dst]
            w.do(act, args, st["last"])
            steps.append([act] + [_show(a) for a in args])
            calls += 1
            key = f"{act}:{st['last']['outcome']}"
            outcomes[key] = outcomes.get(key, 0) + 1
            df = diff(st, w.projection())
        if df:
            disagreements += 1
            obs("G06.problem-life.replay",
                {"start": sorted(s for s in SLOTS if st0["present"][s]) + (["att"] if st0["cntL"] else [])
                 + ([] if st0["x0"] else ["nox0"]),
                 "steps": steps, "field": df[0][0]},
                {"differences": [list(map(str, x)) for x in df[:6]]})
        ck.traces += 1
    ck.extra.setdefault("g06_problem_life", []).append(
        {"run": label, "states": r.distinct, "edges": len(g.edges), "tour_paths": n_all,
         "final_transition_classes": n_classes, "paths_replayed": len(paths), "calls_replayed": calls,
         "reset_flag_combinations_in_the_sample": len(resets), "outcomes": outcomes, "disagreements": disagreements,
         "max_steps": max_steps})
    ck.sample({"g06": label, "start_configurations": len(g.init), "tour_paths": n_all, "paths_replayed": len(paths)})
    return resets


def _expect(ck, what, conf, inv=(), prop=(), refuted=()):
    """One TLC run: the clauses hold, or - with -continue - every clause of `refuted` is violated somewhere (TLC
    reports the first violated invariant of a state: the clauses are listed from the most specific one)."""
    import re

    r = ck.tlc("ProblemLife", cfg(**dict(conf, invs=["TypeOK", *inv], props=list(prop))), tag=TAG, workers=2,
               count=False, expect_ok=not refuted, extra=("-continue",) if refuted else ())
    hits = {}
    for m in re.finditer(r"(?:Invariant|Action property) (\w+) is violated", r.out):
        hits[m.group(1)] = hits.get(m.group(1), 0) + 1
    for clause in refuted:
        if not hits.get(clause):
            raise MachineryError(f"ProblemLife.tla: {clause} is not refuted for {what} (got {sorted(hits)}): vacuous clause")
    if set(hits) - set(refuted):
        raise MachineryError(f"ProblemLife.tla violates {sorted(set(hits) - set(refuted))} for {what}")
    return hits


WHAT = {
    "ResetKeepsCalls":
        ("reset-does-not-keep-observable-calls",
         "reset(function_calls=False, preprocessing=True) does not keep the n_calls of an observable that is also a "
         "new-iteration observable: both wrappers share one original function, the two counts are written on it one "
         "after the other and the count of the new-iteration wrapper wins"),
    "ResetClearsCalls":
        ("reset-does-not-clear-new-iter-calls",
         "reset(function_calls=True, preprocessing=False) leaves the n_calls of the wrappers in new_iter_observables "
         "as they are: it walks problem.functions, which does not contain them"),
    "OriginalCallsAreRealRuns":
        ("original-calls-are-wrapper-calls",
         "the n_calls that reset(preprocessing=True, function_calls=False) plants on an original function is the "
         "count of the wrapper (calls served from the database included), not the number of times the function ran; "
         "the next preprocess_functions starts a new wrapper at 0, so the kept count is lost anyway"),
    "ResetNeverRaises":
        ("reset-raises-after-late-add",
         "after add_constraint / add_observable on a preprocessed problem, reset(preprocessing=True) raises "
         "AttributeError ('MDOFunction' object has no attribute 'n_calls')"),
    "FailedResetChangesNothing":
        ("failed-reset-is-half-done",
         "with an observable added late, reset(function_calls=False) raises AFTER the database, the counter, the "
         "current value, the objective and the constraints were reset"),
    "NeverHalfReset":
        ("half-reset-problem",
         "after that failed reset the problem is flagged as preprocessed with an objective that is not wrapped: "
         "preprocess_functions() returns at once for ever, nothing is recorded any more"),
    "PreprocessedMeansWrapped":
        ("late-function-never-wrapped",
         "a function added after preprocess_functions is never wrapped (a second preprocess_functions returns at "
         "once): it is not recorded in the database and not counted"),
    "EvaluatedAtPhysicalPoint":
        ("late-function-evaluated-at-normalized-vector",
         "evaluate_functions converts the design vector once, for the (wrapped, normalized) objective, and hands the "
         "NORMALIZED vector to a function added late: its value is the value at another point, silently"),
    "OncePerCall":
        ("late-new-iter-observable-runs-twice",
         "an observable added late with new_iter=True runs twice in one evaluate_functions when the driver's "
         "listener is attached: at the physical point (listener) and at the normalized vector (evaluate_functions)"),
    "ReturnedIsRecorded":
        ("late-function-not-recorded",
         "evaluate_functions of a preprocessed problem returns the value of a function added late without "
         "recording it in the database"),
}


def design_level(ck):
    res = {}

    def refuted(what, conf, invs=(), props=()):
        hits = _expect(ck, what, conf, inv=invs, prop=props, refuted=[*invs, *props])
        for clause in (*invs, *props):
            slug, text = WHAT[clause]
            ck.observe(f"G06.problem-life.{slug}", {"clause": clause, "rule": what},
                       {"what": text, "violating_states_or_steps_found_by_tlc": hits[clause]})
            res[clause] = f"refuted ({what})"

    counts = dict(starts=[("o", "n"), ("g", "o", "n", "att")], acts=("Preprocess", "EvalAll", "Reset"), points=(1,),
                  max_steps=4, flags=[("pp",), ("fc",), FLAGS])
    # the rules as coded refute the documented reading of function_calls ...
    refuted("as coded", counts, ["OriginalCallsAreRealRuns"], ["ResetKeepsCalls", "ResetClearsCalls"])
    # ... which holds when each list wraps its own object and the twins are walked too
    _expect(ck, "own objects, twins walked", dict(counts, shared=False, twins_cleared=True, flags=ALL_FLAGS, max_steps=3),
            INVS, [*PROPS, "ResetKeepsCalls", "ResetClearsCalls"])
    res["ResetKeepsCalls"] += "; holds with SharedOriginal = FALSE"
    res["ResetClearsCalls"] += "; holds with NewIterCallsCleared = TRUE"
    # functions added after the preprocessing
    late = dict(starts=[(), ("att",)], acts=("Add", "Preprocess", "EvalAll", "Reset", "Listen"), points=(1,),
                pre_opts=[("norm", "db"), ("db",)], max_steps=4, flags=[("pp",), FLAGS])
    refuted("LateAdd", late, LATE_INVS, LATE_PROPS)
    _expect(ck, "functions added before the preprocessing only", dict(late, late=False), [*INVS, *LATE_INVS],
            [*PROPS, *LATE_PROPS])
    for clause in (*LATE_INVS, *LATE_PROPS):
        res[clause] += "; holds with LateAdd = FALSE"
    ck.extra["g06_design_level"] = res


def run(ck):
    rng = random.Random(ck.seed)
    obs = _Obs(ck)
    th = ck.thorough
    ck.assumptions.append(
        "G06: ProblemLife.tla models an OptimizationProblem over one float variable with an objective, at most one "
        "constraint and one observable (non-linear MDOFunctions, user gradients), ProblemFunction.enable_statistics "
        "on, no NaN, no empty database entry; the listeners are the two a driver registers; after a reset that "
        "failed half-way only preprocess_functions is modelled")
    design_level(ck)

    full = ("g", "o", "n", "att")
    # (1) reset: all 32 flag combinations, after every kind of history
    seen = replay(ck, obs, "reset, 32 flag combinations",
                  dict(starts=[full, ("g", "o")], acts=("Preprocess", "EvalAll", "SetCurrent", "Reset", "Listen"),
                       flags=ALL_FLAGS, max_resets=2 if th else 1, max_steps=4),
                  0 if th else 1500, rng, ("Preprocess", "EvalAll", "SetCurrent", "Reset"))
    if len(seen) != 32:
        raise MachineryError(f"G06: only {len(seen)} of the 32 flag combinations of reset were replayed")
    # (2) the whole alphabet
    some = [("pp",), ("fc",), ("db", "it"), ("ds",), FLAGS]
    replay(ck, obs, "whole alphabet",
           dict(starts=[(), full, ("g", "o", "n", "nox0")] if th else [(), full], pre_opts=[("norm", "db"), ("db",), ("norm",), ()],
                flags=some, forms=("norm", "phys", "cur"), jac=(False, True), direct=SLOTS, jacs=("f", "o"),
                maxs=(0, 1), max_resets=2, max_steps=4 if th else 3),
           60000 if th else 1500, rng,
           ("AddConstraint", "AddObservable", "Preprocess", "SetCurrent", "Attach", "Detach", "SetMax", "DbClear",
            "Check", "EvalAll", "EvalFn", "JacFn", "Reset"))
    # (3) functions added after the preprocessing
    replay(ck, obs, "functions added late",
           dict(starts=[(), ("att",), ("g",)], acts=("Add", "Preprocess", "EvalAll", "Reset", "Listen"),
                flags=[("pp",), ("fc",), ("pp", "fc"), FLAGS], points=(1,), max_resets=2, max_steps=5 if th else 4),
           0 if th else 1200, rng, ("AddConstraint", "AddObservable", "Preprocess", "EvalAll", "Reset"),
           ("Reset:attribute_error",))
    # (4) the budget and the counter
    replay(ck, obs, "budget",
           dict(starts=[full, ("g", "o", "n")], acts=("Preprocess", "EvalAll", "EvalFn", "JacFn", "SetMax", "Listen",
                                                       "DbClear", "Reset"),
                flags=[("it",), ("db",), ("db", "it")], direct=("f", "g"), jacs=("f",), maxs=(0, 1, 2),
                max_steps=5 if th else 4),
           40000 if th else 1200, rng, ("EvalAll", "EvalFn", "JacFn", "SetMax", "DbClear", "Reset"),
           ("EvalAll:max_iter",))
    obs.finish()
