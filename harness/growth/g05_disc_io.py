"""G05 (specification growth) - the data protocol of Discipline.execute: specs/DiscIO.tla.

What the specification states (one action per public call; Execute written as the code's steps): the inputs the
body receives are the caller's data completed with the defaults, restricted to the input names, None = absent;
a call with a missing input is rejected and changes nothing; the body sees bare names when inputs are namespaced and
local names behind a NameMapping data processor; the outputs may be handed over in any of the documented styles
(returned with or without namespace prefixes, or written into the data); virtual execution returns the default
outputs without running; counters count runs; the defaults are changed only by their setters.

Binding (spec -> code): TLC dumps the state graph of every behaviour of <= MaxSteps public calls for every
configuration (namespaced inputs x namespaced outputs x data processor x body style); a transition tour (seeded
sample in the quick tier) is replayed on a real harness Discipline (no cache) and after every call the projection
(defaults, default outputs, virtual flag, io.data, body runs, n_executions, what the body saw, what the call
returned or which exception class it raised) is compared with the state TLC computed.  The replayed model is the
one AS CODED (AliasDefaults = TRUE: arrays are objects, the default arrays themselves travel to the caller).

Design-level results TLC must reproduce on every run (otherwise the clauses are vacuous): DefaultsStable is
refuted under AliasDefaults = TRUE and holds under FALSE; DocumentedStylesWork holds without data processor and is
refuted behind a NameMapping; LocalStylesWork is refuted (returned local names are ignored).  Each refuted clause is
reported once as an OBSERVATION (they are outside the listed properties).
Python only transports values: every expected value comes from TLC.
"""
from __future__ import annotations

import random

import numpy as np

from ..core import Graph, MachineryError

TAG = "growth-g05"
INVS = ["TypeOK", "BodySeesPrepared", "PreparedMeaning", "OkReturn", "RunsWhenValid", "Counts"]
PROPS = ["RejectKeepsState"]
NONE, SCRIBBLE = -1, 99.0
LOCAL = {"a": "la", "b": "lb", "y": "ly", "z": "lz"}


def _set(vals):
    def one(v):
        if isinstance(v, bool):
            return "TRUE" if v else "FALSE"
        if isinstance(v, (set, frozenset, list, tuple)):
            return _set(sorted(v))
        return f'"{v}"' if isinstance(v, str) else str(v)
    return "{" + ", ".join(one(v) for v in vals) + "}"


def cfg(ns_ins, ns_outs, procs, styles, alias, max_steps, *, vals=(1,), invs=INVS, props=PROPS):
    s = (f"CONSTANTS Vals = {_set(vals)}\n DefVals = {{3}}\n NsIns = {_set(ns_ins)}\n NsOuts = {_set(ns_outs)}\n"
         f" Procs = {_set(procs)}\n Styles = {_set(styles)}\n AliasDefaults = {'TRUE' if alias else 'FALSE'}\n"
         f" MaxSteps = {max_steps}\nSPECIFICATION Spec\nCHECK_DEADLOCK FALSE\n")
    for i in invs:
        s += f"INVARIANT {i}\n"
    for p in props:
        s += f"PROPERTY {p}\n"
    return s


# ------------------------------------------------------------------ the real object

_CLS = {}


def _disc_class():
    if "d" not in _CLS:
        from gemseo.core.discipline import Discipline

        class Body(Discipline):
            """y = 1 + sum of what the body sees, z = 7, handed over as `style` says."""

            def __init__(self, ns_in, ns_out, proc, style):
                super().__init__("g05")
                self.io.input_grammar.update_from_names(["a", "b"])
                self.io.output_grammar.update_from_names(["y", "z"])
                for n in sorted(ns_in):
                    self.add_namespace_to_input(n, "ns")
                for n in sorted(ns_out):
                    self.add_namespace_to_output(n, "ns")
                if proc == "map":
                    from gemseo.core.discipline.data_processor import NameMapping
                    self.io.data_processor = NameMapping(dict(LOCAL))
                self.set_cache(self.CacheType.NONE)
                self.style, self.ns_out = style, set(ns_out)
                self.n_runs, self.seen = 0, None

            def _run(self, input_data):
                self.n_runs += 1
                self.seen = {k: float(np.asarray(v).ravel()[0]) for k, v in input_data.items()}
                vals = {"y": np.array([1.0 + sum(self.seen.values())]), "z": np.array([7.0])}
                full = {(f"ns:{k}" if k in self.ns_out else k): v for k, v in vals.items()}
                local = {LOCAL[k]: v for k, v in vals.items()}
                st = self.style
                if st == "ret":
                    return full
                if st == "retplain":
                    return vals
                if st == "retlocal":
                    return local
                self.io.data.update({"write": full, "writeplain": vals, "writelocal": local}[st])
                return None

        _CLS["d"] = Body
    return _CLS["d"]


def _num(v):
    return float(np.asarray(v).ravel()[0])


class World:
    def __init__(self, c):
        self.d = _disc_class()(c["nsIn"], c["nsOut"], str(c["proc"]), str(c["style"]))
        self.returned = None
        self.last = {"act": "none"}

    def do(self, act, args):
        d = self.d
        self.last = {"act": act}
        if act == "SetDefault":
            d.io.input_grammar.defaults[str(args[0])] = np.array([float(args[1])])
        elif act == "DelDefault":
            del d.io.input_grammar.defaults[str(args[0])]
        elif act == "SetOutDefaults":
            names = list(d.io.output_grammar) if args[0] else [n for n in d.io.output_grammar if n.endswith("y")]
            d.io.output_grammar.defaults = {n: np.array([5.0]) for n in names}
        elif act == "SetVirtual":
            d.virtual_execution = bool(args[0])
        elif act == "ScribbleReturned":
            for v in self.returned.values():
                v[...] = SCRIBBLE
        elif act == "Execute":
            given = args[0] if isinstance(args[0], dict) else {}
            data = {str(k): (None if v == NONE else np.array([float(v)])) for k, v in given.items()}
            snapshot = {k: (None if v is None else v.copy()) for k, v in data.items()}
            runs = d.n_runs
            d.seen = None
            from gemseo.core.grammars.errors import InvalidDataError
            try:
                out = d.execute(data)
            except InvalidDataError as e:
                which = "invalid_input" if "_input" in str(e) else "invalid_output" if "_output" in str(e) else "invalid_?"
                self.last.update(outcome=which, ret={})
            except KeyError:
                self.last.update(outcome="key_error", ret={})
            else:
                self.returned = out
                self.last.update(outcome="ok", ret={k: _num(v) for k, v in out.items()})
            self.last["ran"] = d.n_runs > runs
            self.last["seen"] = dict(d.seen) if d.n_runs > runs else {}
            # the caller's dictionary is the caller's: same keys, same values afterwards
            self.last["caller_intact"] = (set(data) == set(snapshot) and all(
                (data[k] is None and snapshot[k] is None) or
                (data[k] is not None and snapshot[k] is not None and np.array_equal(data[k], snapshot[k]))
                for k in snapshot))
        else:  # pragma: no cover
            raise MachineryError(f"unexpected action {act}")

    def projection(self):
        d = self.d
        return {"defaults": {k: _num(v) for k, v in d.io.input_grammar.defaults.items()},
                "outDefaults": {k: _num(v) for k, v in d.io.output_grammar.defaults.items()},
                "virtual": bool(d.virtual_execution),
                "data": {k: _num(v) for k, v in d.io.data.items()},
                "nRuns": d.n_runs, "nExec": d.execution_statistics.n_executions, "last": self.last}


def _fn(v):
    """A TLA+ function parsed by tlaval (dict, or () when its domain is empty) as {str: float}."""
    return {str(k): float(x) for k, x in v.items()} if isinstance(v, dict) else {}


def diff(spec, proj):
    d = []
    for f in ("defaults", "outDefaults", "data"):
        if _fn(spec[f]) != proj[f]:
            d.append((f, _fn(spec[f]), proj[f]))
    if bool(spec["virtual"]) != proj["virtual"]:
        d.append(("virtual_execution", spec["virtual"], proj["virtual"]))
    if spec["nRuns"] != proj["nRuns"]:
        d.append(("body_runs", spec["nRuns"], proj["nRuns"]))
    if spec["nExec"] != proj["nExec"]:
        d.append(("n_executions", spec["nExec"], proj["nExec"]))
    sl, pl = spec["last"], proj["last"]
    if str(sl["act"]) == "Execute":
        if str(sl["outcome"]) != pl["outcome"]:
            d.append(("outcome", str(sl["outcome"]), pl["outcome"]))
        if bool(sl["ran"]) != pl["ran"]:
            d.append(("body_ran", sl["ran"], pl["ran"]))
        if _fn(sl["seen"]) != pl["seen"]:
            d.append(("seen_by_body", _fn(sl["seen"]), pl["seen"]))
        if _fn(sl["ret"]) != pl["ret"]:
            d.append(("returned", _fn(sl["ret"]), pl["ret"]))
        if not pl["caller_intact"]:
            d.append(("caller_dictionary", "unchanged", "modified by execute"))
    return d


class _Obs:
    CAP = 3

    def __init__(self, ck):
        self.ck, self.n = ck, {}

    def __call__(self, clause, signature, detail):
        self.n[clause] = self.n.get(clause, 0) + 1
        if self.n[clause] <= self.CAP:
            self.ck.observe(clause, signature, detail)

    def finish(self):
        for clause, n in sorted(self.n.items()):
            if n > self.CAP:
                self.ck.observe(clause, {"more": True, "total": n}, {"written_out": self.CAP})


def _stratified(g, paths, cap, rng):
    """A sample of the tour that keeps every class of final transition (configuration, action, outcome, empty
    call, inputs taken from the defaults, virtual) before filling up at random."""
    classes = {}
    for p in paths:
        src, dst, act, args = g.edges[p[-1]]
        st = g.states[dst]
        c, last = st["cfg"], st["last"]
        key = (str(c["proc"]), str(c["style"]), bool(c["nsIn"]), bool(c["nsOut"]), act, str(last["outcome"]),
               act == "Execute" and not isinstance(args[0], dict), bool(last["fromDefault"]),
               bool(g.states[src]["virtual"]), len(p))
        classes.setdefault(key, []).append(p)
    chosen, rest = [], []
    per = max(1, cap // (2 * max(1, len(classes))))
    for key in sorted(classes, key=str):
        ps = classes[key]
        rng.shuffle(ps)
        chosen += ps[:per]
        rest += ps[per:]
    if len(chosen) < cap:
        chosen += rng.sample(rest, min(len(rest), cap - len(chosen)))
    return chosen


def replay(ck, obs, label, conf, max_steps, cap, rng, vals=(1,)):
    r = ck.tlc("DiscIO", cfg(*conf, True, max_steps, vals=vals), dump=True, tag=TAG, workers=4,
               require_actions=("Execute", "SetDefault", "DelDefault", "SetOutDefaults", "SetVirtual",
                                "ScribbleReturned"))
    g = Graph(ck.work / TAG / "DiscIO.dot")
    paths = g.tour(max_len=max_steps)
    n_all = len(paths)
    if cap and n_all > cap:
        paths = _stratified(g, paths, cap, rng)
    calls = 0
    outcomes = {}
    for path in paths:
        c = g.states[g.edges[path[0]][0]]["cfg"]
        w = World(c)
        steps = []
        for k in path:
            _, dst, act, args = g.edges[k]
            w.do(act, args)
            steps.append([act] + [(_fn(a) if isinstance(a, (dict, tuple)) else a) for a in args])
            calls += 1
            st = g.states[dst]
            if act == "Execute":
                o = str(st["last"]["outcome"])
                outcomes[o] = outcomes.get(o, 0) + 1
            df = diff(st, w.projection())
            if df:
                obs("G05.discipline-io.protocol",
                    {"nsIn": sorted(c["nsIn"]), "nsOut": sorted(c["nsOut"]), "proc": str(c["proc"]),
                     "style": str(c["style"]), "steps": steps, "field": df[0][0]},
                    {"differences": [list(map(str, x)) for x in df[:6]]})
                break
        ck.traces += 1
    ck.extra.setdefault("g05_disc_io", []).append(
        {"run": label, "states": r.distinct, "edges": len(g.edges), "tour_paths": n_all,
         "paths_replayed": len(paths), "calls_replayed": calls, "execute_outcomes": outcomes, "max_steps": max_steps})
    ck.sample({"g05": label, "configurations": len(g.init), "tour_paths": n_all, "paths_replayed": len(paths)})
    for need in ("ok", "invalid_input"):
        if not outcomes.get(need):
            raise MachineryError(f"G05 {label}: no replayed Execute with outcome {need} (vacuous replay)")


def _expect(ck, what, conf, alias, steps, inv=(), prop=(), refuted=None):
    r = ck.tlc("DiscIO", cfg(*conf, alias, steps, invs=["TypeOK", *inv], props=list(prop)), tag=TAG, workers=2,
               count=False, expect_ok=refuted is None)
    if refuted is not None and r.violated != refuted:
        raise MachineryError(f"DiscIO.tla: {refuted} is not refuted for {what} (got {r.violated}): vacuous clause")
    return r


def run(ck):
    rng = random.Random(ck.seed)
    obs = _Obs(ck)
    thorough = ck.thorough
    ck.assumptions.append(
        "G05: DiscIO.tla models a discipline without cache whose grammars require every input and output; "
        "NameMapping is the only data processor modelled; namespaces and NameMapping are not combined")
    ns = ([frozenset(), frozenset({"a"})], [frozenset(), frozenset({"y"})])
    plain = (*ns, ["none"], ["ret", "retplain", "write", "writeplain"])
    mapped = ([frozenset()], [frozenset()], ["map"], ["ret", "write", "retlocal", "writelocal"])

    # ---- design-level results (TLC), reported as observations when the as-coded rule refutes a clause
    _expect(ck, "value semantics", plain, False, 3, INVS, [*PROPS, "DefaultsStable"])
    docs = (*ns, ["none"], ["ret", "retplain", "write"])
    _expect(ck, "documented styles, no processor", docs, False, 2, ["DocumentedStylesWork"])
    r = _expect(ck, "arrays as objects", docs, True, 3, prop=["DefaultsStable"], refuted="DefaultsStable")
    ck.observe("G05.discipline-io.defaults-aliased",
               {"rule": "AliasDefaults", "clause": "DefaultsStable"},
               {"what": "the arrays stored as default inputs (and default outputs in virtual execution) are put as "
                        "such into the data handed to the body and returned by execute(): editing a returned array "
                        "in place edits the discipline's defaults",
                "tlc_counterexample_length": len(r.counterexample() or [])})
    r = _expect(ck, "documented styles behind a NameMapping", ([frozenset()], [frozenset()], ["map"], ["ret", "write"]),
                False, 2, ["DocumentedStylesWork"], refuted="DocumentedStylesWork")
    ck.observe("G05.discipline-io.name-mapping-styles",
               {"proc": "map", "clause": "DocumentedStylesWork"},
               {"what": "behind a NameMapping data processor a body that returns its outputs (the documented style) "
                        "or writes them under the grammar names fails: the post-processing maps every key of the "
                        "data through the reverse mapping and raises KeyError on the global output names; only "
                        "writing LOCAL names into io.data works",
                "tlc_counterexample_length": len(r.counterexample() or [])})
    r = _expect(ck, "returned local names", ([frozenset()], [frozenset()], ["map"], ["retlocal"]), False, 2,
                ["LocalStylesWork"], refuted="LocalStylesWork")
    ck.observe("G05.discipline-io.returned-local-names-ignored",
               {"proc": "map", "style": "retlocal", "clause": "LocalStylesWork"},
               {"what": "outputs RETURNED under the local names of a NameMapping are silently dropped by "
                        "IO.update_output_data (not output names), then the output validation fails",
                "tlc_counterexample_length": len(r.counterexample() or [])})
    _expect(ck, "written local names", ([frozenset()], [frozenset()], ["map"], ["writelocal"]), False, 2,
            ["LocalStylesWork"])
    ck.extra["g05_design_level"] = {"DefaultsStable": "refuted as coded, holds with value semantics",
                                    "DocumentedStylesWork": "holds without processor, refuted behind NameMapping",
                                    "LocalStylesWork": "refuted for returned local names, holds for written ones"}

    # ---- spec -> code: the as-coded model replayed on a real discipline
    replay(ck, obs, "plain+namespaces", plain, 3, 0 if thorough else 500, rng)
    replay(ck, obs, "name-mapping", mapped, 3, 0 if thorough else 250, rng)
    if thorough:
        replay(ck, obs, "plain+namespaces, two values, 4 calls", plain, 4, 20000, rng, vals=(1, 2))
    obs.finish()
