"""Shared machinery: TLC driver, state-graph parsing, transition tours, evidence, findings.

Exit codes of a check: 0 held / only known findings; 1 VIOLATION; 2 machinery failure.
"""
from __future__ import annotations

import json
import os
import re
import shutil
import subprocess
import sys
import time
import traceback
from collections import deque
from pathlib import Path

from . import tlaval

VERIF = Path(__file__).resolve().parent.parent
SPECS = VERIF / "specs"
JAR = "/opt/veriftools/tla/tla2tools.jar"
COMMUNITY = None  # on the default classpath of the `tlc` wrapper


class MachineryError(Exception):
    pass


def _tlc_cmd():
    # use the `tlc` wrapper from PATH: it carries the CommunityModules classpath
    return shutil.which("tlc") or "tlc"


class TLCResult:
    def __init__(self, out: str, rc: int, wall: float, workdir: Path):
        self.out = out
        self.rc = rc
        self.wall = wall
        self.workdir = workdir
        self.distinct = 0
        self.generated = 0
        self.depth = 0
        m = None
        for m in re.finditer(r"(\d+) states generated, (\d+) distinct states found", out):
            pass
        if m:
            self.generated, self.distinct = int(m.group(1)), int(m.group(2))
        m = re.search(r"The depth of the complete state graph search is (\d+)", out)
        if m:
            self.depth = int(m.group(1))
        self.violated = None
        m = re.search(r"Invariant (\S+) is violated", out)
        if m:
            self.violated = m.group(1)
        m2 = re.search(r"Action property (\S+) is violated|Temporal properties were violated|Error: Deadlock reached|property (\S+) (?:of .* )?is violated", out)
        if m2 and not self.violated:
            self.violated = next((g for g in m2.groups() if g), m2.group(0))
        self.error = None
        if "Error:" in out and not self.violated:
            m3 = re.search(r"Error: (.*(?:\n.*){0,6})", out)
            self.error = m3.group(1) if m3 else "Error"
        self.finished = "Model checking completed" in out or "Finished in" in out
        # per-action coverage: lines like  <Add line 10, col 1 to line 12, col 30 of module X>: 12:34
        self.coverage = {}
        for m in re.finditer(r"^<(\w+) line \d+, col \d+ to line \d+, col \d+ of module \w+(?: \([\d ]+\))?>: (\d+):(\d+)", out, re.M):
            a = self.coverage.setdefault(m.group(1), [0, 0])
            a[0] += int(m.group(2))
            a[1] += int(m.group(3))

    @property
    def ok(self):
        return self.rc == 0 and not self.violated and not self.error

    def printed(self):
        """Values printed with PrintT; long values are wrapped over several lines by TLC, so lines are
        accumulated until the brackets balance (run with -workers 1 or tolerate lost interleaved lines)."""
        vals = []
        buf = None
        depth = 0
        for line in self.out.splitlines():
            s = line.strip()
            if buf is None:
                if not s.startswith(("<<", "[", "{", "(")):
                    continue
                buf, depth = [], 0
            buf.append(s)
            in_str = False
            prev = ""
            for ch in s.replace("|->", "").replace(":>", ""):
                if ch == '"' and prev != "\\":
                    in_str = not in_str
                elif not in_str:
                    if ch in "<[{(":
                        depth += 1
                    elif ch in ">]})":
                        depth -= 1
                prev = ch
            if depth <= 0:
                try:
                    vals.append(tlaval.parse_value(" ".join(buf)))
                except ValueError:
                    pass
                buf = None
            elif len(buf) > 200000:
                buf = None
        return vals

    def counterexample(self):
        """States of the error trace, as list of (action, state dict)."""
        trace = []
        for m in re.finditer(r"State (\d+): <([^>]*)>\n((?:(?!\nState \d+:|\n\n).*\n?)*)", self.out):
            try:
                trace.append((m.group(2).split(" line")[0], tlaval.parse_state(m.group(3))))
            except ValueError:
                trace.append((m.group(2), m.group(3)))
        return trace


def run_tlc(module: str, cfg: str, workdir: Path, *, workers="auto", timeout=600, dump=False,
            simulate=None, depth=None, seed=None, env=None, coverage=True, deadlock=None,
            view_dump=False, extra=(), depth_first=False, spec_dir: Path | None = None, tag: str = "") -> TLCResult:
    """cfg: text of the configuration. module: file stem under specs/ (or spec_dir)."""
    workdir.mkdir(parents=True, exist_ok=True)
    sd = spec_dir or SPECS
    if tag:
        workdir = workdir / tag
        workdir.mkdir(parents=True, exist_ok=True)
    cfgp = workdir / f"{module}.cfg"
    cfgp.write_text(cfg)
    meta = workdir / f"meta-{module}-{time.time_ns()}"
    cmd = [_tlc_cmd(), "-config", str(cfgp), "-metadir", str(meta), "-noGenerateSpecTE",
           "-workers", str(workers)]
    if coverage and not simulate:
        cmd += ["-coverage", "1"]
    if dump:
        cmd += ["-dump", "dot,actionlabels", str(workdir / f"{module}.dot")]
    if simulate:
        cmd += ["-simulate", simulate]
        if depth:
            cmd += ["-depth", str(depth)]
    if seed is not None:
        cmd += ["-seed", str(seed)]
    if deadlock is False:
        cmd += ["-deadlock"]
    cmd += list(extra)
    cmd.append(str(sd / f"{module}.tla"))
    e = dict(os.environ)
    jto = "-XX:+UseParallelGC -Xmx" + os.environ.get("VERIF_TLC_HEAP", "6g")
    if depth_first:
        jto += " -Dtlc2.tool.queue.IStateQueue=StateDeque"
    e["JAVA_TOOL_OPTIONS"] = jto
    if env:
        e.update({k: str(v) for k, v in env.items()})
    t0 = time.time()
    try:
        p = subprocess.run(["timeout", str(timeout)] + cmd, cwd=str(sd), env=e, capture_output=True, text=True)
    except Exception as ex:  # pragma: no cover
        raise MachineryError(f"cannot run TLC: {ex}")
    wall = time.time() - t0
    out = p.stdout + p.stderr
    shutil.rmtree(meta, ignore_errors=True)
    if p.returncode == 124:
        raise MachineryError(f"TLC timed out after {timeout}s on {module}")
    r = TLCResult(out, p.returncode, wall, workdir)
    (workdir / f"{module}.out").write_text(out)
    return r


# ----------------------------------------------------------------------------- graphs

_NODE = re.compile(r'^(-?\d+) \[label="((?:[^"\\]|\\.)*)"')
_EDGE = re.compile(r'^(-?\d+) -> (-?\d+) \[label="((?:[^"\\]|\\.)*)"')


def _unesc(s: str) -> str:
    return s.replace("\\n", "\n").replace('\\"', '"').replace("\\\\", "\\")


class Graph:
    def __init__(self, path: Path):
        self.states: dict[str, dict] = {}
        self.edges: list[tuple[str, str, str, tuple]] = []  # src, dst, action, args
        self.init: list[str] = []
        for line in open(path):
            m = _EDGE.match(line)
            if m:
                lab = _unesc(m.group(3))
                name, args = parse_action_label(lab)
                self.edges.append((m.group(1), m.group(2), name, args))
                continue
            m = _NODE.match(line)
            if m:
                sid = m.group(1)
                if sid not in self.states:
                    self.states[sid] = tlaval.parse_state(_unesc(m.group(2)))
                if "style = filled" in line:
                    self.init.append(sid)
        self.out: dict[str, list[int]] = {}
        for k, (s, d, a, args) in enumerate(self.edges):
            self.out.setdefault(s, []).append(k)

    def bfs_tree(self):
        """parent edge index for every reachable state (shortest paths from the initial states)."""
        par: dict[str, int | None] = {s: None for s in self.init}
        q = deque(self.init)
        while q:
            s = q.popleft()
            for k in self.out.get(s, ()):
                d = self.edges[k][1]
                if d not in par:
                    par[d] = k
                    q.append(d)
        return par

    def path_to(self, sid, par):
        p = []
        while par[sid] is not None:
            k = par[sid]
            p.append(k)
            sid = self.edges[k][0]
        p.reverse()
        return p

    def tour(self, max_len=None):
        """Transition tour: a list of edge-index paths from an initial state that together cover every
        edge.  Greedy: extend the current path with uncovered out-edges as long as possible."""
        par = self.bfs_tree()
        covered = set()
        paths = []
        order = sorted(range(len(self.edges)), key=lambda k: len(self.path_to(self.edges[k][0], par)))
        for k in order:
            if k in covered or self.edges[k][0] not in par:
                continue
            path = self.path_to(self.edges[k][0], par) + [k]
            covered.update(path)
            cur = self.edges[k][1]
            while max_len is None or len(path) < max_len:
                nxt = [j for j in self.out.get(cur, ()) if j not in covered]
                if not nxt:
                    break
                j = nxt[0]
                path.append(j)
                covered.add(j)
                cur = self.edges[j][1]
            paths.append(path)
        return paths


def parse_action_label(lab: str):
    m = re.match(r"^(\w+)(?:\((.*)\))?$", lab.strip(), re.S)
    if not m:
        return lab, ()
    if m.group(2) is None or m.group(2).strip() == "":
        return m.group(1), ()
    args = tlaval.parse_value("<<" + m.group(2) + ">>")
    return m.group(1), args


# ----------------------------------------------------------------------------- simulate files

def parse_sim_file(path: Path):
    """A behaviour written by `tlc -simulate file=...`: list of (action_name, state dict)."""
    txt = Path(path).read_text()
    out = []
    for m in re.finditer(r"\\\* <?(\w+)[^\n]*\nSTATE_\d+ == *\n((?:.*\n)*?)(?=\n|\Z)", txt):
        out.append((m.group(1), tlaval.parse_state(m.group(2))))
    return out


# ----------------------------------------------------------------------------- findings / evidence

def load_findings():
    out = []
    p = VERIF / "known_findings.json"
    if p.exists():
        out += json.loads(p.read_text())["findings"]
    for q in sorted((VERIF / "known_findings.d").glob("*.json")):
        out += json.loads(q.read_text())["findings"]
    return out


def _sig_match(pattern, sig) -> bool:
    """pattern: dict key -> value | list of allowed values | {"contains": x}; all keys must match."""
    for k, want in pattern.items():
        if k not in sig:
            return False
        got = sig[k]
        if isinstance(want, dict) and "contains" in want:
            if want["contains"] not in (got if isinstance(got, (list, tuple, str)) else [got]):
                return False
        elif isinstance(want, dict) and "any_of" in want:
            if got not in want["any_of"]:
                return False
        elif isinstance(want, dict) and "subseq" in want:
            it = iter(got)
            if not all(any(x == y for y in it) for x in want["subseq"]):
                return False
        elif got != want:
            return False
    return True


class Check:
    def __init__(self, pid: str, level="model_checking"):
        self.pid = pid
        self.tier = os.environ.get("VERIF_TIER", "quick")
        if self.tier not in ("quick", "thorough"):
            self.tier = "quick"
        self.seed = int(os.environ.get("VERIF_SEED", "0") or 0)
        self.level = level
        self.t0 = time.time()
        self.work = VERIF / ".work" / f"{pid}-{os.getpid()}"
        if self.work.exists():
            shutil.rmtree(self.work)
        self.work.mkdir(parents=True)
        self.states = 0
        self.transitions = 0
        self.traces = 0
        self.samples: list = []
        self.extra: dict = {}
        self.assumptions: list[str] = []
        self.violations: list[dict] = []
        self.observations: list[dict] = []
        self.known_hits: dict[str, int] = {}
        self.findings = [f for f in load_findings() if f["property"] == pid and f["kind"] == "finding"]
        self.tlc_runs: list[dict] = []
        self.exhaustive = False
        self.max_report = int(os.environ.get("VERIF_MAX_REPORT", "5"))

    @property
    def thorough(self):
        return self.tier == "thorough"

    # -- TLC
    def tlc(self, module, cfg, *, expect_ok=True, count=True, require_actions=(), **kw) -> TLCResult:
        r = run_tlc(module, cfg, self.work, **kw)
        self.tlc_runs.append({"module": module, "distinct": r.distinct, "generated": r.generated,
                              "depth": r.depth, "wall_s": round(r.wall, 2),
                              "coverage": {k: v[0] for k, v in r.coverage.items()}})
        if r.error or (r.rc != 0 and not r.violated):
            raise MachineryError(f"TLC failed on {module}: {r.error or r.out[-2000:]}")
        if count:
            self.states += r.distinct
            self.transitions += r.generated
        for a in require_actions:
            if r.coverage.get(a, [0, 0])[1] == 0:  # [distinct new states, times taken]
                raise MachineryError(f"vacuity: action {a} of {module} never taken")
        if expect_ok and r.violated:
            # the *specification* does not satisfy its own property: a machinery/design failure
            raise MachineryError(f"specification {module} violates {r.violated}:\n" + r.out[-3000:])
        return r

    # -- outcomes
    def sample(self, s, limit=6):
        if len(self.samples) < limit:
            self.samples.append(s)

    def violation(self, clause: str, signature: dict, detail: dict):
        """Record a disagreement between implementation and specification."""
        sig = dict(signature)
        sig.setdefault("clause", clause)
        for f in self.findings:
            if _sig_match(f["match"], sig):
                self.known_hits[f["id"]] = self.known_hits.get(f["id"], 0) + 1
                return False
        self.violations.append({"clause": clause, "signature": sig, "detail": detail})
        return True

    def observe(self, clause: str, signature: dict, detail: dict):
        """A disagreement on a clause that is OUTSIDE the listed property (specification growth): it is
        written to the evidence and printed as OBSERVATION, never as a VIOLATION, and never fails the check."""
        self.observations.append({"clause": clause, "signature": dict(signature), "detail": detail})

    def guard(self, clause, signature, fn, *a, **k):
        """Call gemseo; an exception raised by gemseo on an operation the spec allows is a violation."""
        try:
            return True, fn(*a, **k)
        except Exception as ex:  # noqa: BLE001
            tb = traceback.format_exc(limit=6)
            self.violation(clause, dict(signature, exception=type(ex).__name__),
                           {"exception": repr(ex), "traceback": tb})
            return False, None

    def finish(self):
        wall = time.time() - self.t0
        ev = {
            "property_id": self.pid, "tier": self.tier, "seed": self.seed, "level": self.level,
            "coverage": {
                "states": int(self.states), "transitions": int(self.transitions),
                "traces_validated_against_impl": int(self.traces),
                "samples": _jsonable(self.samples) or ["(none)"],
                "exhaustive": bool(self.exhaustive),
                "tlc_runs": self.tlc_runs,
                "known_findings_hit": self.known_hits,
                "observations_outside_the_property": _jsonable(
                    [dict(o["signature"], clause=o["clause"]) for o in self.observations[:50]]),
                "n_observations_outside_the_property": len(self.observations),
                "gemseo_imported_from": _gemseo_path(),
                **_jsonable(self.extra),
            },
            "assumptions": self.assumptions,
            "wall_s": round(wall, 2),
            "violations": len(self.violations),
        }
        evdir = Path(os.environ.get("VERIF_EVIDENCE_DIR") or VERIF / "evidence")
        evdir.mkdir(parents=True, exist_ok=True)
        (evdir / f"{self.pid}.json").write_text(json.dumps(ev, indent=1, default=str))
        for f in self.findings:
            if self.known_hits.get(f["id"]):
                print(f"KNOWN-FINDING: property={self.pid} {f['id']}: {f['what']} (hit {self.known_hits[f['id']]}x)")
        seen_obs = set()
        for o in self.observations:
            key = json.dumps(_jsonable(dict(o["signature"], clause=o["clause"])), sort_keys=True, default=str)
            if key not in seen_obs and len(seen_obs) < 10:
                print(f"OBSERVATION (outside property {self.pid}, specification growth): {key[:300]}")
            seen_obs.add(key)
        rc = 0
        # self-test of a growth module run stand-alone (bin/mutant <patch> G0x): an observation whose clause is not
        # in the committed list of clauses observed on the unchanged tree counts as a detection
        if os.environ.get("VERIF_GROWTH_STRICT") and self.pid.startswith("G"):
            bp = VERIF / "harness" / "growth" / "baseline_observations.json"
            base = set(json.loads(bp.read_text()).get(self.pid, [])) if bp.exists() else set()
            new = sorted({o["clause"] for o in self.observations} - base)
            for c in new:
                print(f"VIOLATION property={self.pid} replay=(growth self-test) clause={c}")
            if new:
                rc = 1
        if self.violations:
            rdir = Path(os.environ.get("VERIF_REPLAY_DIR") or VERIF / "replays")
            rdir.mkdir(parents=True, exist_ok=True)
            seen = set()
            n = 0
            for v in self.violations:
                key = json.dumps(_jsonable(v["signature"]), sort_keys=True, default=str)
                if key in seen:
                    continue
                seen.add(key)
                n += 1
                if n > self.max_report:
                    continue
                path = rdir / f"{self.pid}-{n}.json"
                path.write_text(json.dumps(_jsonable(dict(v, property=self.pid, tier=self.tier, seed=self.seed,
                                                          how=f"VERIF_TIER={self.tier} VERIF_SEED={self.seed} bin/check {self.pid}")),
                                           indent=1, default=str))
                print(f"VIOLATION property={self.pid} replay={path} clause={v['clause']}")
            print(f"{self.pid}: {len(self.violations)} violating cases, {len(seen)} distinct signatures")
            rc = 1
        print(f"{self.pid} [{self.tier}] states={self.states} transitions={self.transitions} "
              f"impl_traces={self.traces} violations={len(self.violations)} wall={wall:.1f}s")
        shutil.rmtree(self.work, ignore_errors=True)
        return rc


def _gemseo_path():
    try:
        import gemseo

        return str(Path(gemseo.__file__).parent)
    except Exception:  # noqa: BLE001
        return "?"


def _jsonable(x):
    import numpy as np  # local: harness may be imported without numpy for pure-spec work

    if isinstance(x, dict):
        return {str(k): _jsonable(v) for k, v in x.items()}
    if isinstance(x, (list, tuple)):
        return [_jsonable(v) for v in x]
    if isinstance(x, (set, frozenset)):
        return sorted((_jsonable(v) for v in x), key=str)
    if isinstance(x, np.ndarray):
        return x.tolist()
    if isinstance(x, (np.integer,)):
        return int(x)
    if isinstance(x, (np.floating,)):
        return float(x)
    if isinstance(x, (np.bool_,)):
        return bool(x)
    if isinstance(x, complex):
        return [x.real, x.imag]
    return x


def main(pid: str, run):
    """Entry point used by every check module."""
    import logging
    import warnings

    logging.disable(logging.CRITICAL)
    warnings.filterwarnings("ignore")
    ck = None
    try:
        ck = Check(pid)
        run(ck)
        rc = ck.finish()
    except MachineryError as ex:
        print(f"MACHINERY-FAILURE property={pid}: {ex}", file=sys.stderr)
        rc = 2
    except Exception:  # noqa: BLE001
        traceback.print_exc()
        print(f"MACHINERY-FAILURE property={pid}: unexpected exception in harness", file=sys.stderr)
        rc = 2
    if ck is not None and not os.environ.get("VERIF_KEEP_WORK"):
        shutil.rmtree(ck.work, ignore_errors=True)
    sys.exit(rc)


class Promote:
    """Proxy of a Check for a specification-growth module wired into a property check: the listed
    observation clauses ARE clauses of that property and become violations (with the given signature);
    every other observation stays an observation."""

    def __init__(self, ck: Check, clauses: dict):
        object.__setattr__(self, "_ck", ck)
        object.__setattr__(self, "_clauses", clauses)

    def __getattr__(self, name):
        return getattr(self._ck, name)

    def __setattr__(self, name, value):
        setattr(self._ck, name, value)

    def observe(self, clause, signature, detail):
        if clause in self._clauses:
            new_clause, sig = self._clauses[clause]
            self._ck.violation(new_clause, dict(sig), dict(detail, growth_signature=signature))
        else:
            self._ck.observe(clause, signature, detail)
