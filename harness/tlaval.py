"""Parser for TLA+ values as printed by TLC (states in dot dumps, PrintT output, simulate files).

Mapping:  <<a,b>> -> tuple ; {a,b} -> frozenset ; [f |-> v] -> dict ; (k :> v @@ ...) -> dict
          "s" -> str ; 12 -> int ; TRUE/FALSE -> bool ; bare identifier -> ModelValue(str subclass)
"""
from __future__ import annotations

import re


class ModelValue(str):
    __slots__ = ()

    def __repr__(self) -> str:
        return f"MV({str.__repr__(self)})"


_TOK = re.compile(
    r"""\s*(?:
      (?P<str>"(?:[^"\\]|\\.)*")
    | (?P<int>-?\d+)
    | (?P<op><<|>>|\|->|:>|@@|\.\.|[\[\]{}(),])
    | (?P<id>[A-Za-z_][A-Za-z_0-9!]*)
    )""",
    re.X,
)


class _P:
    def __init__(self, s: str):
        self.toks = []
        pos = 0
        n = len(s)
        while pos < n:
            m = _TOK.match(s, pos)
            if not m:
                if s[pos:].strip() == "":
                    break
                raise ValueError(f"cannot tokenize TLA value at {s[pos:pos+40]!r}")
            pos = m.end()
            k = m.lastgroup
            self.toks.append((k, m.group(k)))
        self.i = 0

    def peek(self):
        return self.toks[self.i] if self.i < len(self.toks) else (None, None)

    def eat(self, v=None):
        k, t = self.peek()
        if v is not None and t != v:
            raise ValueError(f"expected {v!r} got {t!r}")
        self.i += 1
        return k, t

    def value(self):
        k, t = self.eat()
        if k == "str":
            return bytes(t[1:-1], "utf-8").decode("unicode_escape") if "\\" in t else t[1:-1]
        if k == "int":
            v = int(t)
            if self.peek()[1] == "..":
                self.eat()
                hi = self.value()
                return tuple(range(v, hi + 1)) if False else frozenset(range(v, hi + 1))
            return v
        if k == "id":
            if t == "TRUE":
                return True
            if t == "FALSE":
                return False
            return ModelValue(t)
        if t == "<<":
            out = []
            while self.peek()[1] != ">>":
                out.append(self.value())
                if self.peek()[1] == ",":
                    self.eat()
            self.eat(">>")
            return tuple(out)
        if t == "{":
            out = []
            while self.peek()[1] != "}":
                out.append(self.value())
                if self.peek()[1] == ",":
                    self.eat()
            self.eat("}")
            return frozenset(_freeze(x) for x in out)
        if t == "[":
            d = {}
            while self.peek()[1] != "]":
                _, name = self.eat()
                self.eat("|->")
                d[name] = self.value()
                if self.peek()[1] == ",":
                    self.eat()
            self.eat("]")
            return d
        if t == "(":
            d = {}
            while True:
                key = self.value()
                self.eat(":>")
                d[_freeze(key)] = self.value()
                if self.peek()[1] == "@@":
                    self.eat()
                    continue
                break
            self.eat(")")
            return d
        raise ValueError(f"unexpected token {t!r}")


class FrozenDict(dict):
    def __hash__(self):  # type: ignore[override]
        return hash(frozenset((k, _freeze(v)) for k, v in self.items()))


def _freeze(x):
    if isinstance(x, dict):
        return FrozenDict({k: _freeze(v) for k, v in x.items()})
    if isinstance(x, (list, tuple)):
        return tuple(_freeze(v) for v in x)
    if isinstance(x, (set, frozenset)):
        return frozenset(_freeze(v) for v in x)
    return x


def parse_value(s: str):
    p = _P(s)
    v = p.value()
    if p.i != len(p.toks):
        raise ValueError(f"trailing tokens in TLA value: {p.toks[p.i:p.i+5]}")
    return v


_VAR = re.compile(r"^(?:/\\ )?([A-Za-z_][A-Za-z_0-9]*) = ", re.M)


def parse_state(label: str) -> dict:
    """Parse '/\\ x = 1\\n/\\ y = <<..>>' (values may span several lines)."""
    ms = list(_VAR.finditer(label))
    out = {}
    for j, m in enumerate(ms):
        end = ms[j + 1].start() if j + 1 < len(ms) else len(label)
        out[m.group(1)] = parse_value(label[m.end():end])
    return out


def seq(x):
    """A TLA+ function with domain 1..n printed as (1 :> a @@ 2 :> b) -> list; tuple -> list."""
    if isinstance(x, tuple):
        return list(x)
    if isinstance(x, dict):
        return [x[i] for i in range(1, len(x) + 1)]
    raise TypeError(x)


def to_tla(x) -> str:
    """Python value -> TLA+ expression text (for generated cfg / modules)."""
    if isinstance(x, bool):
        return "TRUE" if x else "FALSE"
    if isinstance(x, int):
        return str(x)
    if isinstance(x, ModelValue):
        return str(x)
    if isinstance(x, str):
        return '"' + x.replace("\\", "\\\\").replace('"', '\\"') + '"'
    if isinstance(x, (list, tuple)):
        return "<<" + ", ".join(to_tla(v) for v in x) + ">>"
    if isinstance(x, (set, frozenset)):
        return "{" + ", ".join(sorted(to_tla(v) for v in x)) + "}"
    if isinstance(x, dict):
        if not x:
            return "<<>>"
        if all(isinstance(k, str) and re.fullmatch(r"[A-Za-z_][A-Za-z_0-9]*", k) and not isinstance(k, ModelValue) for k in x):
            return "[" + ", ".join(f"{k} |-> {to_tla(v)}" for k, v in x.items()) + "]"
        return "(" + " @@ ".join(f"{to_tla(k)} :> {to_tla(v)}" for k, v in x.items()) + ")"
    raise TypeError(type(x))
