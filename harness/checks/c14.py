"""C14 - DOE samples honour bounds, types, sample count and seed (PARTIAL: the samplers are opaque).

specs/DOEPipeline.tla : the pipeline around the opaque sampler (Seeder, integer-normalisation toggle,
                        count rule per family, untransform + rounding, restore), model-checked by TLC
                        (1) exhaustively over small call histories of two library instances,
                        (2) over every (family, n, p, space) instance for the count/image lemmas.
specs/DOETrace.tla    : code -> spec.  Call histories enumerated by TLC (transition tour of the history
                        model) are run on every algorithm of DOELibraryFactory x dimensions 1-4 x asymmetric
                        dyadic bounds x float/mixed x n, recorded (c14_rec.py) and validated clause by
                        clause by TLC; assumption UnitCube is monitored on the wrappers' unit samples.

"Expressed in the design space's variable order":
  * user side - everything a user hands over BY NAME or BY COMPONENT is enumerated by TLC (DOEPipeline with
    UxMode = "rich", `rich_scenarios`): user-supplied designs (CustomDOE) as a 2-D array, a list of mappings, a
    mapping of 2-D arrays and a file (delimiter / skiprows / comment lines), with the keys in every order;
    DiagonalDOE `reverse` by variable name and by component index; full-factorial `levels` per direction;
    axial / factorial / composite `centers` per direction + `levels`; OATDOE `initial_point`.  The specification
    gives the input its meaning by (variable name, offset) and states the result against it (VariableOrder,
    Structure, CountRule); calls that mean the same share one memo entry (Deterministic across input forms).
  * design-space side - the spaces have >= 2 variables of sizes 1-2 incl. an integer one, added in a
    non-alphabetical order, and are obtained through rename_variable / remove_variable / filter /
    filter_dimensions (c14_rec.decorate); the specification computes the resulting order (Prep) and the real
    space's layout is compared with it (SpaceLayout); compute_doe is also given a DIMENSION instead of a space.
"""
from __future__ import annotations

import json
import random
import time

from ..core import Check, Graph, MachineryError, main
from . import c14_rec as rec

INVS = ["FlagDuring", "IntNormRestored", "InBounds", "Integral", "ImageOfUnit", "CountRule", "RejectRule",
        "SeedRule", "Structure", "Deterministic", "DbOrder", "CountLemma", "VariableOrder", "SpaceWellFormed"]
TINVS = ["TFlagDuring", "TIntNormRestored", "TInBounds", "TIntegral", "TImageOfUnit", "TSeedRule", "TDeterministic"]
ALLFAMS = ["exact", "exact2", "atmost", "diag", "fullfact", "axial", "factorial", "composite", "morris",
           "sobolidx", "bb", "cc", "ff2n", "pb", "custom", "oat", "fullfactL", "axialL", "factorialL", "compositeL"]
ALLFORMS = ("array", "rows", "cols", "file")
# families whose settings carry user-provided structure indexed by variable / component
RICH_FAMS = ("custom", "diag", "fullfactL", "axialL", "factorialL", "compositeL", "oat")
MACHINERY_CLAUSES = ("HarnessSpace", "HarnessInput")


def tset(xs):
    return "{" + ", ".join((f'"{x}"' if isinstance(x, str) else ("TRUE" if x is True else "FALSE" if x is False else str(x)))
                           for x in xs) + "}"


def cfg(*, space=(1,), g=8, insts=(1, 2), apis=("compute", "execute"), fams=("exact",), ns=(1,), ps=(0,),
        seeds=(1, 2), grid=(1, 4), injects=(False, True), mode="all", maxcalls=2, invs=INVS, trace=False,
        ux="plain", forms=("array",), only_begin=False):
    s = (f"CONSTANTS G = {g}\n S = 8\n SpaceIds = {tset(space if isinstance(space, tuple) else (space,))}\n Insts = {tset(insts)}\n Apis = {tset(apis)}\n"
         f" Fams = {tset(fams)}\n Ns = {tset(ns)}\n Ps = {tset(ps)}\n Seeds = {tset(seeds)}\n"
         f" GridVals = {tset(grid)}\n Injects = {tset(injects)}\n UnitMode = \"{mode}\"\n MaxCalls = {maxcalls}\n"
         f" UxMode = \"{ux}\"\n Forms = {tset(forms)}\n")
    if trace:
        s += "INIT TInit\nNEXT TNext\nCONSTRAINT Reach\nPOSTCONDITION Accepted\nCHECK_DEADLOCK FALSE\n"
        for i in TINVS:
            s += f"INVARIANT {i}\n"
    elif only_begin:
        # the calls the model can START (every user-provided structure of UserExtras): scenario enumeration
        s += "INIT Init\nNEXT DoBegin\nCHECK_DEADLOCK FALSE\n"
    else:
        s += "SPECIFICATION Spec\nCHECK_DEADLOCK FALSE\n"
        for i in invs:
            s += f"INVARIANT {i}\n"
    return s


# asymmetric dyadic bounds (multiples of 1/8); (lb, ub, is_integer, variable name): consecutive components with
# the same name form one variable (sizes 1-2); the variables are NOT in alphabetical order
SPACES = {
    "d1f": [(-3.0, -1.0, False, "x")],
    "d1i": [(2.0, 7.0, True, "k")],
    "d2f": [(-3.0, -1.0, False, "y"), (0.5, 0.75, False, "b")],
    "d2m": [(0.5, 0.75, False, "y"), (2.0, 7.0, True, "k")],
    "d3f": [(-3.0, -1.0, False, "z"), (1.0, 9.0, False, "z"), (0.5, 0.75, False, "a")],
    "d3m": [(-3.0, -1.0, False, "z"), (1.0, 9.0, False, "z"), (2.0, 7.0, True, "k")],
    "d4f": [(-3.0, -1.0, False, "y"), (1.0, 9.0, False, "c"), (0.5, 0.75, False, "c"), (-0.125, 1.875, False, "a")],
    "d4m": [(-3.0, -1.0, False, "y"), (-1.0, 2.0, True, "n"), (0.5, 0.75, False, "b"), (1.0, 9.0, False, "b")],
}


def unit_comps(d):
    return [(0.0, 1.0, False, f"w{k // 2}") for k in range(d)]


N_VALUES = (1, 2, 5, 8, 17)


def require(r, actions, what):
    """Vacuity guard.  core's coverage regex does not match actions headed by a quantifier (TLC appends the
    location of the body: `<DoBegin line .. of module M (272 14 272 87)>: 12:34`), so parse here."""
    import re

    cov = {}
    for m in re.finditer(r"^<(\w+) line [^>]*>: (\d+):(\d+)", r.out, re.M):
        cov[m.group(1)] = cov.get(m.group(1), 0) + int(m.group(2))
    for a in actions:
        if cov.get(a, 0) == 0:
            raise MachineryError(f"vacuity: action {a} never taken in {what}")
    return cov


def model_check(ck: Check):
    """Exhaustive runs of DOEPipeline (the specification satisfies its own clauses)."""
    acts = ("DoBegin", "DoRefuse", "EarlyReject", "DoSample", "DoSampleFail", "DoFinish", "Raise", "Return")
    # (1) call histories: two instances, seeded / unseeded, compute / execute, refusals, sampler failures
    hist_spaces = (2, 3) if not ck.thorough else (1, 2, 3, 4)
    r = ck.tlc("DOEPipeline", cfg(space=hist_spaces, fams=("exact", "diag", "morris"), ns=(1,), maxcalls=2),
               workers=4, timeout=600)
    require(r, acts, f"history model, spaces {hist_spaces}")
    if ck.thorough:
        for sp, mc in ((2, 4), (3, 3), (4, 3)):
            r = ck.tlc("DOEPipeline", cfg(space=sp, fams=("exact", "diag", "morris"), ns=(1,), maxcalls=mc),
                       workers=8, timeout=1500)
            require(r, acts, f"history model, space {sp}, {mc} calls")
        r = ck.tlc("DOEPipeline", cfg(space=2, fams=("diag", "axial"), ns=(1, 3), grid=(0, 4, 8), maxcalls=2, insts=(1,)),
                   workers=8, timeout=1500)
        require(r, acts, "history model, diag/axial")
    # (2a) one call per instance (family, n, p) in dimensions 1-4: count lemmas, rejection and refusal rules
    nmax = 40 if ck.thorough else 17
    r = ck.tlc("DOEPipeline",
               cfg(space=(2, 3, 5, 6), insts=(1,), apis=("compute", "execute"), fams=ALLFAMS, ns=tuple(range(0, nmax + 1)),
                   ps=(0, 1, 2, 8), seeds=(1,), grid=(4,), injects=(False,), mode="const", maxcalls=1),
               workers=4 if not ck.thorough else 8, timeout=1200)
    require(r, ("DoBegin", "DoRefuse", "EarlyReject", "DoSample", "DoSampleFail", "DoFinish", "Raise"), "instance model")
    # (2a') the count rules at n just below / at / above every level boundary, in dimensions 2..13 (unit spaces),
    #       large n included (n around 224^2, 33^3, 2^13): integer root by search, maximality, count <= n
    r = ck.tlc("DOEPipeline",
               cfg(space=tuple(range(101, 114)), insts=(1,), apis=("compute",),
                   fams=("fullfact", "axial", "factorial", "composite", "morris"), ns=boundary_n_values(ck.thorough),
                   seeds=(1,), grid=(4,), injects=(False,), mode="const", maxcalls=1),
               workers=4 if not ck.thorough else 8, timeout=1200)
    require(r, ("DoBegin", "DoSample", "DoSampleFail", "DoFinish", "Raise"), "boundary instance model")
    # (2b) every unit grid point of every component of every space of the catalogue: image within bounds,
    #      integral, rounding (ties both ways), flag dependence
    for spaces, mode in (((1, 2, 3, 4), "all"), ((5, 6), "const")):
        r = ck.tlc("DOEPipeline",
                   cfg(space=spaces, insts=(1,), apis=("compute", "execute"), fams=("exact",), ns=(1,), seeds=(1,),
                       grid=tuple(range(0, 9)), injects=(False,), mode=mode, maxcalls=1),
                   workers=4, timeout=900)
        require(r, ("DoBegin", "DoSample", "DoFinish"), f"image model, spaces {spaces}")
    # (2c) the structured designs built by gemseo's own wrapper code: TLC searches ALL matrices over the grid
    #      for those the structure rules admit (non-vacuity of the rules) and checks the pipeline on them
    #      (d = 2 with per-direction user structure: reversed variables of the diagonal design by name / by
    #      component index, levels per direction, centre + levels of an axial design)
    struct = [(2, (2, 3, 5), (0, 2, 4, 6, 8), ("diag", "fullfact", "axial", "factorial", "composite"), "plain"),
              (3, (2, 3), (0, 4, 8), ("diag",), "rich"),
              (4, (0,), (0, 8), ("fullfactL",), "plain")]
    if ck.thorough:
        struct.append((3, (4, 5), (0, 4, 8), ("fullfact", "axial", "factorial"), "plain"))
        struct.append((4, (2, 3), (0, 4, 8), ("diag",), "rich"))
        struct.append((4, (0,), (0, 4, 8), ("fullfactL", "axialL"), "plain"))
    for sp, ns, grid, fams, uxm in struct:
        r = ck.tlc("DOEPipeline", cfg(space=sp, insts=(1,), apis=("compute",), fams=fams, ns=ns, seeds=(1,), grid=grid,
                                      injects=(False,), mode="all", maxcalls=1, ux=uxm), workers=4, timeout=900)
        require(r, ("DoBegin", "DoSample", "DoFinish"), f"structure model, space {sp}, {fams}")
    # (2d) user-supplied designs as named-column tables: every input form x key order x table; two calls, so
    #      that the same table handed over in two different forms meets the memo (Deterministic)
    runs = [((3, 5), (1,), (0, 8), 2), ((3, 4, 5, 6), (1, 2), (0, 4, 8), 1) if ck.thorough else ((4, 6), (1, 2), (0, 8), 1)]
    for spaces, ps, grid, mc in runs:
        r = ck.tlc("DOEPipeline",
                   cfg(space=spaces, insts=(1,), apis=("compute", "execute"), fams=("custom",), ns=(0,), ps=ps, seeds=(1,),
                       grid=grid, injects=(False,), mode="rows", maxcalls=mc, ux="rich", forms=ALLFORMS,
                       invs=INVS + ["PresentationNeutral"]), workers=4, timeout=900)
        require(r, ("DoBegin", "DoSample", "DoFinish"), f"named-column table model, spaces {spaces}")
    # (3) outside the quantifier: TLC refutes "at most n" for the Sobol'-indices design (d = 1, second order)
    r = ck.tlc("DOEPipeline",
               cfg(space=1, insts=(1,), apis=("compute",), fams=("sobolidx",), ns=tuple(range(1, 13)), ps=(0, 1),
                   seeds=(1,), grid=(4,), injects=(False,), mode="const", maxcalls=1, invs=["SobolIdxAtMostRequested"]),
               workers=1, timeout=300, expect_ok=False, count=False, coverage=False)
    ck.extra["spec_level_observation_sobolidx"] = (
        "TLC refutes SobolIdxAtMostRequested (documented OpenTURNS size N(2d+2) for d=1 with the wrapper's N=n//(d+2))"
        if r.violated else "SobolIdxAtMostRequested holds")


def histories(ck: Check, maxcalls):
    """spec -> code: call histories = transition tour of the history model (one abstract family)."""
    r = ck.tlc("DOEPipeline", cfg(space=1, fams=("exact",), ns=(1,), grid=(4,), mode="const", maxcalls=maxcalls, invs=[]),
               workers=1, timeout=600, dump=True, count=False, coverage=False)
    g = Graph(ck.work / "DOEPipeline.dot")
    paths = g.tour()
    hs = []
    seen = set()
    for p in paths:
        h = []
        for k in p:
            src, dst, act, _ = g.edges[k]
            st = g.states[dst]
            if st["pc"] == "begun" and g.states[src]["pc"] == "idle":
                c = st["cur"]
                h.append((c["inst"], c["api"], c["seeded"], c["seed"], c["inj"]))
        if h and tuple(h) not in seen:
            seen.add(tuple(h))
            hs.append(h)
    if not hs:
        raise MachineryError("no call history extracted from the state graph")
    ck.extra["history_graph"] = {"states": len(g.states), "edges": len(g.edges), "tour_paths": len(paths),
                                 "distinct_histories": len(hs)}
    return hs


def _canon(v):
    if isinstance(v, dict):
        return tuple(sorted((k, _canon(x)) for k, x in v.items()))
    if isinstance(v, (set, frozenset)):
        return tuple(sorted(_canon(x) for x in v))
    if isinstance(v, (tuple, list)):
        return tuple(_canon(x) for x in v)
    return v


def _plain(v):
    """TLA+ value (parsed) -> JSON-able value for the recorder / the trace."""
    if isinstance(v, dict):
        return {str(k): _plain(x) for k, x in v.items()}
    if isinstance(v, (tuple, list)):
        return [_plain(x) for x in v]
    if isinstance(v, bool) or isinstance(v, int):
        return v
    return str(v)


def rich_scenarios(ck: Check, first_id):
    """spec -> code for the user-provided structure: TLC enumerates every call the model can start with
    UxMode = "rich" (input forms x key orders x tables of a user-supplied design, reversed variables by name /
    component index, levels and centres per direction, initial point) on spaces with >= 2 variables of sizes
    1-2 incl. an integer one and on the unit space compute_doe builds from a dimension; the calls that MEAN the
    same (same aux) are run one after the other on two library instances, through compute_doe and execute."""
    spaces = (3, 4, 5, 6, 102)
    r = ck.tlc("DOEPipeline",
               cfg(g=rec.G, space=spaces, insts=(1,), apis=("compute",), fams=RICH_FAMS, ns=(0, 2, 3), ps=(0, 1, 2),
                   seeds=(1,), grid=(0, rec.G), injects=(False,), mode="rows", maxcalls=1, ux="rich", forms=ALLFORMS,
                   invs=["PresentationNeutral", "SpaceWellFormed"], only_begin=True),
               workers=1, timeout=600, dump=True, coverage=False)
    g = Graph(ck.work / "DOEPipeline.dot")
    groups: dict = {}
    for st in g.states.values():
        if st["pc"] != "begun":
            continue
        c = st["cur"]
        fam = str(c["fam"])
        if c["seeded"] or (fam == "diag" and c["n"] < 2) or (fam == "custom" and c["p"] < 1) or (fam == "oat" and c["p"]):
            continue
        key = (_canon(st["sp"]), fam, c["n"], c["p"], _canon(c["aux"]))
        groups.setdefault(key, {"sp": st["sp"], "fam": fam, "n": c["n"], "p": c["p"], "uxs": []})["uxs"].append(_plain(c["ux"]))
    if not groups:
        raise MachineryError("no call with user-provided structure extracted from the state graph")
    out = []
    sid = first_id
    counts: dict = {}
    for key in sorted(groups, key=repr):
        gr = groups[key]
        comps = [(c["lb"] / rec.S, c["ub"] / rec.S, bool(c["int"]), str(c["var"])) for c in gr["sp"]]
        unit = all(c[3] == "x" and c[0] == 0.0 and c[1] == 1.0 for c in comps) and len(comps) >= 2
        uxs = sorted(gr["uxs"], key=repr)
        if not ck.thorough and gr["fam"] in ("axialL", "factorialL", "compositeL") and len(comps) >= 3:
            # quick tier: in dimensions >= 3, the centre vectors that are not constant are thinned out
            if not uxs[0]["scal"] and len(set(uxs[0]["pv"])) > 1 and (sum(uxs[0]["pv"]) // 16 + len(uxs[0]["lv"])) % 3:
                continue
        for algo in rec.FAM_ALGOS[gr["fam"]]:
            sid += 1
            asint = len(comps) if (unit and sid % 2) else 0
            hist = []
            for i, ux in enumerate(uxs + (uxs if len(uxs) == 1 else [])):
                api = "compute" if (asint or (i + sid) % 2 == 0) else "execute"
                hist.append((1 + i % 2, api, False, 0, False, ux))
                k = (gr["fam"], ux["form"], "permuted" if ux["perm"] and ux["perm"] != sorted(ux["perm"], key=[c[3] for c in comps].index) else "in-order")
                counts[k] = counts.get(k, 0) + 1
            out.append({"id": sid, "algo": algo, "fam": gr["fam"], "space": "r:" + "".join(dict.fromkeys(c[3] for c in comps)) + ("int" if asint else ""),
                        "comps": comps, "flag0": (sid % 2 == 0), "asint": asint, "prepv": sid // 2, "n": gr["n"], "p": gr["p"],
                        "variant": 0, "history": hist, "rich": True})
    ck.extra["user_structure_calls[family,form,key order]"] = {"/".join(k): v for k, v in sorted(counts.items())}
    ck.extra["user_structure_graph"] = {"states": len(g.states), "groups": len(groups), "scenarios": len(out)}
    need = [("custom", f, "in-order") for f in ALLFORMS] + [("custom", "rows", "permuted"), ("custom", "cols", "permuted")] + \
           [(f, "none", "in-order") for f in RICH_FAMS if f != "custom"]
    for k in need:
        if not counts.get(k):
            raise MachineryError(f"vacuity: no call with user-provided structure {k}")
    return out


# every scenario ends with the same seeded call on both instances: equal (algo, settings, seed) in
# DIFFERENT seeder histories, through compute_doe and through execute
def probe(seed):
    return [(1, "compute", True, seed, False), (2, "execute", True, seed, False), (2, "compute", False, 0, False),
            (1, "compute", False, 0, False)]


# ---- n just below / at / above a level boundary of the count rules (n = base - 1, base, base + 1)
def fullfact_cases(thorough):
    """(d, k): n around k^d, including large ones where a floating-point d-th root is fragile."""
    cases = [(2, 3), (2, 10), (2, 100), (2, 224), (3, 2), (3, 10), (3, 33)] + [(d, 2) for d in range(4, 14)]
    if thorough:
        cases += [(4, 13), (5, 8), (7, 4), (9, 3), (2, 317), (3, 46), (6, 5)]
    return cases


LEVEL_BASE = {          # algorithm -> base(L, d): the smallest n giving L levels / replicates
    "OT_AXIAL": lambda L, d: 1 + 2 * d * L,
    "OT_FACTORIAL": lambda L, d: 1 + 2 ** d * L,
    "OT_COMPOSITE": lambda L, d: 1 + L * (2 * d + 2 ** d),
    "MorrisDOE": lambda L, d: L * (d + 1),
}


def boundary_n_values(thorough):
    ns = set()
    for d, k in fullfact_cases(thorough):
        ns |= {k ** d - 1, k ** d, k ** d + 1}
    for base in LEVEL_BASE.values():
        for d in range(1, 5):
            for L in ((1, 2, 3, 5, 8) if thorough else (1, 2)):
                ns |= {base(L, d) - 1, base(L, d), base(L, d) + 1}
    return tuple(sorted(n for n in ns if n >= 1))


def boundary_scenarios(ck: Check, first_id):
    out = []
    sid = first_id
    for a in ("PYDOE_FULLFACT", "OT_FULLFACT"):
        for d, k in fullfact_cases(ck.thorough):
            for n in (k ** d - 1, k ** d, k ** d + 1):
                sid += 1
                # every other one hands the DIMENSION to compute_doe instead of a design space
                asint = d if sid % 2 else 0
                out.append({"id": sid, "algo": a, "space": f"unit{d}" + ("int" if asint else ""),
                            "comps": [(0.0, 1.0, False, "x")] * d if asint else unit_comps(d), "flag0": False,
                            "asint": asint, "prepv": sid // 2, "n": n, "variant": 0,
                            "history": [(1, "compute", False, 0, False)], "boundary": True})
    dims = {1: "d1f", 2: "d2m", 3: "d3f", 4: "d4m"}
    for a, base in LEVEL_BASE.items():
        for d, sname in dims.items():
            for L in ((1, 2, 3, 5, 8) if ck.thorough else (1, 2)):
                for n in (base(L, d) - 1, base(L, d), base(L, d) + 1):
                    if n < 1:
                        continue
                    sid += 1
                    out.append({"id": sid, "algo": a, "space": sname, "comps": SPACES[sname], "flag0": (sid % 2 == 0),
                                "n": n, "variant": 0, "boundary": True, "prepv": sid // 2,
                                "history": [(1, "compute", False, 0, False), (2, "execute", True, 2, False)]})
    return out


def scenarios(ck: Check, rng, hs):
    from gemseo.algos.doe.factory import DOELibraryFactory

    algos = sorted(DOELibraryFactory().algorithms)
    skipped = {a: "no settings table in the harness" for a in algos if a not in rec.ALGOS}
    ck.extra["skipped_algorithms"] = skipped
    out = []
    hi = 0
    sid = 0
    for a in algos:
        if a in skipped:
            continue
        takes_n = rec.ALGOS[a]["fam"] in ("exact", "exact2", "atmost", "diag", "fullfact", "axial", "factorial",
                                          "composite", "morris", "sobolidx")
        for si, (sname, comps) in enumerate(SPACES.items()):
            if takes_n:
                nvals = N_VALUES if ck.thorough else tuple(N_VALUES[(si + j + len(a)) % 5] for j in (0, 2))
            else:
                nvals = (0, 0) if ck.thorough else (0,)
            if a == "OT_OPT_LHS" and not ck.thorough:
                nvals = nvals[:1]
            for vi, n in enumerate(nvals):
                reps = 2 if ck.thorough else 1
                for rep in range(reps):
                    h = list(hs[hi % len(hs)])
                    hi += 1
                    sid += 1
                    sc = {"id": sid, "algo": a, "space": sname, "comps": comps, "flag0": (sid % 2 == 0), "n": n,
                          "variant": vi + rep + si, "history": h + probe(1 + (sid % 3)), "prepv": sid // 2}
                    if a == "PYDOE_CCDESIGN" and sc["variant"] % 3 == 2:
                        # circumscribed face: outside the cube by construction; executing it fails the
                        # design-space membership check and leaves an out-of-bounds current value behind
                        sc["history"] = [(i, "compute", sd, s, inj) for (i, _api, sd, s, inj) in sc["history"]]
                    if rec.ALGOS[a]["settings"] is None:
                        sc["custom"] = rec.custom_samples(comps, 1 + rng.randint(0, 5), rng)
                    out.append(sc)
    return out


def run(ck: Check):
    rng = random.Random(ck.seed)
    model_check(ck)
    hs = histories(ck, 3 if ck.thorough else 2)
    rng.shuffle(hs)
    scs = scenarios(ck, rng, hs)
    bnd = boundary_scenarios(ck, len(scs))
    ck.extra["boundary_scenarios"] = len(bnd)
    scs += bnd
    rec.WORKDIR = ck.work
    scs += rich_scenarios(ck, len(scs))
    t0 = time.time()
    traces = []
    meta = {}
    for sc in scs:
        try:
            tr = rec.run_scenario(sc)
        except Exception as ex:  # noqa: BLE001
            raise MachineryError(f"recorder failed on {sc['algo']} {sc['space']} n={sc['n']}: {ex!r}") from ex
        traces.append(tr)
        meta[sc["id"]] = sc
    ck.extra["record_wall_s"] = round(time.time() - t0, 1)
    # the design-space side of "the design space's variable order": how the spaces of the scenarios were obtained
    prep_kinds: dict[str, int] = {}
    for tr in traces:
        k = "dimension handed to compute_doe" if tr["asint"] else ("+".join(o["op"] for o in tr["prep"]) or "add_variable only")
        prep_kinds[k] = prep_kinds.get(k, 0) + 1
    ck.extra["design_space_preparation[scenarios]"] = prep_kinds
    for k in ("dimension handed to compute_doe", "add_variable only", "rename", "remove", "keep", "dims", "remove+rename"):
        if not prep_kinds.get(k):
            raise MachineryError(f"vacuity: no scenario on a design space obtained by '{k}'")
    validate(ck, traces, meta)
    ck.exhaustive = False
    ck.assumptions += [
        "PARTIAL: the unit samples of SciPy/pyDOE/OpenTURNS are opaque; assumption UnitCube is monitored on what the "
        "gemseo wrapper returned, not proved",
        "off-grid (random) samples: bounds/integrality/image clauses are evaluated by TLC on exact three-way comparison "
        "codes computed with fractions.Fraction on the doubles (image tolerance 4 ulp of the bound magnitude)",
        "test doubles on the library instance: recording Seeder subclass, wrapper of _generate_unit_samples",
        "user-provided structure (input forms and key orders of user-supplied designs, reversed variables, levels / "
        "centres per direction, initial point) is enumerated by TLC on dyadic values; the design spaces are prepared by "
        "DesignSpace operations (rename / remove / filter / filter_dimensions) whose effect on the order is computed by "
        "the specification; malformed user structure (wrong lengths, unknown names) is not exercised",
        "families outside C14's quantifier (pyDOE structured designs, OAT, Sobol'-indices design, Poisson disk) are "
        "recorded and validated too; their UnitCube/AtMostRequested failures are reported as observations, not violations",
    ]


def validate(ck: Check, traces, meta):
    obs: dict[str, dict[str, int]] = {}
    n_calls = 0
    batch = 400
    for b in range(0, len(traces), batch):
        chunk = traces[b:b + batch]
        f = ck.work / f"doe-traces-{b}.json"
        f.write_text(json.dumps(chunk))
        r = ck.tlc("DOETrace", cfg(g=rec.G, trace=True), workers=1, timeout=1500, count=False,
                   env={"TRACE_FILE": str(f)}, coverage=False)
        ck.states += r.distinct
        ck.transitions += r.generated
        verdict = {}
        for v in r.printed():
            if isinstance(v, tuple) and v and v[0] == "TRACE":
                verdict[v[1]] = (v[2], v[3], v[4])
        for t in chunk:
            sc = meta[t["id"]]
            if t["id"] not in verdict:
                raise MachineryError(f"no verdict for scenario {t['id']}")
            reached, total, fails = verdict[t["id"]]
            evs = t["events"]
            base = {"algo": sc["algo"], "space": sc["space"], "n": sc["n"], "flag0": sc["flag0"],
                    "raw": t["raw"], "prep": t["prep"], "asint": t["asint"],
                    "history": [list(h[:5]) for h in sc["history"]]}
            clean = reached == total
            if not clean:
                nxt = evs[reached] if reached < len(evs) else None
                ck.violation("TraceConformance", {"family": rec.ALGOS[sc["algo"]]["fam"], "event": nxt and nxt["ev"]},
                             dict(base, matched_prefix=reached, next_event=_short(nxt)))
            for (l, clause) in sorted(fails):
                if clause in MACHINERY_CLAUSES:
                    raise MachineryError(f"{clause} failed on scenario {t['id']} ({sc['algo']} {sc['space']}), event {l}: "
                                         f"{_short(evs[l - 1])}")
                e = evs[l - 1]
                call = _call_of(evs, l - 1)
                if clause == "IntNormRestored" and e["ev"] == "end" and not e.get("ok"):
                    # The flag left switched on after a call that RAISED is a side effect on the design
                    # space, not a clause of C14 as stated (bounds, types, count, seed, image): it is
                    # reported as an observation, not as a violation (DESIGN.md 9, C14).
                    clause = "IntNormRestoredAfterRaiseObs"
                if clause.endswith("Obs"):
                    obs.setdefault(clause, {}).setdefault(sc["algo"], 0)
                    obs[clause][sc["algo"]] += 1
                    continue
                clean = False
                sig = {"family": call["fam"], "p": call["p"], "api": call["api"], "event": e["ev"],
                       "outcome": ("ok" if e.get("ok") else "raise") if e["ev"] == "end" else "na",
                       "form": call["ux"]["form"], "n_variables": len({c["var"] for c in t["final"]})}
                if e["ev"] == "end" and not e.get("ok"):
                    sig["stage"] = evs[l - 2]["ev"]
                ck.violation(clause, sig, dict(base, event_index=l, call=_short(call), event=_short(e),
                                               previous_event=_short(evs[l - 2]) if l >= 2 else None))
            if clean:
                ck.traces += 1
            n_calls += sum(1 for e in evs if e["ev"] == "call")
        if len(ck.samples) < 4 and chunk:
            t = chunk[0]
            ck.sample({"algo": meta[t["id"]]["algo"], "space": meta[t["id"]]["space"], "n": meta[t["id"]]["n"],
                       "events": [_short(e) for e in t["events"][:6]]})
    grid_calls: dict[str, list[int]] = {}
    for t in traces:
        fam = meta[t["id"]].get("fam") or rec.ALGOS[meta[t["id"]]["algo"]]["fam"]
        for e in t["events"]:
            if e["ev"] == "sample":
                g = grid_calls.setdefault(fam, [0, 0])
                g[0] += 1
                g[1] += 1 if e["ugrid"] else 0
    ck.extra["sampled_calls_by_family[total,on_grid]"] = grid_calls
    ck.extra["scenarios"] = len(traces)
    ck.extra["calls_recorded"] = n_calls
    ck.extra["algorithms"] = sorted({meta[t["id"]]["algo"] for t in traces})
    ck.extra["outside_quantifier_observations"] = obs
    outcomes = {}
    for t in traces:
        for e in t["events"]:
            if e["ev"] == "end":
                k = "ok" if e["ok"] else "raise:" + e.get("exc", "")
                outcomes[k] = outcomes.get(k, 0) + 1
    ck.extra["call_outcomes"] = outcomes


def _call_of(evs, i):
    while i >= 0 and evs[i]["ev"] != "call":
        i -= 1
    return evs[max(i, 0)]


def _short(e):
    if e is None:
        return None
    out = {}
    for k, v in e.items():
        if k == "ux":
            out[k] = {kk: vv for kk, vv in v.items() if vv not in ([], 0, False, "none")}
        elif k in ("u", "x", "rowids", "keys") and isinstance(v, list) and len(v) > 6:
            out[k] = v[:6] + ["..."]
        else:
            out[k] = v
    return out


if __name__ == "__main__":
    main("C14", run)
