"""C04 - the reported optimum is the best point of the recorded history.

OptHistory.tla (pure enumeration, mechanism 3): TLC enumerates every history of a bounded family
(<= 3 points quick, <= 4 thorough; missing / NaN / values around the tolerances; scalar, float and
2-vector constraints of both types in both orders; tolerances; min/max x standardised/original),
checks the design-level theorem Acceptable(c,h,Select(c,h)) for the transcribed algorithm and emits
each instance.  Binding:
 (1) spec -> code: every emitted instance is built as a real Database + OptimizationProblem
     (c04_replay.py) and problem.optimum, OptimizationResult.from_optimization_problem,
     history.last_point, history.feasible_points are called;
 (2) code -> spec: their answers go back to TLC in JSON batches (OptHistoryReport.tla) which evaluates
     the relation `Acceptable` and prints, per instance, the first clause each answer breaks.
 (3) OptPareto.tla / OptParetoReport.tla: the same round trip for compute_pareto_optimal_points and
     ParetoFront.from_optimization_problem on <= 4 points x 2 objectives x feasibility flags.
The family is cut into balanced slices, each slice is handled by one worker process
(TLC -workers 1, replay, TLC -workers 1), at most 8 at a time.
"""
from __future__ import annotations

import json
import multiprocessing as mp
import os
from collections import Counter
from pathlib import Path

from ..core import Check, MachineryError, TLCResult, main, run_tlc
from . import c04_replay as R

INVS = ("Theorem", "CodedOutsideD8", "MeasureTheorem", "LastIsAPoint")
NPROC = 8
CHUNK = 25000          # reports judged per TLC start
D8_WHY = "minimal_only_if_recorded_violation_after_missing_constraint_is_ignored"
ACCEPTED_PARETO = ("ok", "no_front", "not_called", "nothing_to_report", "nothing_reported_all_candidates_duplicated")
CLASSES = ("feasible_with_objective", "feasible_without_usable_objective",
           "infeasible_fully_evaluated", "infeasible_partially_evaluated")


def enum_cfg(tier, units, emit=True):
    s = f'CONSTANTS Tier = "{tier}"\n Units = {{{", ".join(map(str, sorted(units)))}}}\nSPECIFICATION Spec\n'
    for i in INVS:
        s += f"INVARIANT {i}\n"
    if emit:
        s += "INVARIANT Emit\n"
    return s + "CHECK_DEADLOCK FALSE\n"


def report_cfg(tier):
    return (f'CONSTANTS Tier = "{tier}"\n Units = {{}}\nINIT RInit\nNEXT RNext\n'
            "INVARIANT Judge\nINVARIANT JudgeIsRelation\nCHECK_DEADLOCK FALSE\n")


def json_lines(out: str):
    """Values printed with PrintT(ToJson(v)): one TLA+ string per line."""
    for line in out.splitlines():
        if line.startswith('"') and line.endswith('"'):
            try:
                yield json.loads(json.loads(line))
            except ValueError:
                continue


def _tlc_failure(r: TLCResult, module):
    if r.violated:
        return f"specification {module} violates {r.violated}:\n{r.out[-2500:]}"
    if r.error or r.rc != 0:
        return f"TLC failed on {module}: {r.error or r.out[-2000:]}"
    return None


def _run(module, cfg, wd, **kw):
    r = run_tlc(module, cfg, wd, workers=1, coverage=False, **kw)
    stat = {"module": module, "distinct": r.distinct, "generated": r.generated, "wall_s": round(r.wall, 2)}
    return r, stat, _tlc_failure(r, module)


def physical(c, h):
    """The instance in the units of the implementation (for the replay file of a violation)."""
    out = []
    for pt in h:
        d = {}
        if pt["f"]:
            d["-f" if c["max"] else "f"] = R.dec(pt["f"][0])
        for k, s in enumerate(pt["c"]):
            if s:
                d[f"c{k + 1}"] = [R.dec(v) for v in s]
            if pt["g"][k]:
                d[f"@c{k + 1}"] = pt["g"][k]
        out.append(d)
    return {"constraints": [f"c{k + 1}:{con['ty']}:{'float' if con['d'] == 0 else con['d']}" for k, con in enumerate(c["cons"])],
            "tolerances": {"inequality": c["tolI"] / R.SCALE, "equality": c["tolE"] / R.SCALE},
            "minimize": not c["max"], "use_standardized_objective": c["std"],
            "database (x_i=[i], in order)": out}


def repro(c, h):
    """A stand-alone script that rebuilds the instance (for the replay file of a violation)."""
    lines = ["from numpy import array, nan",
             "from gemseo.algos.design_space import DesignSpace",
             "from gemseo.algos.optimization_problem import OptimizationProblem",
             "from gemseo.algos.optimization_result import OptimizationResult",
             "from gemseo.core.mdo_functions.mdo_function import MDOFunction",
             "ds = DesignSpace(); ds.add_variable('x', lower_bound=0., upper_bound=100., value=1.)",
             f"p = OptimizationProblem(ds, use_standardized_objective={c['std']})",
             "p.objective = MDOFunction(lambda x: x, 'f')"]
    for k, con in enumerate(c["cons"]):
        lines.append(f"p.add_constraint(MDOFunction(lambda x: x, 'c{k + 1}'), constraint_type='{con['ty']}')")
    if c["max"]:
        lines.append("p.minimize_objective = False")
    lines.append(f"p.tolerances.inequality = {c['tolI'] / R.SCALE}; p.tolerances.equality = {c['tolE'] / R.SCALE}")
    lines.append("p.preprocess_functions(is_function_input_normalized=False)")

    def lit(v):
        return "nan" if v == R.NAN else repr(v / R.SCALE)

    for i, pt in enumerate(h):
        out = []
        if pt["f"]:
            out.append(f"p.standardized_objective_name: " + (f"array([{lit(pt['f'][0])}])" if c["farr"] else lit(pt["f"][0])))
        for k, con in enumerate(c["cons"]):
            if pt["c"][k]:
                out.append(f"'c{k + 1}': " + (f"array([{', '.join(lit(v) for v in pt['c'][k])}])" if con["d"] >= 1 else lit(pt["c"][k][0])))
            if pt["g"][k]:
                out.append(f"'@c{k + 1}': array([[{float(pt['g'][k])}]] * {max(con['d'], 1)})")
        lines.append(f"p.database.store(array([{float(i + 1)}]), {{{', '.join(out)}}})")
    lines.append("print(p.optimum); print(p.history.last_point); print(OptimizationResult.from_optimization_problem(p))")
    return lines


class Agg:
    """Violations of one slice, aggregated by signature (count + first details)."""

    def __init__(self):
        self.v = {}

    def add(self, sig, detail):
        key = json.dumps(sig, sort_keys=True)
        e = self.v.setdefault(key, {"signature": sig, "count": 0, "details": []})
        e["count"] += 1
        if len(e["details"]) < 2:
            e["details"].append(detail)


def history_group(a):
    """One slice: TLC enumerates, the real code answers, TLC judges."""
    gid, tier, units, work = a
    os.environ["VERIF_TLC_HEAP"] = "3g -XX:ParallelGCThreads=2"  # many small JVMs side by side
    wd = Path(work) / f"g{gid:03d}"
    res = {"gid": gid, "error": None, "runs": [], "n": 0, "judged": 0, "viol": {}, "classes": Counter(),
           "design": Counter(), "conf": Counter(), "exc": Counter(), "samples": [], "verdicts": Counter()}
    try:
        r, stat, err = _run("OptHistory", enum_cfg(tier, units), wd, timeout=3000)
        res["runs"].append(stat)
        if err:
            res["error"] = err
            return res
        agg = Agg()
        batch, meta = [], []

        def judge():
            if not batch:
                return None
            f = wd / f"reports-{res['judged']}.json"
            f.write_text(json.dumps(batch))
            r2, stat2, err2 = _run("OptHistoryReport", report_cfg(tier), wd, timeout=3000, env={"TRACE_FILE": str(f)})
            res["runs"].append(stat2)
            if err2:
                return err2
            seen = 0
            for v in json_lines(r2.out):
                if not (isinstance(v, list) and v and v[0] == "V"):
                    continue
                _, tid, cls, optv, optwhy, resv, reswhy, lastv, fpv, measv, measwhy = v
                rec, errors = batch[tid - 1], meta[tid - 1]
                seen += 1
                res["verdicts"][("optimum", optv)] += 1
                res["verdicts"][("result", resv)] += 1
                res["verdicts"][("last_point", lastv)] += 1
                res["verdicts"][("feasible_points", fpv)] += 1
                res["verdicts"][("violation_measure", measv)] += 1
                for what, verdict, why, key in (("optimum", optv, optwhy, "opt"), ("result", resv, reswhy, "res"),
                                                ("last_point", lastv, "-", "last"), ("feasible_points", fpv, "-", "fp"),
                                                ("violation_measure", measv, measwhy, "vm")):
                    if verdict == "ok":
                        continue
                    sig = {"what": what, "clause": verdict, "cls": cls}
                    if why != "-":
                        sig["why"] = why
                    det = {"instance": physical(rec["c"], rec["h"]), "spec_instance": {"c": rec["c"], "h": rec["h"]},
                           "reported": rec[key], "repro": repro(rec["c"], rec["h"])}
                    if what in errors:
                        sig["exception"] = errors[what]["exception"]
                        det["exception"] = errors[what]["repr"]
                        det["traceback"] = errors[what]["traceback"]
                    agg.add(sig, det)
            f.unlink()
            if seen != len(batch):
                return f"OptHistoryReport judged {seen} of {len(batch)} reports"
            res["judged"] += seen
            batch.clear()
            meta.clear()
            return None

        for case in json_lines(r.out):
            if not (isinstance(case, dict) and "h" in case):
                continue
            c, h = case["c"], case["h"]
            rec, errors = R.replay(c, h)
            res["n"] += 1
            cls = case["cls"]
            res["classes"][cls] += 1
            res["design"][(cls, case["coded"]["v"], case["coded"]["why"])] += 1
            if case["fixed"]["v"] != "ok":
                res["error"] = f"repaired Select refused on {c} {h}"
                return res
            if rec["optb"]:
                res["conf"][(cls, "coded", rec["opt"] == case["coded"]["r"])] += 1
                res["conf"][(cls, "fixed", rec["opt"] == case["fixed"]["r"])] += 1
            for k, e in errors.items():
                res["exc"][(k, e["exception"], cls)] += 1
            if len(res["samples"]) < 2 and len(h) >= 2:
                res["samples"].append({"instance": physical(c, h), "optimum_reported": rec["opt"],
                                       "spec_select_as_coded": case["coded"]})
            batch.append(rec)
            meta.append(errors)
            if len(batch) >= CHUNK:
                err = judge()
                if err:
                    res["error"] = err
                    return res
        err = judge()
        if err:
            res["error"] = err
            return res
        if res["n"] != r.distinct:
            res["error"] = f"TLC found {r.distinct} instances, {res['n']} were emitted"
        res["viol"] = agg.v
    except MachineryError as ex:
        res["error"] = str(ex)
    return res


def pareto_chunk(a):
    cases, thorough = a
    out = []
    for cs in cases:
        # quick: the multi-objective result (which builds the front a second time) for <= 3 points
        rec, errors = R.replay_pareto(cs["pts"], with_result=thorough or len(cs["pts"]) <= 3)
        out.append((rec, errors, sorted(rec["mask"]) == sorted(cs["front"])))
    return out


def lpt(units, sizes, n_groups):
    groups = [[0, []] for _ in range(n_groups)]
    for u in sorted(units, key=lambda u: -sizes[u]):
        g = min(groups, key=lambda g: g[0])
        g[0] += sizes[u]
        g[1].append(u)
    return [g[1] for g in sorted(groups, key=lambda g: -g[0]) if g[1]]


def run(ck: Check):
    tier = ck.tier
    # ---- 0. the family: sizes printed by the specification (no state explored)
    r = ck.tlc("OptHistory", enum_cfg(tier, [], emit=False), workers=1, coverage=False, count=False, timeout=300)
    sizes = {}
    for v in r.printed():
        if isinstance(v, tuple) and v and v[0] == "SIZES":
            for i, (npts, nmax) in enumerate(v[1], 1):
                for m in range(1, nmax + 1):
                    sizes[10 * i + m] = npts ** m
    if not sizes:
        raise MachineryError("OptHistory did not print the sizes of its family")
    expected = sum(sizes.values())
    groups = lpt(list(sizes), sizes, NPROC if tier == "quick" else 5 * NPROC)
    ctx = mp.get_context("fork")
    with ctx.Pool(NPROC) as pool:
        # ---- 1-3. slices: enumerate (TLC), replay (gemseo), judge (TLC)
        it = pool.imap_unordered(history_group, [(g, tier, units, str(ck.work)) for g, units in enumerate(groups)])
        results = []
        for _ in groups:
            try:
                results.append(it.next(timeout=7200))   # a worker that died would otherwise block for ever
            except mp.TimeoutError:
                raise MachineryError("a slice did not come back within 2 h (worker process lost?)") from None
        results.sort(key=lambda x: x["gid"])
        for x in results:
            if x["error"]:
                raise MachineryError(f"slice {x['gid']} (units {groups[x['gid']]}): {x['error']}")
        merge_history(ck, results, expected)
        # ---- 4. Pareto clause
        pareto(ck, pool)
    ck.exhaustive = True
    ck.assumptions += [
        "values are dyadic (v/4): IEEE arithmetic is exact on every comparison the relation makes; ties of the "
        "violation measure may be broken differently by rounding (norm()**2) - the relation accepts any tie member",
        "feasible = every constraint recorded and within its tolerance (as DESIGN.md C04; the docstring of "
        "Constraints.is_point_feasible says a missing value counts as satisfied, the code says the opposite)",
        "the mono-objective rule is enumerated with scalar objectives (float or size-1 array); vector objectives "
        "only in the Pareto clause",
        "the Pareto relation does not demand completeness of the front",
        "a reported feasible point whose own objective is missing/NaN is not refused by 'no feasible point is "
        "strictly better' (the comparison is undefined); the code never reports such a point when another exists",
        "one OptimizationProblem object per configuration and worker process; its Database is emptied "
        "(Database.clear) between instances; odd points are stored in one call, even points output by output",
        "ParetoFront / MultiObjectiveOptimizationResult raise ValueError when the filter keeps no point: nothing is "
        "reported, accepted by the statement, counted in the evidence",
    ]


def merge_history(ck: Check, results, expected):
    tot = Counter()
    classes, design, conf, exc, verdicts = Counter(), Counter(), Counter(), Counter(), Counter()
    viol = {}
    runs = {}
    for x in results:
        tot["n"] += x["n"]
        tot["judged"] += x["judged"]
        classes.update(x["classes"])
        design.update(x["design"])
        conf.update(x["conf"])
        exc.update(x["exc"])
        verdicts.update(x["verdicts"])
        for s in x["samples"][:1]:
            ck.sample(s)
        for st in x["runs"]:
            a = runs.setdefault(st["module"], {"module": st["module"], "runs": 0, "distinct": 0, "generated": 0, "wall_s": 0.0, "coverage": {}})
            a["runs"] += 1
            a["distinct"] += st["distinct"]
            a["generated"] += st["generated"]
            a["wall_s"] = round(a["wall_s"] + st["wall_s"], 2)
        for key, e in x["viol"].items():
            a = viol.setdefault(key, {"signature": e["signature"], "count": 0, "details": []})
            a["count"] += e["count"]
            a["details"] = (a["details"] + e["details"])[:2]
    ck.tlc_runs += list(runs.values())
    ck.states += runs["OptHistory"]["distinct"]
    ck.transitions += runs["OptHistory"]["generated"]
    # ---- vacuity / completeness of the round trip
    if tot["n"] != expected:
        raise MachineryError(f"the family has {expected} instances, {tot['n']} were enumerated and replayed")
    if tot["judged"] != tot["n"]:
        raise MachineryError(f"{tot['n']} instances replayed, {tot['judged']} judged")
    for cls in CLASSES:
        if not classes[cls]:
            raise MachineryError(f"vacuity: no history of class {cls} in the family")
    for what in ("optimum", "result", "last_point", "feasible_points", "violation_measure"):
        if not verdicts[(what, "ok")]:
            raise MachineryError(f"vacuity: no accepted {what} report")
    ck.traces += tot["n"]
    # ---- violations (implementation answers refused by the relation)
    for key in sorted(viol):
        e = viol[key]
        sig = e["signature"]
        for k in range(e["count"]):
            ck.violation(sig["clause"], sig, dict(e["details"][min(k, len(e["details"]) - 1)], cases_with_this_signature=e["count"]))
    # ---- evidence
    ck.extra["instances"] = tot["n"]
    ck.extra["history_classes"] = dict(classes)
    ck.extra["verdicts"] = {f"{w}:{v}": n for (w, v), n in sorted(verdicts.items())}
    ck.extra["gemseo_exceptions"] = {f"{w}:{e}:{c}": n for (w, e, c), n in sorted(exc.items())}
    # design level: where the algorithm as transcribed (both D8 rules as on the pinned tree) breaks the theorem
    ck.extra["design_counterexamples_of_Select_as_coded"] = {
        f"{c}:{v}:{w}": n for (c, v, w), n in sorted(design.items()) if v != "ok"}
    # which transcription the implementation follows (informative: equality with Select is not demanded)
    def rate(cls_set, variant):
        yes = sum(n for (c, var, eq), n in conf.items() if c in cls_set and var == variant and eq)
        al = sum(n for (c, var, eq), n in conf.items() if c in cls_set and var == variant)
        return [yes, al]
    ck.extra["optimum_equals_Select"] = {
        "as_coded(break,empty)": rate(CLASSES, "coded"), "repaired(continue,first_feasible)": rate(CLASSES, "fixed"),
        "infeasible_partially_evaluated/as_coded": rate(("infeasible_partially_evaluated",), "coded"),
        "infeasible_partially_evaluated/repaired": rate(("infeasible_partially_evaluated",), "fixed"),
        "feasible_without_usable_objective/as_coded": rate(("feasible_without_usable_objective",), "coded"),
        "feasible_without_usable_objective/repaired": rate(("feasible_without_usable_objective",), "fixed"),
    }


PARETO_CFGS = {
    "quick": [(3, "{0, 1}", "TRUE"), (4, "{0, 1}", "FALSE")],
    "thorough": [(3, "{0, 1, 2}", "TRUE"), (4, "{0, 1}", "TRUE")],
}


def pareto_cfg(conf, report=False):
    s = f"CONSTANTS MaxPts = {conf[0]}\n ObjVals = {conf[1]}\n WithMissing = {conf[2]}\n"
    if report:
        return s + "INIT RInit\nNEXT RNext\nINVARIANT Judge\nINVARIANT JudgeIsRelation\nCHECK_DEADLOCK FALSE\n"
    return s + "INIT PInit\nNEXT PNext\nINVARIANT NonDominated\nINVARIANT Refuses\nINVARIANT PEmit\nCHECK_DEADLOCK FALSE\n"


def pareto(ck: Check, pool):
    n_total = 0
    mask_eq = Counter()
    verd = Counter()
    for conf in PARETO_CFGS[ck.tier]:
        r = ck.tlc("OptPareto", pareto_cfg(conf), workers=1, coverage=False, timeout=1500)
        cases = [c for c in json_lines(r.out) if isinstance(c, dict) and "pts" in c]
        if len(cases) != r.distinct or not cases:
            raise MachineryError(f"OptPareto: {r.distinct} instances, {len(cases)} emitted")
        k = max(1, len(cases) // (NPROC * 4))
        chunks = [cases[i:i + k] for i in range(0, len(cases), k)]
        out = [x for ch in pool.map(pareto_chunk, [(ch, ck.thorough) for ch in chunks]) for x in ch]
        recs = [x[0] for x in out]
        f = ck.work / "pareto-reports.json"
        f.write_text(json.dumps(recs))
        r2 = ck.tlc("OptParetoReport", pareto_cfg(conf, report=True), workers=1, coverage=False, timeout=1500,
                    count=False, env={"TRACE_FILE": str(f)})
        seen = 0
        for v in json_lines(r2.out):
            if not (isinstance(v, list) and v and v[0] == "P"):
                continue
            _, tid, maskv, frontv, mov = v
            rec, errors, eq = out[tid - 1]
            seen += 1
            mask_eq[eq] += 1
            verd[("filter", maskv)] += 1
            verd[("front", frontv)] += 1
            verd[("multiobjective_result", mov)] += 1
            for what, verdict, key, ekey in (("pareto_filter", maskv, "mask", "compute_pareto_optimal_points"),
                                            ("pareto_front", frontv, "front", "pareto_front"),
                                            ("multiobjective_result", mov, "mo", "multiobjective_result")):
                if verdict in ACCEPTED_PARETO:
                    continue
                sig = {"what": what, "clause": verdict}
                det = {"points (objective v/4, feasible)": rec["pts"], "reported": rec[key]}
                if ekey in errors:
                    sig["exception"] = errors[ekey]["exception"]
                    det["exception"] = errors[ekey]["repr"]
                    det["traceback"] = errors[ekey]["traceback"]
                ck.violation(verdict, sig, det)
        if seen != len(recs):
            raise MachineryError(f"OptParetoReport judged {seen} of {len(recs)} reports")
        n_total += seen
        if len(ck.samples) < 6:
            ck.sample({"pareto_points": recs[len(recs) // 2]["pts"], "front_reported": recs[len(recs) // 2]["front"]})
    if not verd[("front", "ok")] or not verd[("filter", "ok")] or not verd[("multiobjective_result", "ok")]:
        raise MachineryError("vacuity: no accepted Pareto report")
    ck.traces += n_total
    ck.extra["pareto_instances"] = n_total
    ck.extra["pareto_verdicts"] = {f"{w}:{v}": n for (w, v), n in sorted(verd.items())}
    ck.extra["pareto_filter_equals_transcription"] = [mask_eq[True], n_total]
    # outside the statement (nothing is reported), recorded as an observation: ParetoFront /
    # MultiObjectiveOptimizationResult raise ValueError when the filter keeps no point
    ck.extra["pareto_front_raises_when_the_filter_keeps_no_point"] = {
        "no_feasible_point_with_objective": verd[("front", "nothing_to_report")],
        "feasible_candidates_all_duplicated": verd[("front", "nothing_reported_all_candidates_duplicated")]}
    # ---- specification growth (outside C04 as stated): life cycle of scenarios executed repeatedly through
    # MDOScenarioAdapter - the adapter's outputs are the optimum of the inner run's recorded history
    from ..growth import g04_scenario_adapter

    g04_scenario_adapter.run(ck)


if __name__ == "__main__":
    main("C04", run)
