"""Stand-alone entry of the (parked, not wired) growth module g04_retry: bin/check G04R."""
from ..core import main
from ..growth.g04_retry import run

main("G04R", run)
