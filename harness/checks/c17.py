"""C17 - MDO formulations are equivalent views of the same problem (exact-arithmetic slice).

Specification: specs/Formulations.tla (+ MatC17.tla).
  1. TLC enumerates, as initial states, coupled systems of 1-4 disciplines with integer blocks whose coupling
     operator has I - B unimodular (topology x size profile x coupling blocks x seed, + two hand-written convex
     quadratic instances), computes the multidisciplinary solution exactly, and for every formulation
     F in {MDF, IDF, DOPT} x user-space variant x normalize_constraints either Build(F) - the design
     variables, and the value and Jacobian blocks of the objective and of every constraint at lattice points -
     or Reject(F).  The property clauses (SpacesExact, SameValues, ConsistencyVanishes, ConsistentDerivatives,
     StartsAtEquilibrium, ScalesDefined, DOptAgrees, OptimumKnown) are invariants checked by TLC on every state.
     Build of IDF also takes the OPTIONS that change how the formulation is built and started:
     start_at_equilibrium (eq), the execution of the disciplines (par: n_processes = 1, 2 threads, 2 processes) and
     the bounds the user gave to the coupling variables (bnd: both bounds everywhere / none / per component both,
     lower only, upper only).  The current design values of the design space differ from the default inputs of the
     disciplines.  The plain combination is enumerated for every instance, the others for one instance in OptMod
     (multiprocessing: one in OptMod * MpMod), all sequential / threaded ones for the optimum instances.
  2. spec -> code: every printed CASE is built with the real gemseo classes (MDF / IDF / DisciplinaryOpt on
     harness disciplines made of the printed blocks), `formulation.optimization_problem.objective/constraints
     .evaluate/.jac` are called at the printed lattice points, and design-variable names, values and Jacobian
     blocks are compared with what TLC printed (exactly for IDF and DOPT, 1e-9 for MDF whose couplings are
     solved by an MDA with tolerance 1e-14).  Every REJECT of IDF must raise.
     Also compared: the input masks (get_x_names_of_disc / get_x_mask_x_swap_order / mask / unmask), the start
     point of IDF(start_at_equilibrium=True) (StartsAtEquilibrium: the current value of the design space after the
     construction is the start point of the specification and the consistency constraints vanish there), and the
     design-variable sets of BiLevel and of its sub-scenarios.  A component of a normalised consistency constraint
     whose coupling has no finite width has an UNSPECIFIED scale in the specification (free): what the implementation
     returns must be the record divided by one finite positive constant (the same for the value and the Jacobian
     row at every point of the case).
     ResultsAreValues: within a case ALL points are evaluated first (values and Jacobians of every function, then the
     first point again), every returned array is kept as returned, and only afterwards is each kept array compared
     with the record of its own point (an array that was right when returned and is wrong later = aliasing of an
     internal buffer); on even seeds the disciplines that produce no coupling are quadratic so that the Jacobians
     depend on the point.  Two deliberately false claims must be refuted by TLC (the clauses are not vacuous).
  3. "reaches the same optimum": every MDF / IDF case printed for a quadratic instance (user-space variants, and
     for IDF every option combination) is optimised with MDOScenario + SLSQP and must end at the optimum known to
     the specification (1e-6).
Python only transports values: which MDA class / Jacobian storage / linearity declaration is used for a case
is drawn from the sets the specification prints (seeded); every expected number comes from TLC.
"""
from __future__ import annotations

import random

import numpy as np

from ..core import Check, MachineryError, main
from . import c17_disc

INVS = ["WellFormed", "DyadicBounds", "SpacesExact", "RejectExact", "MasksCover", "SameValues", "ConsistencyVanishes",
        "ConsistentDerivatives", "StartsAtEquilibrium", "ScalesDefined", "DOptAgrees", "ResultsAreValues", "OptimumKnown"]
PLAIN = dict(eqs=(False,), pars=("seq",), bnds=("fin",), opt_mod=1, mp_mod=1)   # the IDF options left at their plain values
ALL_TOPOS = ["pair", "pairf", "weak", "two", "cycle3", "tail", "self", "chain", "solo", "solou", "solo0", "chain0"]
MDA_TOL = 1e-14
TOL_MDF = 1e-9
# density of the IDF option combinations (OptMod, MpMod of the specification) per tier
Q_OPT_MOD, Q_MP_MOD = 8, 16
TH_OPT_MOD, TH_MP_MOD = 8, 32


def tla_set(xs):
    return "{" + ", ".join(f'"{x}"' if isinstance(x, str) else str(x) for x in xs) + "}"


def cfg(topos, profiles, choices, seeds, quads, emit=True, emit_mod=1, emit_res=(0,), false_claim=None,
        eqs=(False, True), pars=("seq", "thr", "mp"), bnds=("fin", "open", "half"), opt_mod=1, mp_mod=1):
    if False not in eqs or "seq" not in pars or "fin" not in bnds:
        raise MachineryError("the plain option values (eq=FALSE, seq, fin) must be enumerated: MDF/DOPT/BILEVEL are built with them")
    s = (f"CONSTANTS Topos = {tla_set(topos)}\n Profiles = {tla_set(profiles)}\n Choices = {tla_set(choices)}\n"
         f" Seeds = {tla_set(seeds)}\n Quads = {tla_set(quads)}\n EmitMod = {emit_mod}\n EmitRes = {tla_set(emit_res)}\n"
         f" Emit = {'TRUE' if emit else 'FALSE'}\n"
         f" Eqs = {{{', '.join('TRUE' if e else 'FALSE' for e in eqs)}}}\n Pars = {tla_set(pars)}\n Bnds = {tla_set(bnds)}\n"
         f" OptMod = {opt_mod}\n MpMod = {mp_mod}\n"
         f"SPECIFICATION Spec\nCHECK_DEADLOCK FALSE\n")
    for i in INVS:
        s += f"INVARIANT {i}\n"
    if false_claim:
        s += f"INVARIANT {false_claim}\n"
    s += "INVARIANT EmitOK\n"
    return s


# ------------------------------------------------------------------ TLA values -> python

def _seq(x):
    if isinstance(x, tuple):
        return list(x)
    if isinstance(x, dict):
        if not x:
            return []
        return [x[k] for k in range(1, len(x) + 1)]
    raise MachineryError(f"not a sequence: {x!r}")


def _vec(x):
    return np.array([float(v) for v in _seq(x)], dtype=float)


def _mat(x, ncols):
    rows = [[float(v) for v in _seq(r)] for r in _seq(x)]
    return np.array(rows, dtype=float).reshape(len(rows), ncols)


def parse_inst(key, rec):
    inst = {"key": list(key)}
    inst["D"] = [{"ins": sorted(d["ins"]), "outs": sorted(d["outs"]), "kind": d["kind"]} for d in _seq(rec["D"])]
    inst["space"] = list(_seq(rec["space"]))
    inst["obj"] = rec["obj"]
    inst["cons"] = [list(_seq(c)) for c in _seq(rec["cons"])]
    inst["size"] = dict(rec["size"])
    inst["J"] = {o: {i: [list(_seq(r)) for r in _seq(m)] for i, m in row.items()} for o, row in rec["J"].items()}
    for f in ("c0", "dflt", "cur", "lb", "ub"):
        inst[f] = {n: list(_seq(v)) for n, v in rec[f].items()}
    inst["declin"] = bool(rec["declin"])
    inst["nilp"] = bool(rec["nilp"])
    inst["solvers"] = sorted(rec["solvers"])
    inst["C"] = list(_seq(rec["C"]))
    inst["strong"] = sorted(rec["strong"])
    inst["params"] = sorted(rec["params"])
    inst["mdas"] = sorted(tuple(m) for m in rec["mdas"])
    inst["hasopt"] = bool(rec["hasopt"])
    if inst["hasopt"]:
        inst["opt"] = {"x": {n: list(_seq(v)) for n, v in rec["opt"]["x"].items()}, "f": list(_seq(rec["opt"]["f"]))}
    return inst


def printed_values(out: str):
    """Every value printed with PrintT (TLC wraps long values over many lines: accumulate until the brackets
    balance; no bound on the number of lines, an IDF case is several hundred lines long)."""
    from .. import tlaval

    vals, buf, depth = [], None, 0
    for line in out.splitlines():
        s = line.strip()
        if buf is None:
            if not s.startswith("<<"):
                continue
            buf, depth = [], 0
        buf.append(s)
        # (the strings printed by Formulations are names: no bracket inside a string)
        depth += (s.count("<<") + s.count("[") + s.count("{") + s.count("(")
                  - s.count(">>") - s.count("]") - s.count("}") - s.count(")"))
        if depth <= 0:
            try:
                vals.append(tlaval.parse_value(" ".join(buf)))
            except ValueError as ex:
                raise MachineryError(f"cannot parse a value printed by TLC: {ex}") from None
            buf = None
    if buf is not None:
        raise MachineryError("unterminated value in the output of TLC")
    return vals


PARTS = (("two", "chain", "solo"), ("pairf", "pair", "solo0", "chain0"), ("weak", "cycle3", "solou"), ("tail", "self"))


def run_spec(ck: Check, tag, **kw):
    """The instances are enumerated by topology: one TLC run (one worker each: the records are printed) per group of
    topologies, up to 4 at a time; the hand-written instances go with the last group."""
    from concurrent.futures import ThreadPoolExecutor

    topos, quads = list(kw["topos"]), list(kw["quads"])
    groups = [[t for t in part if t in topos] for part in PARTS]
    groups[0] += [t for t in topos if not any(t in part for part in PARTS)]
    jobs = [(g, quads if k == len(groups) - 1 else []) for k, g in enumerate(groups)]
    jobs = [(g, q) for g, q in jobs if g or q]
    if len(jobs) > 1 and not jobs[-1][0]:
        jobs[-2] = (jobs[-2][0], jobs[-1][1])
        jobs.pop()

    def one(job):
        k, (g, q) = job
        # (TLC's coverage statistics double the CPU time of these runs: every successor state prints its record - CASE
        #  after Build, REJECT after Reject - and the records are counted instead, see below)
        return ck.tlc("Formulations", cfg(**dict(kw, topos=g, quads=q)), workers=1, timeout=900, coverage=False,
                      tag=f"{tag}-{k}")

    with ThreadPoolExecutor(max_workers=4) as ex:
        runs = list(ex.map(one, enumerate(jobs)))
    insts, cases, rejects = {}, [], []
    distinct = sum(r.distinct for r in runs)
    r = runs[0]
    for v in [x for rr in runs for x in printed_values(rr.out)]:
        if not isinstance(v, tuple) or not v:
            continue
        if v[0] == "INST":
            insts[tuple(v[1])] = parse_inst(v[1], v[2])
        elif v[0] == "CASE":
            cases.append({"key": tuple(v[1]), "form": v[2], "G": list(_seq(v[3])), "res": v[4], "jacvaries": bool(v[5])})
        elif v[0] == "REJECT":
            rejects.append({"key": tuple(v[1]), "F": v[2], "gsv": v[3], "G": list(_seq(v[4]))})
    if not insts or not cases:
        raise MachineryError(f"Formulations printed no instance/case ({tag})")
    if kw.get("emit", True) and not rejects:
        raise MachineryError("vacuity: action Reject of Formulations never taken")
    ck.extra.setdefault("actions_taken", {})
    for a, n in (("Init", len(insts)), ("Build", len(cases)), ("Reject", len(rejects))):
        ck.extra["actions_taken"][a] = ck.extra["actions_taken"].get(a, 0) + n
    for c in cases:
        if c["key"] not in insts:
            raise MachineryError(f"CASE without INST: {c['key']}")
    # nothing may be lost between TLC and the replay: one INST per initial state, one CASE / REJECT per successor
    if kw.get("emit_mod", 1) == 1 and len(insts) + len(cases) + len(rejects) != distinct:
        raise MachineryError(f"{distinct} states but {len(insts)} INST + {len(cases)} CASE + {len(rejects)} REJECT records")
    return r, insts, cases, rejects


# ------------------------------------------------------------------ building the real formulations

def mda_settings(solver, main):
    def base(cls):
        # (MDAJacobi runs its disciplines in a thread pool by default: parallel execution is C13's business)
        return {"tolerance": MDA_TOL, "max_mda_iter": 60, **({"n_processes": 1} if cls == "MDAJacobi" else {})}

    if main == "MDAChain":
        return {"tolerance": MDA_TOL, "max_mda_iter": 60, "inner_mda_name": solver, "inner_mda_settings": base(solver)}
    return base(main)


def form_options(form):
    """The options of a printed form (MDF / DOPT / BILEVEL forms carry the plain values)."""
    return {"eq": bool(form["eq"]), "par": form["par"], "bnd": form["bnd"]}


def idf_settings(norm, opts, solver):
    """IDF's settings for the options of the specification: normalize_constraints, start_at_equilibrium (with an MDA
    of the class `solver`, one the specification admits for the system), n_processes / use_threading."""
    kw = {"normalize_constraints": norm}
    if opts["eq"]:
        kw.update(start_at_equilibrium=True, mda_chain_settings_for_start_at_equilibrium=mda_settings(solver, "MDAChain"))
    if opts["par"] != "seq":
        # the functions are then built on one MDOParallelChain of all the disciplines
        kw.update(n_processes=2, use_threading=opts["par"] == "thr")
    return kw


def build_formulation(inst, F, G, norm, conf, bounds=None):
    from gemseo.formulations.disciplinary_opt import DisciplinaryOpt
    from gemseo.formulations.idf import IDF
    from gemseo.formulations.mdf import MDF

    discs = c17_disc.build_disciplines(inst, jac_kind=conf["jac_kind"], declare_linear=conf["declare_linear"])
    space = c17_disc.build_space(inst, G, bounds)
    if F == "MDF":
        fm = MDF(discs, inst["obj"], space, main_mda_name=conf["main_mda"],
                 main_mda_settings=mda_settings(conf["solver"], conf["main_mda"]))
    elif F == "IDF":
        fm = IDF(discs, inst["obj"], space, **idf_settings(norm, conf["opts"], conf["solver"]))
    else:
        fm = DisciplinaryOpt(discs, inst["obj"], space)
    for c in inst["cons"]:
        fm.add_constraint(c if len(c) > 1 else c[0], constraint_type="ineq")
    return fm


def draw_conf(rng, inst, form):
    F = form["F"]
    conf = {"jac_kind": rng.choice(["dense", "dense", "sparse"]), "declare_linear": inst["declin"],
            "main_mda": "-", "solver": "-", "opts": form_options(form)}
    if F == "MDF":
        conf["main_mda"], conf["solver"] = rng.choice(inst["mdas"])
    if F == "IDF" and conf["opts"]["eq"]:
        conf["solver"] = rng.choice(inst["solvers"])   # the inner MDA of the start-up MDAChain
    return conf


def parse_bounds(res):
    """res.bounds: for every variable of the user space, which components have a lower / an upper bound."""
    return {v: {"haslb": [bool(b) for b in _seq(r["haslb"])], "hasub": [bool(b) for b in _seq(r["hasub"])]}
            for v, r in dict(res["bounds"]).items()} if res["bounds"] else None


def guard(ck: Check, clause, sig, detail, fn, *a):
    """ck.guard + the gemseo function in which the exception was raised (part of the signature)."""
    import traceback

    try:
        return True, fn(*a)
    except Exception as ex:  # noqa: BLE001
        frames = [f for f in traceback.extract_tb(ex.__traceback__) if "/gemseo/" in f.filename]
        where = frames[-1].name if frames else "?"
        ck.violation(clause, dict(sig, exception=type(ex).__name__, raised_in=where),
                     dict(detail, exception=repr(ex), traceback=traceback.format_exc(limit=8)))
        return False, None


def classes(inst, F, G, space):
    """Input classes used in violation signatures (all derived from what the specification printed)."""
    return {"formulation": F, "declared_linear": None, "parameters": bool(inst["params"]),
            "space_has_dropped_variables": sorted(set(G)) != sorted(set(space)),
            "topology": inst["key"][0]}


def _expected_fn(fr, order, sizes):
    """Value and Jacobian of a function record; free[r]: the scale of component r is unspecified (any finite
    positive constant, the same for the value and the Jacobian at every point)."""
    val = _vec(fr["val"])
    den = _vec(fr["den"])
    jac = np.hstack([_mat(fr["jac"][v], sizes[v]) for v in order]) if order else np.zeros((len(val), 0))
    free = np.array([bool(b) for b in _seq(fr["free"])], dtype=bool)
    return val / den, jac / den[:, None], free


def free_scales(kept):
    """For every component whose scale the specification leaves free: the constant s > 0 such that
    s * (what the implementation returned) is the record of the specification, taken from the first non-zero entry
    of the records (None when the implementation returned there 0 or a non-finite number: no such constant)."""
    scales = {}
    for _step, _k, label, what, _obj, snap, exp, free in kept:
        if not free.any() or snap.shape != exp.shape:
            continue
        for r in np.flatnonzero(free):
            if (label, r) in scales:
                continue
            e, g = np.atleast_1d(exp[r]).ravel(), np.atleast_1d(snap[r]).ravel()
            nz = np.flatnonzero(e)
            if nz.size:
                q = e[nz[0]] / g[nz[0]] if g[nz[0]] != 0 else np.inf
                scales[(label, r)] = float(q) if np.isfinite(q) and q > 0 else None
    return scales


def _rescaled(label, arr, free, scales):
    """The returned array with the free components brought to the scale of the record (nan: no admissible scale)."""
    if not free.any() or arr.shape[0] != free.shape[0]:
        return arr
    out = np.array(arr, dtype=float)
    for r in np.flatnonzero(free):
        sc = scales.get((label, r), 1.0)
        out[r] = out[r] * sc if sc is not None else np.nan
    return out


def replay_bilevel(ck: Check, rng, inst, case):
    """Variable sets only: the system-level design space and the design space of every sub-scenario."""
    from gemseo.formulations.bilevel import BiLevel
    from gemseo.scenarios.mdo_scenario import MDOScenario

    G = case["G"]
    res = case["res"]
    exp_space = list(_seq(res["space"]))
    subs = [list(_seq(x)) for x in _seq(res["subs"])]
    main = rng.choice([m for m in inst["mdas"] if m[0] != "MDAChain"] or inst["mdas"])
    sig = {"formulation": "BILEVEL", "topology": inst["key"][0], "variant": case["form"]["gsv"], "declared_linear": False,
           "couplings": bool(inst["C"]), "main_mda": main[0]}
    desc = {"instance": inst, "user_space": G, "sub_scenario_variables": subs, "main_mda": list(main)}

    def go():
        discs = c17_disc.build_disciplines(inst)
        members = []
        for d, loc in enumerate(subs):
            if loc:
                sc = MDOScenario([discs[d]], sorted(inst["D"][d]["outs"])[0], c17_disc.build_space(inst, loc),
                                 formulation_name="DisciplinaryOpt", name=f"sub{d + 1}")
                sc.set_algorithm(algo_name="SLSQP", max_iter=5)
                members.append(sc)
            else:
                members.append(discs[d])
        fm = BiLevel(members, inst["obj"], c17_disc.build_space(inst, G), main_mda_name=main[0],
                     main_mda_settings=mda_settings(main[1], main[0]))
        return fm, members

    ok, out = guard(ck, "Build", sig, desc, go)
    if not ok:
        return False
    fm, members = out
    names = list(fm.optimization_problem.design_space.variable_names)
    got_subs = [list(m.formulation.optimization_problem.design_space.variable_names) if loc else []
                for m, loc in zip(members, subs)]
    if names != exp_space or got_subs != subs:
        ck.violation("SpacesExact", sig, dict(desc, spec_space=exp_space, impl_space=names, impl_sub_scenario_variables=got_subs))
        return False
    return True


def replay_case(ck: Check, rng, inst, case, mda=None):
    if case["form"]["F"] == "BILEVEL":
        return replay_bilevel(ck, rng, inst, case)
    F, gsv, norm = case["form"]["F"], case["form"]["gsv"], bool(case["form"]["norm"])
    G = case["G"]
    res = case["res"]
    exp_space = list(_seq(res["space"]))
    maydrop = set(res["maydrop"])
    conf = draw_conf(rng, inst, case["form"])
    if mda is not None:
        conf["main_mda"], conf["solver"] = mda
    opts = conf["opts"]
    bounds = parse_bounds(res)
    sig = classes(inst, F, G, exp_space)
    sig["declared_linear"] = conf["declare_linear"]
    sig.update(variant=gsv, normalize=norm, main_mda=conf["main_mda"], couplings=bool(inst["C"]),
               start_at_equilibrium=opts["eq"], execution=opts["par"], coupling_bounds=opts["bnd"])
    desc = {"instance": inst, "formulation": F, "user_space": G, "normalize_constraints": norm, "conf": conf,
            "bounds_given": bounds}
    ok, fm = guard(ck, "Build", sig, desc, build_formulation, inst, F, G, norm, conf, bounds)
    if not ok:
        return False
    pb = fm.optimization_problem
    names = list(pb.design_space.variable_names)
    if F == "IDF":
        key = f"idf_cases[eq={int(opts['eq'])},{opts['par']},{opts['bnd']},norm={int(norm)}]"
        ck.extra.setdefault("idf_option_combinations", {})
        ck.extra["idf_option_combinations"][key] = ck.extra["idf_option_combinations"].get(key, 0) + 1
    # ---- SpacesExact
    allowed = [exp_space] + ([[v for v in exp_space if v not in maydrop]] if maydrop else [])
    if names not in allowed:
        ck.violation("SpacesExact", sig, dict(desc, spec_space=exp_space, may_drop=sorted(maydrop), impl_space=names))
        return False
    sizes = inst["size"]
    pts = _seq(res["pts"])
    ncc = pts[0]["ncc"]
    n_exp = ncc + len(inst["cons"])
    if len(pb.constraints) != n_exp:
        ck.violation("Constraints", sig, dict(desc, spec_n_constraints=n_exp, spec_n_consistency=ncc,
                                              impl=[c.name for c in pb.constraints]))
        return False
    if F == "IDF" and not check_start(ck, inst, case, fm, names, sig, desc):
        return False
    discs = list(fm.disciplines)
    if names == exp_space:
        # ---- input masks (public helpers of the formulation the adapters are built on)
        for d, mk in enumerate(_seq(res["masks"])):
            want_names, want_idx = list(_seq(mk["names"])), [int(i) for i in _seq(mk["idx"])]
            got_names = list(fm.get_x_names_of_disc(discs[d]))
            got_idx = [int(i) for i in fm.get_x_mask_x_swap_order(got_names)] if got_names else []
            ck.extra["masks_compared"] = ck.extra.get("masks_compared", 0) + 1
            if got_names != want_names or got_idx != want_idx:
                ck.violation("Masks", sig, dict(desc, discipline=d + 1, spec={"names": want_names, "idx": want_idx},
                                                impl={"names": got_names, "idx": got_idx}, design_variables=names))
                return False
            if want_idx:
                n = int(pb.design_space.dimension)
                back = fm.unmask_x_swap_order(want_names, np.arange(1.0, len(want_idx) + 1))
                exp_back = np.zeros(n)
                exp_back[want_idx] = np.arange(1.0, len(want_idx) + 1)
                fwd = fm.mask_x_swap_order(want_names, np.arange(float(n)))
                if not (np.array_equal(back, exp_back) and np.array_equal(fwd, np.array(want_idx, dtype=float))):
                    ck.violation("Masks", dict(sig, helper="mask/unmask"),
                                 dict(desc, discipline=d + 1, spec_idx=want_idx, unmask=back.tolist(), mask=fwd.tolist()))
                    return False
    exact = F != "MDF"
    if gsv != "full":
        pts = pts[:1]  # the functions do not depend on the variant of the user space: one point is enough there
    # ---- ResultsAreValues + SameValues / ConsistencyVanishes / ConsistentDerivatives.
    # History: every point of the case is evaluated FIRST (values and Jacobians of every function), the first point
    # once more at the end; every returned object is KEPT as returned (no copy) next to a snapshot taken at once;
    # only then is each kept array compared with the record of the specification for ITS point.
    order = list(range(len(pts))) + [0]
    xs = [np.concatenate([_vec(pt["x"][v]) for v in names]) if names else np.zeros(0) for pt in pts]
    kept = []  # (step, point, label, what, returned object, snapshot, expected)
    for step, k in enumerate(order):
        pt = pts[k]
        fns = [("objective", pb.objective, pt["obj"])]
        fns += [(f"consistency[{j}]" if j < ncc else f"constraint[{j - ncc}]", pb.constraints[j], fr)
                for j, fr in enumerate(_seq(pt["cons"]))]
        for label, fn, fr in fns:
            ev, ej, free = _expected_fn(fr, names, sizes)
            psig = dict(sig, function=label.split("[")[0])
            pdesc = dict(desc, point=k, step=step, x={v: list(_seq(pt["x"][v])) for v in names}, design_variables=names)
            okv, gv = guard(ck, "Evaluate", dict(psig, what="value"), pdesc, lambda f=fn, x=xs[k]: f.evaluate(x.copy()))
            okj, gj = guard(ck, "Evaluate", dict(psig, what="jac"), pdesc, lambda f=fn, x=xs[k]: f.jac(x.copy()))
            if not (okv and okj):
                return False
            kept.append((step, k, label, "value", gv, _as_array(gv, 1).copy(), ev, free))
            kept.append((step, k, label, "jacobian", gj, _as_array(gj, 2).copy(), ej, free))
            if free.any():
                ck.extra["components_with_a_free_scale_compared"] = \
                    ck.extra.get("components_with_a_free_scale_compared", 0) + int(free.sum())
            ck.extra["function_values_compared"] = ck.extra.get("function_values_compared", 0) + 1
    bad, stale = [], []
    scales = free_scales(kept)
    for step, k, label, what, obj, snap, exp, free in kept:
        now = _as_array(obj, 1 if what == "value" else 2)
        if snap.shape != exp.shape or not _same_fn(_rescaled(label, snap, free, scales), exp, free, exact):
            bad.append({"function": label, "what": what, "point": k, "step": step, "impl": snap.tolist(), "spec": exp.tolist(),
                        **({"components_with_an_unspecified_positive_scale": np.flatnonzero(free).tolist()} if free.any() else {})})
        elif now.shape != exp.shape or not _same_fn(_rescaled(label, now, free, scales), exp, free, exact):
            stale.append({"function": label, "what": what, "point": k, "step": step, "returned_then": snap.tolist(),
                          "same_object_after_the_later_evaluations": now.tolist(), "spec": exp.tolist()})
    ck.extra["results_kept_over_later_evaluations"] = ck.extra.get("results_kept_over_later_evaluations", 0) + len(kept)
    if len(pts) > 1 and F in ("MDF", "DOPT") and case.get("jacvaries"):
        ck.extra["cases_with_point_dependent_jacobians_kept"] = ck.extra.get("cases_with_point_dependent_jacobians_kept", 0) + 1
    xdesc = {"points": [{v: list(_seq(pt["x"][v])) for v in names} for pt in pts], "evaluation_order": order,
             "design_variables": names}
    if bad:
        kinds = {b["function"].split("[")[0] + ":" + b["what"] for b in bad}
        clause = "ConsistencyVanishes" if (kinds <= {"consistency:value", "consistency:jacobian"} and "consistency:value" in kinds) else \
                 "ConsistentDerivatives" if all(b["what"] == "jacobian" for b in bad) else "SameValues"
        ck.violation(clause, dict(sig, wrong=sorted(kinds)), dict(desc, **xdesc, wrong=bad[:6], n_wrong=len(bad)))
        return False
    if stale:
        kinds = {b["function"].split("[")[0] + ":" + b["what"] for b in stale}
        ck.violation("ResultsAreValues", dict(sig, wrong=sorted(kinds)),
                     dict(desc, **xdesc, wrong=stale[:6], n_wrong=len(stale),
                          note="the array returned for a point changed when a later point was evaluated"))
        return False
    return True


def _as_array(obj, ndim):
    """View (not a copy, when the object is a float ndarray) of a returned value / Jacobian as a 1-D / 2-D array."""
    a = np.asarray(_dense(obj), dtype=float)
    return np.atleast_1d(a) if ndim == 1 else np.atleast_2d(a)


def check_start(ck: Check, inst, case, fm, names, sig, desc):
    """StartsAtEquilibrium: the current value of the design space after the construction of IDF.  With
    start_at_equilibrium it is the start point of the specification (design values untouched, coupling targets at the
    multidisciplinary solution for them; 1e-9: the couplings are solved by an MDA) and the consistency constraints
    vanish there.  (Without the option the property says nothing of the current value: nothing is compared.)"""
    res = case["res"]
    if not case["form"]["eq"]:
        return True
    ds = fm.optimization_problem.design_space
    cur = ds.get_current_value(as_dict=True)
    start = res["start"]
    cpl = set(inst["C"])
    bad = {}
    for v in names:
        got, want = np.asarray(cur[v], dtype=float), _vec(start[v])
        if got.shape != want.shape or not (np.allclose(got, want, rtol=0, atol=TOL_MDF) if v in cpl else np.array_equal(got, want)):
            bad[v] = {"impl": got.tolist(), "spec": want.tolist()}
    if not bad:
        x0 = ds.get_current_value()
        ncc = _seq(res["pts"])[0]["ncc"]
        for j in range(ncc):
            v = np.atleast_1d(np.asarray(fm.optimization_problem.constraints[j].evaluate(x0), dtype=float))
            if not np.allclose(v, 0.0, rtol=0, atol=TOL_MDF):
                bad[f"consistency[{j}]"] = {"impl": v.tolist(), "spec": "0"}
    ck.extra["equilibrium_starts_replayed"] = ck.extra.get("equilibrium_starts_replayed", 0) + 1
    dfl = res["eq"]["dfl"]
    if any(list(_seq(dfl[v])) != list(_seq(start[v])) for v in cpl):
        # (the multidisciplinary solution at the default inputs of the disciplines is another point)
        ck.extra["equilibrium_starts_that_differ_from_the_equilibrium_of_the_defaults"] = \
            ck.extra.get("equilibrium_starts_that_differ_from_the_equilibrium_of_the_defaults", 0) + 1
        if case["form"]["par"] != "seq":
            ck.extra["...of_which_with_n_processes_2"] = ck.extra.get("...of_which_with_n_processes_2", 0) + 1
    if bad:
        ck.violation("StartsAtEquilibrium", sig,
                     dict(desc, wrong=bad, spec_start={v: list(_seq(start[v])) for v in names},
                          equilibrium_of_the_default_inputs={v: list(_seq(dfl[v])) for v in sorted(cpl)}))
        return False
    return True


def _dense(m):
    return m.toarray() if hasattr(m, "toarray") else m


def _same(a, b, exact):
    if exact:
        return bool(np.array_equal(a, b))
    return bool(np.allclose(a, b, rtol=TOL_MDF, atol=TOL_MDF))


def _same_fn(a, b, free, exact):
    """Components with a free scale were rescaled by a quotient of floats: compared to 1e-12 (relative)."""
    if not free.any():
        return _same(a, b, exact)
    return _same(a[~free], b[~free], exact) and bool(np.allclose(a[free], b[free], rtol=1e-12, atol=0.0))


def replay_reject(ck: Check, inst, rj):
    """IDF on a space that lacks a coupling must raise (documented ValueError)."""
    sig = {"formulation": "IDF", "variant": rj["gsv"], "topology": inst["key"][0]}
    conf = {"jac_kind": "dense", "declare_linear": False, "main_mda": "-", "solver": "-",
            "opts": {"eq": False, "par": "seq", "bnd": "fin"}}
    try:
        fm = build_formulation(inst, "IDF", rj["G"], False, conf)
    except ValueError:
        return True
    except Exception as ex:  # noqa: BLE001
        ck.violation("Reject", dict(sig, exception=type(ex).__name__),
                     {"instance": inst, "user_space": rj["G"], "exception": repr(ex)})
        return False
    ck.violation("Reject", dict(sig, exception="none"),
                 {"instance": inst, "user_space": rj["G"], "missing_couplings": sorted(set(inst["C"]) - set(rj["G"])),
                  "impl_space": list(fm.optimization_problem.design_space.variable_names)})
    return False


# ------------------------------------------------------------------ "reaches the same optimum"

def replay_optimum(ck: Check, rng, inst, case, solver):
    """MDOScenario + SLSQP on the formulation of a printed case (its user space, its options) of an instance whose
    optimum the specification knows."""
    from gemseo.scenarios.mdo_scenario import MDOScenario

    form, G = case["form"], case["G"]
    F, norm, opts = form["F"], bool(form["norm"]), form_options(form)
    bounds = parse_bounds(case["res"])
    sig = {"formulation": F, "topology": "quad", "instance": inst["key"][3], "normalize": norm, "clause": "SameOptimum",
           "variant": form["gsv"], "start_at_equilibrium": opts["eq"], "execution": opts["par"], "coupling_bounds": opts["bnd"]}
    desc = {"instance": inst, "formulation": F, "user_space": G, "solver": solver, "options": opts, "bounds_given": bounds}

    def go():
        discs = c17_disc.build_disciplines(inst)
        space = c17_disc.build_space(inst, G, bounds)
        kw = {"main_mda_name": "MDAChain", "main_mda_settings": mda_settings(solver, "MDAChain")} if F == "MDF" \
            else idf_settings(norm, opts, solver)
        sc = MDOScenario(discs, inst["obj"], space, formulation_name=F, **kw)
        for c in inst["cons"]:
            sc.add_constraint(c if len(c) > 1 else c[0], constraint_type="ineq")
        sc.execute(algo_name="SLSQP", max_iter=200, ftol_rel=1e-15, ftol_abs=1e-15, xtol_rel=1e-15, xtol_abs=1e-15,
                   eq_tolerance=1e-10, ineq_tolerance=1e-10)
        return sc

    ok, sc = guard(ck, "SameOptimum", sig, desc, go)
    if not ok:
        return False
    r = sc.optimization_result
    names = list(sc.formulation.optimization_problem.design_space.variable_names)
    xd = sc.formulation.optimization_problem.design_space.convert_array_to_dict(np.asarray(r.x_opt, dtype=float))
    f_spec = float(inst["opt"]["f"][0])
    bad = {}
    if not abs(float(r.f_opt) - f_spec) <= 1e-6:
        bad["f_opt"] = {"impl": float(r.f_opt), "spec": f_spec}
    for v, xv in inst["opt"]["x"].items():
        if v not in xd or not np.allclose(xd[v], np.array(xv, dtype=float), rtol=0, atol=1e-6):
            bad[v] = {"impl": np.asarray(xd.get(v, [])).tolist(), "spec": list(xv)}
    if not r.is_feasible:
        bad["is_feasible"] = {"impl": False, "spec": True}
    if bad:
        ck.violation("SameOptimum", sig, dict(desc, wrong=bad, design_variables=names, n_iter=r.n_obj_call))
        return False
    return True


# ------------------------------------------------------------------ the check

def run(ck: Check):
    rng = random.Random(ck.seed)
    th = ck.thorough
    if th:
        plan = dict(topos=ALL_TOPOS, profiles=[0, 5, 42, 341, 682, 1023], seeds=[1, 2, 3, 4],
                    choices=[0, 1, 2, 3, 7, 8, 9, 13, 14, 16, 19, 20, 21, 26, 27, 33, 40, 100, 200, 300, 437, 651, 777, 1000, 1295],
                    quads=[1, 2], opt_mod=TH_OPT_MOD, mp_mod=TH_MP_MOD)
    else:
        plan = dict(topos=ALL_TOPOS, profiles=[0, 341], seeds=[1, 2],
                    choices=[0, 1, 9, 14, 19, 26, 100, 300], quads=[1, 2], opt_mod=Q_OPT_MOD, mp_mod=Q_MP_MOD)
    r, insts, cases, rejects = run_spec(ck, "main", **plan)
    ck.extra["instances"] = len(insts)
    ck.extra["instances_by_topology"] = {t: sum(1 for k in insts if k[0] == t) for t in sorted({k[0] for k in insts})}
    ck.extra["cases_printed"] = len(cases)
    ck.extra["rejects_printed"] = len(rejects)
    ck.extra["nilpotent_instances"] = sum(1 for i in insts.values() if i["nilp"])
    n_ok = 0
    for c in cases:
        inst = insts[c["key"]]
        good = replay_case(ck, rng, inst, c)
        ck.traces += 1
        n_ok += int(good)
        if th and c["form"]["F"] == "MDF" and c["form"]["gsv"] == "full":
            # "all inner MDA choices": every MDA configuration the specification admits for this system
            for mda in inst["mdas"]:
                replay_case(ck, rng, inst, c, mda=mda)
                ck.traces += 1
                ck.extra["mdf_cases_x_mda_configurations"] = ck.extra.get("mdf_cases_x_mda_configurations", 0) + 1
        if good and c["form"]["F"] == "IDF" and inst["C"]:
            p0 = _seq(c["res"]["pts"])[0]
            ck.sample({"instance": list(c["key"]), "formulation": dict(c["form"]), "user_space": c["G"],
                       "design_variables": list(_seq(c["res"]["space"])),
                       "point": {v: list(_seq(x)) for v, x in p0["x"].items()},
                       "objective": list(_seq(p0["obj"]["val"])),
                       "constraints": [[list(_seq(f["val"])), list(_seq(f["den"]))] for f in _seq(p0["cons"])]})
    ck.extra["cases_replayed"] = len(cases)
    # (vacuity is a property of what the specification printed, not of how far the replay of a case went)
    ck.extra["cases_with_point_dependent_jacobians"] = sum(
        1 for c in cases if c["form"]["F"] in ("MDF", "DOPT") and c["form"]["gsv"] == "full" and c["jacvaries"])
    if ck.extra["cases_with_point_dependent_jacobians"] < 10:
        raise MachineryError("fewer than 10 MDF/DOPT cases with point-dependent Jacobians: ResultsAreValues would be vacuous")
    ck.extra["cases_by_formulation"] = {f: sum(1 for c in cases if c["form"]["F"] == f) for f in ("MDF", "IDF", "DOPT", "BILEVEL")}
    if not all(ck.extra["cases_by_formulation"].values()):
        raise MachineryError(f"a formulation was never built: {ck.extra['cases_by_formulation']}")
    ck.extra["cases_agreeing"] = n_ok
    n_rej = 0
    for rj in rejects:
        if rj["F"] == "IDF":
            replay_reject(ck, insts[rj["key"]], rj)
            n_rej += 1
            ck.traces += 1
    ck.extra["idf_rejects_replayed"] = n_rej
    if n_rej == 0:
        raise MachineryError("no IDF Reject was replayed")
    # ---- vacuity of the option dimensions: what the specification enumerated and the replay built
    combos = ck.extra.get("idf_option_combinations", {})

    def n_combos(pred):
        return sum(n for k, n in combos.items() if pred(k))

    need = {"equilibrium_starts_replayed": ck.extra.get("equilibrium_starts_replayed", 0),
            "equilibrium starts with n_processes = 2 at design values that are not the defaults of the disciplines":
                ck.extra.get("...of_which_with_n_processes_2", 0),
            "normalised cases with a coupling without finite width": n_combos(lambda k: "norm=1" in k and ",fin," not in k),
            "threaded cases": n_combos(lambda k: ",thr," in k),
            "multiprocessing cases": n_combos(lambda k: ",mp," in k),
            "components_with_a_free_scale_compared": ck.extra.get("components_with_a_free_scale_compared", 0)}
    for what, n in need.items():
        if not n:
            raise MachineryError(f"vacuity: no case for: {what}")
    # ---- the clauses are not vacuous: TLC must refute three deliberately false claims on a small configuration
    from concurrent.futures import ThreadPoolExecutor

    def refute(claim):
        r2 = ck.tlc("Formulations", cfg(topos=["pair", "two"], profiles=[0, 42], choices=[1, 9, 19, 26], seeds=[1], quads=[],
                                        emit=False, false_claim=claim, **PLAIN),
                    workers=1, timeout=300, coverage=False, expect_ok=False, count=False, tag=claim)
        if r2.violated != claim:
            raise MachineryError(f"TLC did not refute {claim} (violated: {r2.violated})")
        return r2.violated

    claims = ("FalseClaimSameValuesOffSolution", "FalseClaimPartialIsTotal", "FalseClaimEquilibriumOfTheDefaults")
    with ThreadPoolExecutor(max_workers=3) as ex:
        ck.extra["false_claims_refuted_by_tlc"] = dict(zip(claims, ex.map(refute, claims)))
    # ---- same optimum
    # every MDF / IDF case the specification printed for an instance whose optimum it knows is optimised
    n_opt = {}
    for c in cases:
        inst = insts[c["key"]]
        if not inst["hasopt"] or c["form"]["F"] not in ("MDF", "IDF"):
            continue
        for solver in (inst["solvers"] if (c["form"]["F"] == "MDF" and th) else inst["solvers"][-1:]):
            replay_optimum(ck, rng, inst, c, solver)
            n_opt[c["form"]["F"]] = n_opt.get(c["form"]["F"], 0) + 1
            ck.traces += 1
    ck.extra["optimisations_run"] = n_opt
    if not n_opt.get("MDF") or not n_opt.get("IDF"):
        raise MachineryError("no quadratic instance was optimised with MDF and with IDF")
    ck.exhaustive = True  # every printed case/reject of the bounded model is replayed (EmitMod = 1)
    ck.assumptions += [
        "exact-arithmetic slice: affine disciplines with integer blocks (entries -2..2), sizes 1..2, I - B unimodular, "
        "dyadic bounds; quadratic ('sq') disciplines never produce a coupling (post-processing disciplines on even seeds, "
        "the objective of the two optimum instances)",
        f"MDF is built with an MDA tolerance of {MDA_TOL} and compared to 1e-9 (absolute + relative); fixed-point MDAs only on nilpotent "
        "coupling operators (the specification prints the admissible solver classes)",
        "IDF is allowed to keep or to drop a user variable that no discipline reads (the property does not say)",
        "DisciplinaryOpt is only defined by the specification when the listing of the disciplines is an execution order",
        "constraints are identified by their position in optimization_problem.constraints (consistency constraints "
        "in discipline order, then user constraints in the order of add_constraint)",
        "normalize_constraints with a coupling component that has no finite width: the specification leaves the scale of "
        "that component free (any finite positive constant, the same for value and Jacobian at every point of a case)",
        "start_at_equilibrium is only enumerated when the multidisciplinary solution lies within the bounds the couplings "
        "have; without the option nothing is demanded of the current value of the design space",
        f"IDF option combinations other than the plain one: one instance in {TH_OPT_MOD if th else Q_OPT_MOD} each "
        f"(multiprocessing: one in {(TH_OPT_MOD * TH_MP_MOD) if th else (Q_OPT_MOD * Q_MP_MOD)}), selected by OptSel of the "
        "specification; n_processes = 2 only (threads or processes)",
    ]


if __name__ == "__main__":
    main("C17", run)
