"""C17 - MDO formulations are equivalent views of the same problem (exact-arithmetic slice).

Specification: specs/Formulations.tla (+ MatC17.tla).
  1. TLC enumerates, as initial states, coupled systems of 1-4 disciplines with integer blocks whose coupling
     operator has I - B unimodular (topology x size profile x coupling blocks x seed, + two hand-written convex
     quadratic instances), computes the multidisciplinary solution exactly, and for every formulation
     F in {MDF, IDF, DOPT} x user-space variant x normalize_constraints either Build(F) - the design
     variables, and the value and Jacobian blocks of the objective and of every constraint at lattice points -
     or Reject(F).  The property clauses (SpacesExact, SameValues, ConsistencyVanishes, ConsistentDerivatives,
     DOptAgrees, OptimumKnown) are invariants checked by TLC on every state.
  2. spec -> code: every printed CASE is built with the real gemseo classes (MDF / IDF / DisciplinaryOpt on
     harness disciplines made of the printed blocks), `formulation.optimization_problem.objective/constraints
     .evaluate/.jac` are called at the printed lattice points, and design-variable names, values and Jacobian
     blocks are compared with what TLC printed (exactly for IDF and DOPT, 1e-9 for MDF whose couplings are
     solved by an MDA with tolerance 1e-14).  Every REJECT of IDF must raise.
     Also compared: the input masks (get_x_names_of_disc / get_x_mask_x_swap_order / mask / unmask), the start
     point of IDF(start_at_equilibrium=True), and the design-variable sets of BiLevel and of its sub-scenarios.
     ResultsAreValues: within a case ALL points are evaluated first (values and Jacobians of every function, then the
     first point again), every returned array is kept as returned, and only afterwards is each kept array compared
     with the record of its own point (an array that was right when returned and is wrong later = aliasing of an
     internal buffer); on even seeds the disciplines that produce no coupling are quadratic so that the Jacobians
     depend on the point.  Two deliberately false claims must be refuted by TLC (the clauses are not vacuous).
  3. "reaches the same optimum": on the quadratic instances MDOScenario + SLSQP with MDF and IDF must end at the
     optimum known to the specification (1e-6).
Python only transports values: which MDA class / Jacobian storage / linearity declaration is used for a case
is drawn from the sets the specification prints (seeded); every expected number comes from TLC.
"""
from __future__ import annotations

import random

import numpy as np

from ..core import Check, MachineryError, main
from . import c17_disc

INVS = ["WellFormed", "DyadicBounds", "SpacesExact", "RejectExact", "MasksCover", "SameValues", "ConsistencyVanishes",
        "ConsistentDerivatives", "EquilibriumConsistent", "DOptAgrees", "ResultsAreValues", "OptimumKnown"]
ALL_TOPOS = ["pair", "pairf", "weak", "two", "cycle3", "tail", "self", "chain", "solo", "solou", "solo0", "chain0"]
MDA_TOL = 1e-14
TOL_MDF = 1e-9


def tla_set(xs):
    return "{" + ", ".join(f'"{x}"' if isinstance(x, str) else str(x) for x in xs) + "}"


def cfg(topos, profiles, choices, seeds, quads, emit=True, emit_mod=1, emit_res=(0,), false_claim=None):
    s = (f"CONSTANTS Topos = {tla_set(topos)}\n Profiles = {tla_set(profiles)}\n Choices = {tla_set(choices)}\n"
         f" Seeds = {tla_set(seeds)}\n Quads = {tla_set(quads)}\n EmitMod = {emit_mod}\n EmitRes = {tla_set(emit_res)}\n"
         f" Emit = {'TRUE' if emit else 'FALSE'}\nSPECIFICATION Spec\nCHECK_DEADLOCK FALSE\n")
    for i in INVS:
        s += f"INVARIANT {i}\n"
    if false_claim:
        s += f"INVARIANT {false_claim}\n"
    s += "INVARIANT EmitOK\n"
    return s


# ------------------------------------------------------------------ TLA values -> python

def _seq(x):
    if isinstance(x, tuple):
        return list(x)
    if isinstance(x, dict):
        if not x:
            return []
        return [x[k] for k in range(1, len(x) + 1)]
    raise MachineryError(f"not a sequence: {x!r}")


def _vec(x):
    return np.array([float(v) for v in _seq(x)], dtype=float)


def _mat(x, ncols):
    rows = [[float(v) for v in _seq(r)] for r in _seq(x)]
    return np.array(rows, dtype=float).reshape(len(rows), ncols)


def parse_inst(key, rec):
    inst = {"key": list(key)}
    inst["D"] = [{"ins": sorted(d["ins"]), "outs": sorted(d["outs"]), "kind": d["kind"]} for d in _seq(rec["D"])]
    inst["space"] = list(_seq(rec["space"]))
    inst["obj"] = rec["obj"]
    inst["cons"] = [list(_seq(c)) for c in _seq(rec["cons"])]
    inst["size"] = dict(rec["size"])
    inst["J"] = {o: {i: [list(_seq(r)) for r in _seq(m)] for i, m in row.items()} for o, row in rec["J"].items()}
    for f in ("c0", "dflt", "cur", "lb", "ub"):
        inst[f] = {n: list(_seq(v)) for n, v in rec[f].items()}
    inst["declin"] = bool(rec["declin"])
    inst["nilp"] = bool(rec["nilp"])
    inst["solvers"] = sorted(rec["solvers"])
    inst["C"] = list(_seq(rec["C"]))
    inst["strong"] = sorted(rec["strong"])
    inst["params"] = sorted(rec["params"])
    inst["mdas"] = sorted(tuple(m) for m in rec["mdas"])
    inst["hasopt"] = bool(rec["hasopt"])
    if inst["hasopt"]:
        inst["opt"] = {"x": {n: list(_seq(v)) for n, v in rec["opt"]["x"].items()}, "f": list(_seq(rec["opt"]["f"]))}
    return inst


def printed_values(out: str):
    """Every value printed with PrintT (TLC wraps long values over many lines: accumulate until the brackets
    balance; no bound on the number of lines, an IDF case is several hundred lines long)."""
    from .. import tlaval

    vals, buf, depth = [], None, 0
    for line in out.splitlines():
        s = line.strip()
        if buf is None:
            if not s.startswith("<<"):
                continue
            buf, depth = [], 0
        buf.append(s)
        # (the strings printed by Formulations are names: no bracket inside a string)
        depth += (s.count("<<") + s.count("[") + s.count("{") + s.count("(")
                  - s.count(">>") - s.count("]") - s.count("}") - s.count(")"))
        if depth <= 0:
            try:
                vals.append(tlaval.parse_value(" ".join(buf)))
            except ValueError as ex:
                raise MachineryError(f"cannot parse a value printed by TLC: {ex}") from None
            buf = None
    if buf is not None:
        raise MachineryError("unterminated value in the output of TLC")
    return vals


def run_spec(ck: Check, tag, **kw):
    r = ck.tlc("Formulations", cfg(**kw), workers=1, timeout=900, coverage=True,
               require_actions=("Build", "Reject"))
    insts, cases, rejects = {}, [], []
    for v in printed_values(r.out):
        if not isinstance(v, tuple) or not v:
            continue
        if v[0] == "INST":
            insts[tuple(v[1])] = parse_inst(v[1], v[2])
        elif v[0] == "CASE":
            cases.append({"key": tuple(v[1]), "form": v[2], "G": list(_seq(v[3])), "res": v[4], "jacvaries": bool(v[5])})
        elif v[0] == "REJECT":
            rejects.append({"key": tuple(v[1]), "F": v[2], "gsv": v[3], "G": list(_seq(v[4]))})
    if not insts or not cases:
        raise MachineryError(f"Formulations printed no instance/case ({tag})")
    for c in cases:
        if c["key"] not in insts:
            raise MachineryError(f"CASE without INST: {c['key']}")
    # nothing may be lost between TLC and the replay: one INST per initial state, one CASE / REJECT per successor
    if kw.get("emit_mod", 1) == 1 and 1 + len(insts) + len(cases) + len(rejects) != r.distinct + 1:
        raise MachineryError(f"{r.distinct} states but {len(insts)} INST + {len(cases)} CASE + {len(rejects)} REJECT records")
    return r, insts, cases, rejects


# ------------------------------------------------------------------ building the real formulations

def mda_settings(solver, main):
    def base(cls):
        # (MDAJacobi runs its disciplines in a thread pool by default: parallel execution is C13's business)
        return {"tolerance": MDA_TOL, "max_mda_iter": 60, **({"n_processes": 1} if cls == "MDAJacobi" else {})}

    if main == "MDAChain":
        return {"tolerance": MDA_TOL, "max_mda_iter": 60, "inner_mda_name": solver, "inner_mda_settings": base(solver)}
    return base(main)


def build_formulation(inst, F, G, norm, conf):
    from gemseo.formulations.disciplinary_opt import DisciplinaryOpt
    from gemseo.formulations.idf import IDF
    from gemseo.formulations.mdf import MDF

    discs = c17_disc.build_disciplines(inst, jac_kind=conf["jac_kind"], declare_linear=conf["declare_linear"])
    space = c17_disc.build_space(inst, G)
    if F == "MDF":
        fm = MDF(discs, inst["obj"], space, main_mda_name=conf["main_mda"],
                 main_mda_settings=mda_settings(conf["solver"], conf["main_mda"]))
    elif F == "IDF":
        kw = {"n_processes": 2, "use_threading": True} if conf.get("idf_parallel") else {}
        fm = IDF(discs, inst["obj"], space, normalize_constraints=norm, **kw)
    else:
        fm = DisciplinaryOpt(discs, inst["obj"], space)
    for c in inst["cons"]:
        fm.add_constraint(c if len(c) > 1 else c[0], constraint_type="ineq")
    return fm


def draw_conf(rng, inst, F):
    conf = {"jac_kind": rng.choice(["dense", "dense", "sparse"]), "declare_linear": inst["declin"],
            "main_mda": "-", "solver": "-"}
    if F == "MDF":
        conf["main_mda"], conf["solver"] = rng.choice(inst["mdas"])
    if F == "IDF":
        # the functions are then built on one MDOParallelChain of all the disciplines (IDF's n_processes > 1)
        conf["idf_parallel"] = rng.random() < 0.1
    return conf


def guard(ck: Check, clause, sig, detail, fn, *a):
    """ck.guard + the gemseo function in which the exception was raised (part of the signature)."""
    import traceback

    try:
        return True, fn(*a)
    except Exception as ex:  # noqa: BLE001
        frames = [f for f in traceback.extract_tb(ex.__traceback__) if "/gemseo/" in f.filename]
        where = frames[-1].name if frames else "?"
        ck.violation(clause, dict(sig, exception=type(ex).__name__, raised_in=where),
                     dict(detail, exception=repr(ex), traceback=traceback.format_exc(limit=8)))
        return False, None


def classes(inst, F, G, space):
    """Input classes used in violation signatures (all derived from what the specification printed)."""
    return {"formulation": F, "declared_linear": None, "parameters": bool(inst["params"]),
            "space_has_dropped_variables": sorted(set(G)) != sorted(set(space)),
            "topology": inst["key"][0]}


def _expected_fn(fr, order, sizes):
    val = _vec(fr["val"])
    den = _vec(fr["den"])
    jac = np.hstack([_mat(fr["jac"][v], sizes[v]) for v in order]) if order else np.zeros((len(val), 0))
    return val / den, jac / den[:, None]


def replay_bilevel(ck: Check, rng, inst, case):
    """Variable sets only: the system-level design space and the design space of every sub-scenario."""
    from gemseo.formulations.bilevel import BiLevel
    from gemseo.scenarios.mdo_scenario import MDOScenario

    G = case["G"]
    res = case["res"]
    exp_space = list(_seq(res["space"]))
    subs = [list(_seq(x)) for x in _seq(res["subs"])]
    main = rng.choice([m for m in inst["mdas"] if m[0] != "MDAChain"] or inst["mdas"])
    sig = {"formulation": "BILEVEL", "topology": inst["key"][0], "variant": case["form"]["gsv"], "declared_linear": False,
           "couplings": bool(inst["C"]), "main_mda": main[0]}
    desc = {"instance": inst, "user_space": G, "sub_scenario_variables": subs, "main_mda": list(main)}

    def go():
        discs = c17_disc.build_disciplines(inst)
        members = []
        for d, loc in enumerate(subs):
            if loc:
                sc = MDOScenario([discs[d]], sorted(inst["D"][d]["outs"])[0], c17_disc.build_space(inst, loc),
                                 formulation_name="DisciplinaryOpt", name=f"sub{d + 1}")
                sc.set_algorithm(algo_name="SLSQP", max_iter=5)
                members.append(sc)
            else:
                members.append(discs[d])
        fm = BiLevel(members, inst["obj"], c17_disc.build_space(inst, G), main_mda_name=main[0],
                     main_mda_settings=mda_settings(main[1], main[0]))
        return fm, members

    ok, out = guard(ck, "Build", sig, desc, go)
    if not ok:
        return False
    fm, members = out
    names = list(fm.optimization_problem.design_space.variable_names)
    got_subs = [list(m.formulation.optimization_problem.design_space.variable_names) if loc else []
                for m, loc in zip(members, subs)]
    if names != exp_space or got_subs != subs:
        ck.violation("SpacesExact", sig, dict(desc, spec_space=exp_space, impl_space=names, impl_sub_scenario_variables=got_subs))
        return False
    return True


def replay_case(ck: Check, rng, inst, case, mda=None):
    if case["form"]["F"] == "BILEVEL":
        return replay_bilevel(ck, rng, inst, case)
    F, gsv, norm = case["form"]["F"], case["form"]["gsv"], bool(case["form"]["norm"])
    G = case["G"]
    res = case["res"]
    exp_space = list(_seq(res["space"]))
    maydrop = set(res["maydrop"])
    conf = draw_conf(rng, inst, F)
    if mda is not None:
        conf["main_mda"], conf["solver"] = mda
    sig = classes(inst, F, G, exp_space)
    sig["declared_linear"] = conf["declare_linear"]
    sig.update(variant=gsv, normalize=norm, main_mda=conf["main_mda"], couplings=bool(inst["C"]),
               idf_parallel=bool(conf.get("idf_parallel")))
    desc = {"instance": inst, "formulation": F, "user_space": G, "normalize_constraints": norm, "conf": conf}
    ok, fm = guard(ck, "Build", sig, desc, build_formulation, inst, F, G, norm, conf)
    if not ok:
        return False
    pb = fm.optimization_problem
    names = list(pb.design_space.variable_names)
    # ---- SpacesExact
    allowed = [exp_space] + ([[v for v in exp_space if v not in maydrop]] if maydrop else [])
    if names not in allowed:
        ck.violation("SpacesExact", sig, dict(desc, spec_space=exp_space, may_drop=sorted(maydrop), impl_space=names))
        return False
    sizes = inst["size"]
    pts = _seq(res["pts"])
    ncc = pts[0]["ncc"]
    n_exp = ncc + len(inst["cons"])
    if len(pb.constraints) != n_exp:
        ck.violation("Constraints", sig, dict(desc, spec_n_constraints=n_exp, spec_n_consistency=ncc,
                                              impl=[c.name for c in pb.constraints]))
        return False
    discs = list(fm.disciplines)
    if names == exp_space:
        # ---- input masks (public helpers of the formulation the adapters are built on)
        for d, mk in enumerate(_seq(res["masks"])):
            want_names, want_idx = list(_seq(mk["names"])), [int(i) for i in _seq(mk["idx"])]
            got_names = list(fm.get_x_names_of_disc(discs[d]))
            got_idx = [int(i) for i in fm.get_x_mask_x_swap_order(got_names)] if got_names else []
            ck.extra["masks_compared"] = ck.extra.get("masks_compared", 0) + 1
            if got_names != want_names or got_idx != want_idx:
                ck.violation("Masks", sig, dict(desc, discipline=d + 1, spec={"names": want_names, "idx": want_idx},
                                                impl={"names": got_names, "idx": got_idx}, design_variables=names))
                return False
            if want_idx:
                n = int(pb.design_space.dimension)
                back = fm.unmask_x_swap_order(want_names, np.arange(1.0, len(want_idx) + 1))
                exp_back = np.zeros(n)
                exp_back[want_idx] = np.arange(1.0, len(want_idx) + 1)
                fwd = fm.mask_x_swap_order(want_names, np.arange(float(n)))
                if not (np.array_equal(back, exp_back) and np.array_equal(fwd, np.array(want_idx, dtype=float))):
                    ck.violation("Masks", dict(sig, helper="mask/unmask"),
                                 dict(desc, discipline=d + 1, spec_idx=want_idx, unmask=back.tolist(), mask=fwd.tolist()))
                    return False
    exact = F != "MDF"
    if gsv != "full":
        pts = pts[:1]  # the functions do not depend on the variant of the user space: one point is enough there
    # ---- ResultsAreValues + SameValues / ConsistencyVanishes / ConsistentDerivatives.
    # History: every point of the case is evaluated FIRST (values and Jacobians of every function), the first point
    # once more at the end; every returned object is KEPT as returned (no copy) next to a snapshot taken at once;
    # only then is each kept array compared with the record of the specification for ITS point.
    order = list(range(len(pts))) + [0]
    xs = [np.concatenate([_vec(pt["x"][v]) for v in names]) if names else np.zeros(0) for pt in pts]
    kept = []  # (step, point, label, what, returned object, snapshot, expected)
    for step, k in enumerate(order):
        pt = pts[k]
        fns = [("objective", pb.objective, pt["obj"])]
        fns += [(f"consistency[{j}]" if j < ncc else f"constraint[{j - ncc}]", pb.constraints[j], fr)
                for j, fr in enumerate(_seq(pt["cons"]))]
        for label, fn, fr in fns:
            ev, ej = _expected_fn(fr, names, sizes)
            psig = dict(sig, function=label.split("[")[0])
            pdesc = dict(desc, point=k, step=step, x={v: list(_seq(pt["x"][v])) for v in names}, design_variables=names)
            okv, gv = guard(ck, "Evaluate", dict(psig, what="value"), pdesc, lambda f=fn, x=xs[k]: f.evaluate(x.copy()))
            okj, gj = guard(ck, "Evaluate", dict(psig, what="jac"), pdesc, lambda f=fn, x=xs[k]: f.jac(x.copy()))
            if not (okv and okj):
                return False
            kept.append((step, k, label, "value", gv, _as_array(gv, 1).copy(), ev))
            kept.append((step, k, label, "jacobian", gj, _as_array(gj, 2).copy(), ej))
            ck.extra["function_values_compared"] = ck.extra.get("function_values_compared", 0) + 1
    bad, stale = [], []
    for step, k, label, what, obj, snap, exp in kept:
        now = _as_array(obj, 1 if what == "value" else 2)
        if snap.shape != exp.shape or not _same(snap, exp, exact):
            bad.append({"function": label, "what": what, "point": k, "step": step, "impl": snap.tolist(), "spec": exp.tolist()})
        elif now.shape != exp.shape or not _same(now, exp, exact):
            stale.append({"function": label, "what": what, "point": k, "step": step, "returned_then": snap.tolist(),
                          "same_object_after_the_later_evaluations": now.tolist(), "spec": exp.tolist()})
    ck.extra["results_kept_over_later_evaluations"] = ck.extra.get("results_kept_over_later_evaluations", 0) + len(kept)
    if len(pts) > 1 and F in ("MDF", "DOPT") and case.get("jacvaries"):
        ck.extra["cases_with_point_dependent_jacobians_kept"] = ck.extra.get("cases_with_point_dependent_jacobians_kept", 0) + 1
    xdesc = {"points": [{v: list(_seq(pt["x"][v])) for v in names} for pt in pts], "evaluation_order": order,
             "design_variables": names}
    if bad:
        kinds = {b["function"].split("[")[0] + ":" + b["what"] for b in bad}
        clause = "ConsistencyVanishes" if kinds <= {"consistency:value"} else \
                 "ConsistentDerivatives" if all(b["what"] == "jacobian" for b in bad) else "SameValues"
        ck.violation(clause, dict(sig, wrong=sorted(kinds)), dict(desc, **xdesc, wrong=bad[:6], n_wrong=len(bad)))
        return False
    if stale:
        kinds = {b["function"].split("[")[0] + ":" + b["what"] for b in stale}
        ck.violation("ResultsAreValues", dict(sig, wrong=sorted(kinds)),
                     dict(desc, **xdesc, wrong=stale[:6], n_wrong=len(stale),
                          note="the array returned for a point changed when a later point was evaluated"))
        return False
    return True


def _as_array(obj, ndim):
    """View (not a copy, when the object is a float ndarray) of a returned value / Jacobian as a 1-D / 2-D array."""
    a = np.asarray(_dense(obj), dtype=float)
    return np.atleast_1d(a) if ndim == 1 else np.atleast_2d(a)


def replay_equilibrium(ck: Check, rng, inst, case):
    """IDF(start_at_equilibrium=True): the current value of the design space after construction."""
    from gemseo.formulations.idf import IDF

    res = case["res"]
    eq = res["eq"]
    G = case["G"]
    norm = bool(case["form"]["norm"])
    solver = rng.choice(inst["solvers"])
    sig = {"formulation": "IDF", "topology": inst["key"][0], "variant": case["form"]["gsv"], "normalize": norm,
           "start_at_equilibrium": True, "couplings": bool(inst["C"]), "declared_linear": False}
    desc = {"instance": inst, "user_space": G, "inner_mda": solver}

    def go():
        discs = c17_disc.build_disciplines(inst)
        space = c17_disc.build_space(inst, G)
        fm = IDF(discs, inst["obj"], space, normalize_constraints=norm, start_at_equilibrium=True,
                 mda_chain_settings_for_start_at_equilibrium=mda_settings(solver, "MDAChain"))
        return fm

    ok, fm = guard(ck, "Equilibrium", sig, desc, go)
    if not ok:
        return False
    ds = fm.optimization_problem.design_space
    cur = ds.get_current_value(as_dict=True)
    bad = {v: {"impl": np.asarray(cur[v]).tolist(), "spec": list(_seq(eq["cur"][v]))} for v in ds.variable_names
           if not np.allclose(np.asarray(cur[v], dtype=float), _vec(eq["cur"][v]), rtol=0, atol=TOL_MDF)}
    if not bad:
        # the consistency constraints vanish at the start point
        x0 = ds.get_current_value()
        ncc = _seq(res["pts"])[0]["ncc"]
        for j in range(ncc):
            v = np.atleast_1d(np.asarray(fm.optimization_problem.constraints[j].evaluate(x0), dtype=float))
            if not np.allclose(v, 0.0, rtol=0, atol=TOL_MDF):
                bad[f"consistency[{j}]"] = {"impl": v.tolist(), "spec": "0"}
    if bad:
        ck.violation("Equilibrium", sig, dict(desc, wrong=bad))
        return False
    return True


def _dense(m):
    return m.toarray() if hasattr(m, "toarray") else m


def _same(a, b, exact):
    if exact:
        return bool(np.array_equal(a, b))
    return bool(np.allclose(a, b, rtol=TOL_MDF, atol=TOL_MDF))


def replay_reject(ck: Check, inst, rj):
    """IDF on a space that lacks a coupling must raise (documented ValueError)."""
    sig = {"formulation": "IDF", "variant": rj["gsv"], "topology": inst["key"][0]}
    conf = {"jac_kind": "dense", "declare_linear": False, "main_mda": "-", "solver": "-"}
    try:
        fm = build_formulation(inst, "IDF", rj["G"], False, conf)
    except ValueError:
        return True
    except Exception as ex:  # noqa: BLE001
        ck.violation("Reject", dict(sig, exception=type(ex).__name__),
                     {"instance": inst, "user_space": rj["G"], "exception": repr(ex)})
        return False
    ck.violation("Reject", dict(sig, exception="none"),
                 {"instance": inst, "user_space": rj["G"], "missing_couplings": sorted(set(inst["C"]) - set(rj["G"])),
                  "impl_space": list(fm.optimization_problem.design_space.variable_names)})
    return False


# ------------------------------------------------------------------ "reaches the same optimum"

def replay_optimum(ck: Check, inst, F, G, norm, solver):
    from gemseo.scenarios.mdo_scenario import MDOScenario

    sig = {"formulation": F, "topology": "quad", "instance": inst["key"][3], "normalize": norm, "clause": "SameOptimum"}
    desc = {"instance": inst, "formulation": F, "user_space": G, "solver": solver}

    def go():
        discs = c17_disc.build_disciplines(inst)
        space = c17_disc.build_space(inst, G)
        kw = {"main_mda_name": "MDAChain", "main_mda_settings": mda_settings(solver, "MDAChain")} if F == "MDF" \
            else {"normalize_constraints": norm}
        sc = MDOScenario(discs, inst["obj"], space, formulation_name=F, **kw)
        for c in inst["cons"]:
            sc.add_constraint(c if len(c) > 1 else c[0], constraint_type="ineq")
        sc.execute(algo_name="SLSQP", max_iter=200, ftol_rel=1e-15, ftol_abs=1e-15, xtol_rel=1e-15, xtol_abs=1e-15,
                   eq_tolerance=1e-10, ineq_tolerance=1e-10)
        return sc

    ok, sc = guard(ck, "SameOptimum", sig, desc, go)
    if not ok:
        return False
    r = sc.optimization_result
    names = list(sc.formulation.optimization_problem.design_space.variable_names)
    xd = sc.formulation.optimization_problem.design_space.convert_array_to_dict(np.asarray(r.x_opt, dtype=float))
    f_spec = float(inst["opt"]["f"][0])
    bad = {}
    if not abs(float(r.f_opt) - f_spec) <= 1e-6:
        bad["f_opt"] = {"impl": float(r.f_opt), "spec": f_spec}
    for v, xv in inst["opt"]["x"].items():
        if v not in xd or not np.allclose(xd[v], np.array(xv, dtype=float), rtol=0, atol=1e-6):
            bad[v] = {"impl": np.asarray(xd.get(v, [])).tolist(), "spec": list(xv)}
    if not r.is_feasible:
        bad["is_feasible"] = {"impl": False, "spec": True}
    if bad:
        ck.violation("SameOptimum", sig, dict(desc, wrong=bad, design_variables=names, n_iter=r.n_obj_call))
        return False
    return True


# ------------------------------------------------------------------ the check

def run(ck: Check):
    rng = random.Random(ck.seed)
    th = ck.thorough
    if th:
        plan = dict(topos=ALL_TOPOS, profiles=[0, 5, 42, 341, 682, 1023], seeds=[1, 2, 3, 4],
                    choices=[0, 1, 2, 3, 7, 8, 9, 13, 14, 16, 19, 20, 21, 26, 27, 33, 40, 100, 200, 300, 437, 651, 777, 1000, 1295],
                    quads=[1, 2])
    else:
        plan = dict(topos=ALL_TOPOS, profiles=[0, 341], seeds=[1, 2],
                    choices=[0, 1, 9, 14, 19, 26, 100, 300], quads=[1, 2])
    r, insts, cases, rejects = run_spec(ck, "main", **plan)
    ck.extra["instances"] = len(insts)
    ck.extra["instances_by_topology"] = {t: sum(1 for k in insts if k[0] == t) for t in sorted({k[0] for k in insts})}
    ck.extra["cases_printed"] = len(cases)
    ck.extra["rejects_printed"] = len(rejects)
    ck.extra["nilpotent_instances"] = sum(1 for i in insts.values() if i["nilp"])
    n_ok = 0
    for c in cases:
        inst = insts[c["key"]]
        good = replay_case(ck, rng, inst, c)
        ck.traces += 1
        n_ok += int(good)
        if th and c["form"]["F"] == "MDF" and c["form"]["gsv"] == "full":
            # "all inner MDA choices": every MDA configuration the specification admits for this system
            for mda in inst["mdas"]:
                replay_case(ck, rng, inst, c, mda=mda)
                ck.traces += 1
                ck.extra["mdf_cases_x_mda_configurations"] = ck.extra.get("mdf_cases_x_mda_configurations", 0) + 1
        if good and c["form"]["F"] == "IDF" and inst["C"]:
            p0 = _seq(c["res"]["pts"])[0]
            ck.sample({"instance": list(c["key"]), "formulation": dict(c["form"]), "user_space": c["G"],
                       "design_variables": list(_seq(c["res"]["space"])),
                       "point": {v: list(_seq(x)) for v, x in p0["x"].items()},
                       "objective": list(_seq(p0["obj"]["val"])),
                       "constraints": [[list(_seq(f["val"])), list(_seq(f["den"]))] for f in _seq(p0["cons"])]})
        if c["form"]["F"] == "IDF" and inst["C"] and c["form"]["gsv"] == "full" and bool(c["res"]["eq"]["inb"]) \
                and (th or (c["key"][2] + c["key"][3]) % 2 == 0):
            replay_equilibrium(ck, rng, inst, c)
            ck.traces += 1
            ck.extra["equilibrium_starts_replayed"] = ck.extra.get("equilibrium_starts_replayed", 0) + 1
    ck.extra["cases_replayed"] = len(cases)
    # (vacuity is a property of what the specification printed, not of how far the replay of a case went)
    ck.extra["cases_with_point_dependent_jacobians"] = sum(
        1 for c in cases if c["form"]["F"] in ("MDF", "DOPT") and c["form"]["gsv"] == "full" and c["jacvaries"])
    if ck.extra["cases_with_point_dependent_jacobians"] < 10:
        raise MachineryError("fewer than 10 MDF/DOPT cases with point-dependent Jacobians: ResultsAreValues would be vacuous")
    ck.extra["cases_by_formulation"] = {f: sum(1 for c in cases if c["form"]["F"] == f) for f in ("MDF", "IDF", "DOPT", "BILEVEL")}
    if not all(ck.extra["cases_by_formulation"].values()):
        raise MachineryError(f"a formulation was never built: {ck.extra['cases_by_formulation']}")
    ck.extra["cases_agreeing"] = n_ok
    n_rej = 0
    for rj in rejects:
        if rj["F"] == "IDF":
            replay_reject(ck, insts[rj["key"]], rj)
            n_rej += 1
            ck.traces += 1
    ck.extra["idf_rejects_replayed"] = n_rej
    if n_rej == 0:
        raise MachineryError("no IDF Reject was replayed")
    if not ck.extra.get("equilibrium_starts_replayed"):
        raise MachineryError("no IDF(start_at_equilibrium) case was replayed")
    # ---- the clauses are not vacuous: TLC must refute two deliberately false claims on a small configuration
    refuted = {}
    for claim in ("FalseClaimSameValuesOffSolution", "FalseClaimPartialIsTotal"):
        r2 = ck.tlc("Formulations", cfg(topos=["pair", "two"], profiles=[0, 42], choices=[1, 9, 19, 26], seeds=[1], quads=[],
                                        emit=False, false_claim=claim),
                    workers=2, timeout=300, coverage=False, expect_ok=False, count=False)
        refuted[claim] = r2.violated
        if r2.violated != claim:
            raise MachineryError(f"TLC did not refute {claim} (violated: {r2.violated})")
    ck.extra["false_claims_refuted_by_tlc"] = refuted
    # ---- same optimum
    n_opt = 0
    for key, inst in sorted(insts.items()):
        if not inst["hasopt"]:
            continue
        for F, G, norm in (("MDF", inst["space"], False), ("MDF", [v for v in inst["space"] if v not in inst["C"]], False),
                           ("IDF", inst["space"], False), ("IDF", inst["space"], True)):
            for solver in (inst["solvers"] if (F == "MDF" and th) else inst["solvers"][-1:]):
                replay_optimum(ck, inst, F, G, norm, solver)
                n_opt += 1
                ck.traces += 1
    ck.extra["optimisations_run"] = n_opt
    if n_opt == 0:
        raise MachineryError("no quadratic instance was optimised")
    ck.exhaustive = True  # every printed case/reject of the bounded model is replayed (EmitMod = 1)
    ck.assumptions += [
        "exact-arithmetic slice: affine disciplines with integer blocks (entries -2..2), sizes 1..2, I - B unimodular, "
        "dyadic bounds; quadratic ('sq') disciplines never produce a coupling (post-processing disciplines on even seeds, "
        "the objective of the two optimum instances)",
        f"MDF is built with an MDA tolerance of {MDA_TOL} and compared to 1e-9 (absolute + relative); fixed-point MDAs only on nilpotent "
        "coupling operators (the specification prints the admissible solver classes)",
        "IDF is allowed to keep or to drop a user variable that no discipline reads (the property does not say)",
        "DisciplinaryOpt is only defined by the specification when the listing of the disciplines is an execution order",
        "constraints are identified by their position in optimization_problem.constraints (consistency constraints "
        "in discipline order, then user constraints in the order of add_constraint)",
    ]


if __name__ == "__main__":
    main("C17", run)
