"""C20 - constructor catalogue: every class of the discipline / MDA factories that can be built offline,
plus scenarios, functions, design spaces and problems, each with the binding of the abstract inputs of
Lifecycle.tla (x in X supplied by the caller, one defaulted input with default value DV[v]) to real data.

An entry only says HOW TO BUILD an object and WHICH real names/values stand for the abstract ones; what the
object must do is decided by the specification.
"""
from __future__ import annotations

import contextlib

import numpy as np
from numpy import array

JSON, SIMPLE = "JSONGrammar", "SimpleGrammar"

# directory for the files some constructors need (templates, scripts); set by the check to its work directory
WORK = None


# ------------------------------------------------------------------ importable user callables (picklable)
def py_func(x=0.0, p=1.0):
    """AutoPyDiscipline body."""
    y = 2.0 * x + 3.0 * p * p + x * p
    return y


def py_jac(x=0.0, p=1.0):
    x, p = float(np.asarray(x).ravel()[0]), float(np.asarray(p).ravel()[0])
    return array([[2.0 + p, 6.0 * p + x]])


def array_func(v):
    return array([2.0 * v[0] + 3.0 * v[1] * v[1] + v[0] * v[1], v[0] - v[1]])


def array_jac(v):
    return array([[2.0 + v[1], 6.0 * v[1] + v[0]], [1.0, -1.0]])


def obj_func(v):
    return array([v[0] ** 2 + 3.0 * v[1] ** 2 + v[0] * v[1]])


def obj_jac(v):
    return array([[2.0 * v[0] + v[1], 6.0 * v[1] + v[0]]])


def cstr_func(v):
    return array([v[0] + v[1] - 1.0, v[0] - 2.0 * v[1]])


def cstr_jac(v):
    return array([[1.0, 1.0], [1.0, -2.0]])


def rhs_func(time=0.0, state=0.0, k=1.0):
    state_dot = -k * state
    return state_dot


@contextlib.contextmanager
def grammar_type(gt):
    """Build with another grammar type: the class attribute of the base class, restored afterwards."""
    from gemseo.core.discipline.base_discipline import BaseDiscipline

    old = BaseDiscipline.default_grammar_type
    BaseDiscipline.default_grammar_type = gt
    try:
        yield
    finally:
        BaseDiscipline.default_grammar_type = old


class Entry:
    def __init__(self, name, make, *, family="discipline", xname=None, pname=None, xvals=None, pvals=None,
                 has_jac=True, jac_in_run=False, stateful=False, grammars=(JSON, SIMPLE), caches=("simple", "mem", "hdf"),
                 tol=1e-10, cost=1, factory="discipline", adapter="disc"):
        self.name = name
        self.make = make
        self.family = family
        self.xname, self.pname, self.xvals, self.pvals = xname, pname, xvals, pvals
        self.has_jac, self.jac_in_run, self.stateful = has_jac, jac_in_run, stateful
        self.grammars, self.caches = tuple(grammars), tuple(caches)
        self.tol = tol
        self.cost = cost  # 1 cheap, 2 moderate, 3 slow: scales the number of behaviours replayed
        self.factory = factory
        self.adapter = adapter

    def __repr__(self):
        return f"Entry({self.name})"


def _analytic(name="A"):
    from gemseo.disciplines.analytic import AnalyticDiscipline

    return AnalyticDiscipline({"y": "2*x+3*p**2+x*p", "z": "x-p"}, name=name)


def _analytic3():
    """Expressions of three inputs with distinct roles (an argument order mistake changes the value)."""
    from gemseo.disciplines.analytic import AnalyticDiscipline

    d = AnalyticDiscipline({"y": "2*x + 3*p**2 - q + x*p", "z": "x - 4*p + q/7", "w": "q*x - p"}, name="A3")
    d.io.input_grammar.defaults["q"] = array([0.625])
    return d


def _abc():
    from gemseo.disciplines.analytic import AnalyticDiscipline

    return [AnalyticDiscipline({"a": "2*x+p"}, name="DA"), AnalyticDiscipline({"b": "a*a+3*p"}, name="DB"),
            AnalyticDiscipline({"c": "a+b+x*p"}, name="DC")]


def _sellar(strong_only=False):
    from gemseo.problems.mdo.sellar.sellar_1 import Sellar1
    from gemseo.problems.mdo.sellar.sellar_2 import Sellar2
    from gemseo.problems.mdo.sellar.sellar_system import SellarSystem

    return [Sellar1(), Sellar2()] + ([] if strong_only else [SellarSystem()])


def _mda(cls_name, **kw):
    def make():
        from gemseo.mda.factory import MDAFactory

        strong = cls_name in ("MDANewtonRaphson", "MDAQuasiNewton", "MDAGSNewton")
        return MDAFactory().create(cls_name, _sellar(strong_only=strong), tolerance=1e-14, max_mda_iter=60, **kw)
    return make


def _mda_sequential():
    from gemseo.mda.gauss_seidel import MDAGaussSeidel
    from gemseo.mda.newton_raphson import MDANewtonRaphson
    from gemseo.mda.sequential_mda import MDASequential

    ds = _sellar(strong_only=True)
    return MDASequential(ds, [MDAGaussSeidel(ds, max_mda_iter=3), MDANewtonRaphson(ds, tolerance=1e-14)],
                         tolerance=1e-14, max_mda_iter=60)


def _factory(name, **kw):
    def make():
        from gemseo.disciplines.factory import DisciplineFactory

        return DisciplineFactory().get_class(name)(**kw)
    return make


def _doe_scenario(name="DOESc"):
    from gemseo.algos.design_space import DesignSpace
    from gemseo.scenarios.doe_scenario import DOEScenario

    ds = DesignSpace()
    ds.add_variable("x", lower_bound=-2.0, upper_bound=2.0, value=0.5)
    ds.add_variable("p", lower_bound=-2.0, upper_bound=2.0, value=0.25)
    sc = DOEScenario([_analytic("SA")], "y", ds, formulation_name="DisciplinaryOpt", name=name)
    sc.set_algorithm(algo_name="PYDOE_FULLFACT", n_samples=9)
    return sc


def _mdo_scenario(name="MDOSc"):
    from gemseo.algos.design_space import DesignSpace
    from gemseo.scenarios.mdo_scenario import MDOScenario

    ds = DesignSpace()
    ds.add_variable("x", lower_bound=-2.0, upper_bound=2.0, value=0.5)
    ds.add_variable("p", lower_bound=-2.0, upper_bound=2.0, value=0.25)
    sc = MDOScenario([_analytic("SA")], "y", ds, formulation_name="DisciplinaryOpt", name=name)
    sc.set_algorithm(algo_name="SLSQP", max_iter=30)
    return sc


def _scenario_adapter(cls_name):
    def make():
        from gemseo.algos.design_space import DesignSpace
        from gemseo.disciplines.analytic import AnalyticDiscipline
        from gemseo.disciplines.factory import DisciplineFactory
        from gemseo.scenarios.mdo_scenario import MDOScenario

        d = AnalyticDiscipline({"f": "(u-x)**2+(u-p)**2+x*p"}, name="Sub")
        ds = DesignSpace()
        ds.add_variable("u", lower_bound=-4.0, upper_bound=4.0, value=0.0)
        sc = MDOScenario([d], "f", ds, formulation_name="DisciplinaryOpt", name="Inner")
        sc.set_algorithm(algo_name="SLSQP", max_iter=40, ftol_rel=1e-14, ftol_abs=1e-14, xtol_rel=1e-14, xtol_abs=1e-14)
        return DisciplineFactory().get_class(cls_name)(sc, ["x", "p"], ["f"], reset_x0_before_opt=True)
    return make


def _surrogate():
    from gemseo.datasets.io_dataset import IODataset
    from gemseo.disciplines.surrogate import SurrogateDiscipline

    rng = np.random.default_rng(3)
    xs = rng.uniform(-1, 1, (12, 2))
    ds = IODataset()
    ds.add_variable("x", xs[:, [0]], group_name="inputs")
    ds.add_variable("p", xs[:, [1]], group_name="inputs")
    ds.add_variable("y", 2 * xs[:, [0]] + 3 * xs[:, [1]] + 1.0, group_name="outputs")
    return SurrogateDiscipline("LinearRegressor", ds)


def _ode():
    from gemseo.disciplines.auto_py import AutoPyDiscipline
    from gemseo.disciplines.ode.ode_discipline import ODEDiscipline

    rhs = AutoPyDiscipline(rhs_func)
    return ODEDiscipline(rhs, np.linspace(0.0, 1.0, 5), state_names=["state"], rtol=1e-10, atol=1e-12)


def _scalable():
    from gemseo.problems.mdo.scalable.parametric.disciplines.scalable_discipline import ScalableDiscipline

    return ScalableDiscipline(1, array([0.5, -0.25]), array([[1.0, 2.0], [0.5, -1.0]]), array([[2.0], [1.0]]),
                              {"y_2": array([[0.5], [0.25]])}, x_0=array([0.5, 0.5]), x_1=array([0.5]),
                              y_2=array([1.0]))


def _main_discipline():
    from gemseo.problems.mdo.scalable.parametric.disciplines.main_discipline import MainDiscipline

    return MainDiscipline(array([1.0, 2.0]), array([0.5]), x_0=array([0.5]), y_1=array([0.5, 0.5]),
                          y_2=array([0.25]))


def _linear_discipline():
    from gemseo.problems.mdo.scalable.linear.linear_discipline import LinearDiscipline

    np.random.seed(5)  # the class draws its matrix from numpy's global generator
    return LinearDiscipline("LD", ["x", "p"], ["y", "z"], inputs_size=2, outputs_size=2)


def _constraint_aggregation():
    from gemseo.disciplines.constraint_aggregation import ConstraintAggregation

    return ConstraintAggregation(["x", "p"], "lower_bound_KS", rho=4.0)


def one(v):
    return array([float(v)])


# ------------------------------------------------------------------ bare grammars, grammar subclasses
def _grammar(cls_name, sub=False):
    """A grammar with the three inputs x (caller), p (the defaulted one), q (another default)."""
    def make():
        cls = _grammar_class(cls_name, sub)
        g = cls("g")
        g.update_from_names(["x", "p", "q"])
        g.defaults["q"] = array([0.625])
        return g
    return make


_SUBCLASSES = {}


def _grammar_class(cls_name, sub):
    from gemseo.core.grammars.factory import GrammarFactory

    base = GrammarFactory().get_class(cls_name)
    if not sub:
        return base
    return {"JSONGrammar": UserJSONGrammar, "SimpleGrammar": UserSimpleGrammar}[cls_name]


def _define_user_grammars():
    """User-defined grammar classes (module-level: picklable by reference), as a plugin or a user would write."""
    from gemseo.core.grammars.json_grammar import JSONGrammar
    from gemseo.core.grammars.simple_grammar import SimpleGrammar

    class UserJSONGrammar(JSONGrammar):
        """A JSON grammar of a user: nothing overridden."""

    class UserSimpleGrammar(SimpleGrammar):
        """A simple grammar of a user: nothing overridden."""

    for c in (UserJSONGrammar, UserSimpleGrammar):
        c.__module__ = __name__
        c.__qualname__ = c.__name__
    return UserJSONGrammar, UserSimpleGrammar


UserJSONGrammar, UserSimpleGrammar = _define_user_grammars()


def _user_grammar_discipline():
    """A discipline whose grammars are instances of a user's JSONGrammar subclass."""
    return UserGrammarDiscipline()


def _define_user_discipline():
    from gemseo.core.discipline.discipline import Discipline

    class UserGrammarDiscipline(Discipline):
        def __init__(self):
            super().__init__(name="UG")
            for attr, names in (("input_grammar", ["x", "p", "q"]), ("output_grammar", ["y", "z"])):
                g = UserJSONGrammar(f"UG_{attr}")
                g.update_from_names(names)
                setattr(self.io, attr, g)
            self.io.input_grammar.defaults.update({"x": array([0.0]), "p": array([0.0]), "q": array([0.625])})

        def _run(self, input_data):
            x, p, q = input_data["x"], input_data["p"], input_data["q"]
            return {"y": 2.0 * x + 3.0 * p * p - q + x * p, "z": x - 4.0 * p + q / 7.0}

        def _compute_jacobian(self, input_names=(), output_names=()):
            x, p = self.io.data["x"], self.io.data["p"]
            self.jac = {"y": {"x": array([[2.0 + p[0]]]), "p": array([[6.0 * p[0] + x[0]]]), "q": array([[-1.0]])},
                        "z": {"x": array([[1.0]]), "p": array([[-4.0]]), "q": array([[1.0 / 7.0]])}}

    UserGrammarDiscipline.__module__ = __name__
    UserGrammarDiscipline.__qualname__ = "UserGrammarDiscipline"
    return UserGrammarDiscipline


UserGrammarDiscipline = _define_user_discipline()


# ------------------------------------------------------------------ a discipline around an executable
EXE_SCRIPT = """import json, sys
data = json.load(open(sys.argv[1]))
x, p = data["x"], data["p"]
json.dump({"y": 2.0 * x + 3.0 * p * p + x * p, "z": x - p}, open(sys.argv[2], "w"), indent=4, sort_keys=True)
"""


def _disc_from_exe():
    """DiscFromExe with its default arguments; the 'external tool' is this interpreter running a 4-line script."""
    import sys
    import tempfile
    from pathlib import Path

    from gemseo.disciplines.wrappers.disc_from_exe import DiscFromExe

    root = Path(WORK or tempfile.gettempdir()) / "c20_exe"
    runs = root / "runs"
    runs.mkdir(parents=True, exist_ok=True)
    if not (root / "run.py").exists():
        (root / "run.py").write_text(EXE_SCRIPT)
        (root / "in.tpl").write_text('{\n    "x": GEMSEO_INPUT{x::0.5},\n    "p": GEMSEO_INPUT{p::0.0}\n}\n')
        (root / "out.tpl").write_text('{\n    "y": GEMSEO_OUTPUT{y::1.0},\n    "z": GEMSEO_OUTPUT{z::0.5}\n}\n')
    return DiscFromExe(root / "in.tpl", root / "out.tpl", runs, f"{sys.executable} {root / 'run.py'} in.json out.json",
                       "in.json", "out.json", clean_after_execution=True)


_DATASETS = {}


def _data_driven_scalable():
    """gemseo.problems.mdo.scalable.data_driven.discipline.ScalableDiscipline (the factory name 'ScalableDiscipline'
    resolves to the parametric class of the same name: this one is only reachable by import)."""
    from gemseo.problems.mdo.scalable.data_driven.discipline import ScalableDiscipline

    if "mission" not in _DATASETS:
        from gemseo import sample_disciplines
        from gemseo.problems.mdo.sobieski.core.design_space import SobieskiDesignSpace
        from gemseo.problems.mdo.sobieski.disciplines import SobieskiMission

        with grammar_type(JSON):   # (the learning data are an input of the constructor, not the object under test)
            d = SobieskiMission()
            ds = SobieskiDesignSpace()
            ds.filter(list(d.io.input_grammar.names))
            _DATASETS["mission"] = sample_disciplines([d], ds, ["y_4"], algo_name="DiagonalDOE", n_samples=10)
    return ScalableDiscipline("ScalableDiagonalModel", _DATASETS["mission"])


# ------------------------------------------------------------------ functions, design spaces, problems
def _design_space():
    from gemseo.algos.design_space import DesignSpace

    ds = DesignSpace()
    ds.add_variable("x", lower_bound=-2.0, upper_bound=2.0, value=0.5)
    ds.add_variable("p", size=2, lower_bound=-4.0, upper_bound=4.0, value=array([0.25, 1.0]))
    ds.add_variable("n", type_="integer", lower_bound=0, upper_bound=5, value=2)
    return ds


def _space2():
    from gemseo.algos.design_space import DesignSpace

    ds = DesignSpace()
    ds.add_variable("x", lower_bound=-2.0, upper_bound=2.0, value=0.5)
    ds.add_variable("p", lower_bound=-2.0, upper_bound=2.0, value=0.25)
    return ds


def _mdo_function():
    from gemseo.core.mdo_functions.mdo_function import MDOFunction

    return MDOFunction(obj_func, "f", jac=obj_jac, input_names=["x", "p"], dim=1, f_type="obj")


def _linear_function():
    from gemseo.core.mdo_functions.mdo_linear_function import MDOLinearFunction

    return MDOLinearFunction(array([[1.0, 2.0], [0.5, -1.0]]), "lin", input_names=["x", "p"], value_at_zero=array([0.5, 0.25]))


def _quadratic_function():
    from gemseo.core.mdo_functions.mdo_quadratic_function import MDOQuadraticFunction

    return MDOQuadraticFunction(array([[1.0, 0.5], [0.5, 3.0]]), "quad", input_names=["x", "p"],
                                linear_coeffs=array([0.5, -1.0]), value_at_zero=0.25)


def _composed_function():
    f, q = _mdo_function(), _quadratic_function()
    return (f * 2.0 - q) + q * f


def _problem(preprocess=True):
    def make():
        from gemseo.algos.optimization_problem import OptimizationProblem
        from gemseo.core.mdo_functions.mdo_function import MDOFunction

        pb = OptimizationProblem(_space2())
        pb.objective = _mdo_function()
        pb.add_constraint(MDOFunction(cstr_func, "g", jac=cstr_jac, input_names=["x", "p"], dim=2), constraint_type="ineq")
        pb.add_observable(_linear_function())
        if preprocess:
            pb.preprocess_functions()
        return pb
    return make


def _ap(xvals=(0.5, 1.25), pvals=(0.0, 0.75)):
    """Default binding for harness-built disciplines with scalar inputs "x" and "p"."""
    return {"xname": "x", "pname": "p", "xvals": [one(v) for v in xvals], "pvals": [one(v) for v in pvals]}


def catalogue():
    """The constructor catalogue.  (name, Entry) in a fixed order."""
    from gemseo.core.chains.additive_chain import MDOAdditiveChain
    from gemseo.core.chains.chain import MDOChain
    from gemseo.core.chains.initialization_chain import MDOInitializationChain
    from gemseo.core.chains.parallel_chain import MDOParallelChain
    from gemseo.core.chains.warm_started_chain import MDOWarmStartedChain
    from gemseo.disciplines.analytic import AnalyticDiscipline
    from gemseo.disciplines.array_based_function import ArrayBasedFunctionDiscipline
    from gemseo.disciplines.auto_py import AutoPyDiscipline
    from gemseo.disciplines.concatenater import Concatenater
    from gemseo.disciplines.linear_combination import LinearCombination
    from gemseo.disciplines.remapping import RemappingDiscipline
    from gemseo.disciplines.splitter import Splitter
    from gemseo.disciplines.taylor import TaylorDiscipline
    from gemseo.disciplines.wrappers.filtering_discipline import FilteringDiscipline

    E = []
    # --- harness-supplied constructors
    E.append(Entry("AnalyticDiscipline", _analytic3, **_ap(pvals=(0.0, 0.75))))
    E.append(Entry("AutoPyDiscipline", lambda: AutoPyDiscipline(py_func, py_jac), xname="x", pname="p",
                   xvals=[one(0.5), one(1.25)], pvals=[one(1.0), one(0.75)], grammars=(JSON,)))
    E.append(Entry("ArrayBasedFunctionDiscipline",
                   lambda: ArrayBasedFunctionDiscipline(array_func, {"x": 1, "p": 1}, {"y": 1, "z": 1}, array_jac),
                   **_ap()))
    E.append(Entry("LinearCombination", lambda: LinearCombination(["x", "p"], "y", {"x": 2.0, "p": -3.0}, offset=0.5),
                   **_ap()))
    E.append(Entry("Concatenater", lambda: Concatenater(["x", "p"], "y", {"x": 2.0, "p": 1.0}), **_ap()))
    E.append(Entry("Splitter", lambda: Splitter("x", {"a": [0], "b": [1, 2]}), xname="x", pname=None,
                   xvals=[array([1.0, 2.0, 3.0]), array([0.5, -1.0, 4.0])]))
    E.append(Entry("LinearDiscipline", _linear_discipline, xname="x", pname="p",
                   xvals=[array([0.5, 1.0]), array([1.25, -1.0])], pvals=[array([1.0, 1.0]), array([0.75, 0.5])]))
    E.append(Entry("ConstraintAggregation", _constraint_aggregation, **_ap(pvals=(0.0, 0.75))))
    E.append(Entry("FilteringDiscipline", lambda: FilteringDiscipline(_analytic("FA"), output_names=["y"]), **_ap()))
    E.append(Entry("RemappingDiscipline",
                   lambda: RemappingDiscipline(_analytic("RA"), {"x": "x", "p": "p"}, {"yy": "y", "zz": "z"}),
                   grammars=(JSON,), has_jac=False, **_ap()))  # linearize raises KeyError('yy') (not a C20 matter)
    E.append(Entry("TaylorDiscipline", lambda: TaylorDiscipline(_analytic("TA"), {"x": one(0.25), "p": one(0.5)}),
                   xname="x", pname="p", xvals=[one(0.5), one(1.25)], pvals=[one(0.5), one(0.75)],
                   has_jac=False, caches=("none",)))
    # TaylorDiscipline keeps its coefficients in self.jac, which a cache hit resets: execute(x); execute(x);
    # execute(x') raises KeyError, linearize after a hit raises "was not linearized" - with or without pickling
    # (a cache-transparency matter, not C20): replayed without a cache.
    E.append(Entry("MDOChain", lambda: MDOChain(_abc()), family="chain", **_ap()))
    E.append(Entry("MDOParallelChain", lambda: MDOParallelChain(_abc()[:1] + [_analytic("PB")]), family="chain", **_ap()))
    E.append(Entry("MDOAdditiveChain",
                   lambda: MDOAdditiveChain([AnalyticDiscipline({"y": "2*x+p"}, name="AA"),
                                             AnalyticDiscipline({"y": "x*p+3*p"}, name="AB")], ["y"]),
                   family="chain", **_ap()))
    E.append(Entry("MDOWarmStartedChain", lambda: MDOWarmStartedChain(_abc(), ["b"]), family="chain", has_jac=False,
                   stateful=True, caches=("none",), **_ap()))
    E.append(Entry("MDOInitializationChain", lambda: MDOInitializationChain(_abc(), available_data_names=["x", "p"]),
                   family="chain", has_jac=False, **_ap()))
    E.append(Entry("MDOScenarioAdapter", _scenario_adapter("MDOScenarioAdapter"), family="adapter", cost=3,
                   tol=1e-6, **_ap(xvals=(0.5, 1.25), pvals=(0.0, 0.75))))
    E.append(Entry("MDOObjectiveScenarioAdapter", _scenario_adapter("MDOObjectiveScenarioAdapter"), family="adapter",
                   cost=3, tol=1e-6, **_ap(xvals=(0.5, 1.25), pvals=(0.0, 0.75))))
    E.append(Entry("ODEDiscipline", _ode, xname="state", pname="k", xvals=[one(1.0), one(2.0)],
                   pvals=[one(1.0), one(0.5)], has_jac=False, cost=2, grammars=(JSON,)))
    E.append(Entry("OscillatorDiscipline", _factory("OscillatorDiscipline", omega=2.0, times=np.linspace(0.0, 1.0, 5)),
                   xname="position", pname="velocity", xvals=[one(0.0), one(0.5)], pvals=[one(1.0), one(0.25)],
                   has_jac=False, cost=2, grammars=(JSON,)))
    E.append(Entry("ScalableDiscipline", _scalable, xname="x_0", pname="x_1",
                   xvals=[array([0.5, 0.5]), array([0.25, 0.75])], pvals=[array([0.5]), array([0.75])]))
    E.append(Entry("MainDiscipline", _main_discipline, xname="x_0", pname="y_1",
                   xvals=[array([0.5]), array([0.25])], pvals=[array([0.5, 0.5]), array([0.75, 0.25])]))
    E.append(Entry("MaterialModelInterpolation",
                   _factory("MaterialModelInterpolation", e0=1.0, penalty=3.0, n_x=3, n_y=2, empty_elements=[],
                            full_elements=[]),
                   xname="xPhys", pname=None, xvals=[np.full(6, 0.5), np.linspace(0.2, 0.9, 6)], jac_in_run=True))
    E.append(Entry("ScalableDiscipline(data-driven)", _data_driven_scalable, cost=3, factory="-"))
    E.append(Entry("DiscFromExe", _disc_from_exe, has_jac=False, cost=3, grammars=(JSON,), caches=("simple",),
                   **_ap()))
    E.append(Entry("Discipline(user grammar class)", _user_grammar_discipline, grammars=(JSON,), factory="-",
                   **_ap(pvals=(0.0, 0.75))))
    E.append(Entry("SurrogateDiscipline", _surrogate, xname="x", pname="p", xvals=[one(0.5), one(-0.25)],
                   pvals=None, cost=2))
    # --- scenarios, functions, design spaces, problems (not discipline-factory classes)
    E.append(Entry("DOEScenario", _doe_scenario, family="scenario", adapter="scenario", factory="-", stateful=True,
                   has_jac=False, caches=("none",), grammars=(JSON,), cost=3, tol=1e-9))
    E.append(Entry("MDOScenario", _mdo_scenario, family="scenario", adapter="scenario", factory="-", stateful=True,
                   has_jac=False, caches=("none",), grammars=(JSON,), cost=3, tol=1e-5))
    xs = [array([0.5, 0.25]), array([1.25, -0.75])]
    for n, mk in (("MDOFunction", _mdo_function), ("MDOLinearFunction", _linear_function),
                  ("MDOQuadraticFunction", _quadratic_function), ("MDOFunction(composed)", _composed_function)):
        E.append(Entry(n, mk, family="function", adapter="function", factory="-", caches=("none",), grammars=(JSON,),
                       xvals=xs))
    for n, sub in (("JSONGrammar", False), ("SimpleGrammar", False), ("SimplerGrammar", False), ("PydanticGrammar", False),
                   ("JSONGrammar", True), ("SimpleGrammar", True)):
        E.append(Entry(f"{n}(user subclass)" if sub else n, _grammar(n, sub), family="grammar", adapter="grammar",
                       factory="-", caches=("none",), grammars=(JSON,), has_jac=False, **_ap(pvals=(0.0, 0.75))))
    E.append(Entry("OptimizationProblem", _problem(True), family="problem", adapter="problem", factory="-",
                   caches=("db",), grammars=(JSON,), xvals=xs))
    E.append(Entry("DesignSpace", _design_space, family="space", adapter="space", factory="-", caches=("none",),
                   grammars=(JSON,), has_jac=False, xname="x", pname="current value",
                   xvals=[array([0.5, 0.25, 1.0, 2.0]), array([1.0, -2.0, 3.0, 4.0])],
                   pvals=[array([0.5, 0.25, 1.0, 2.0]), array([-1.0, 2.0, 0.5, 3.0])]))
    # --- the 7 MDA classes on the Sellar system
    for n in ("MDAChain", "MDAGaussSeidel", "MDAJacobi", "MDANewtonRaphson", "MDAQuasiNewton", "MDAGSNewton"):
        E.append(Entry(n, _mda(n), family="mda", factory="mda", xname="x_1", pname="x_shared",
                       xvals=[one(1.0), one(2.0)], pvals=[array([1.0, 0.0]), array([1.5, 0.5])], tol=1e-7, cost=2))
    E.append(Entry("MDASequential", _mda_sequential, family="mda", factory="mda", xname="x_1", pname="x_shared",
                   xvals=[one(1.0), one(2.0)], pvals=[array([1.0, 0.0]), array([1.5, 0.5])], tol=1e-7, cost=2))
    # --- benchmark disciplines with a no-argument constructor (bindings found from their defaults)
    small = {"DensityFilter": {"n_x": 4, "n_y": 3}, "FiniteElementAnalysis": {"n_x": 4, "n_y": 3, "f_node": 12},
             "VolumeFraction": {"n_x": 4, "n_y": 3}}
    no_arg = ["Aerodynamics", "DensityFilter", "FiniteElementAnalysis", "IshigamiDiscipline", "Mission",
              "PropaneComb1", "PropaneComb2", "PropaneComb3", "PropaneReaction", "RosenMF", "Sellar1", "Sellar2",
              "SellarSystem", "SobieskiAerodynamics", "SobieskiAerodynamicsSG", "SobieskiChain",
              "SobieskiMDAGaussSeidel", "SobieskiMDAJacobi", "SobieskiMission", "SobieskiMissionSG",
              "SobieskiPropulsion", "SobieskiPropulsionSG", "SobieskiStructure", "SobieskiStructureSG", "Structure",
              "VolumeFraction"]
    json_files = {"Aerodynamics", "Mission", "Structure", "PropaneComb1", "PropaneComb2", "PropaneComb3",
                  "PropaneReaction", "RosenMF", "SobieskiAerodynamics", "SobieskiMission", "SobieskiPropulsion",
                  "SobieskiStructure"}  # grammars read from JSON files: the grammar type is not settable
    fixed = {"SobieskiChain", "SobieskiMDAGaussSeidel", "SobieskiMDAJacobi", "SobieskiAerodynamicsSG",
             "SobieskiMissionSG", "SobieskiPropulsionSG", "SobieskiStructureSG"}  # class fixes its grammar type
    for n in no_arg:
        kw = {}
        if n.startswith("Propane") or n == "SobieskiMDAJacobi":
            kw["has_jac"] = False  # no analytic Jacobian / linearization of the process not defined
        if n in small:
            kw["jac_in_run"] = True
        if n in ("RosenMF",):
            kw["xname"], kw["pname"] = "x", None
        if n.startswith("SobieskiMDA") or n == "SobieskiChain":
            kw["cost"] = 2
            kw["tol"] = 1e-6
            kw["family"] = "mda" if "MDA" in n else "chain"
            kw["xname"], kw["pname"] = "x_2", "x_3"   # pure inputs (couplings are overwritten by the process)
        E.append(Entry(n, _factory(n, **small.get(n, {})), grammars=(JSON,) if (n in json_files or n in fixed) else (JSON, SIMPLE),
                       **kw))
    return E


SKIPPED = {
    "JobSchedulerDisciplineWrapper": "needs a job scheduler (external tool)",
    "LSF": "needs the LSF job scheduler (external tool)",
    "SLURM": "needs the SLURM job scheduler (external tool)",
    "XLSDiscipline": "needs Excel / xlwings (external tool)",
}


def bind_from_defaults(entry, obj):
    """For benchmark disciplines: pick the caller-supplied input and the defaulted input among the inputs that
    have a floating-point default; values = the default and a slightly moved one."""
    g = obj.io.input_grammar
    dfl = g.defaults
    names = [n for n in g.names if n in dfl and np.asarray(dfl[n]).dtype.kind in "fc" and np.asarray(dfl[n]).size > 0]
    if entry.xname is None:
        entry.xname = names[0]
    if entry.pname is None and entry.pvals is None and len(names) > 1 and entry.name not in ("RosenMF",):
        entry.pname = [n for n in names if n != entry.xname][0]
    if entry.xvals is None:
        d = np.array(dfl[entry.xname])
        entry.xvals = [d.copy(), d * 1.01 + 0.001]
    if entry.pname is not None and entry.pvals is None:
        d = np.array(dfl[entry.pname])
        entry.pvals = [d.copy(), d * 0.99 + 0.002]
