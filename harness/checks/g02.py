from ..core import main
from ..growth.g02_db_maintenance import run

main("G02", run)
