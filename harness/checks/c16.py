"""C16 - derivative approximations are accurate to their order and respect bounds.

DerivApprox.tla (exact dyadic slice) is model-checked by TLC: every instance (function, point, method,
component subset, scalar / per-component step, design space) is an initial state, the action Compute
evaluates the method by definition, the invariants Shape / WithinBounds / ErrorEqualsOrderTerm /
OrderBound are checked exhaustively.  A second, printing run of the same module emits every instance with
the Jacobian and the set of evaluation points the specification computed; each of them is replayed on the
real gemseo objects (spec -> code):

* level "approx": FirstOrderFD / CenteredDifferences / ComplexStep .f_gradient(x, step, x_indices), serial,
  and for a subset with the process and the thread back-ends, on a harness function that logs every point
  it is called at; the instances with a design space, default x_indices and a scalar step also through
  OptimizationProblem(design_space, differentiation_method, differentiation_step) (replay_problem);
* level "disc" (c16_disc.py): DisciplineJacApprox.compute_approx_jac with input/output subsets and
  x_indices, Discipline.linearize in the three approximation modes (also after another mode was set),
  Discipline.check_jacobian / DisciplineJacApprox.check_jacobian(indices=...) on analytic Jacobians that are
  right / wrong in a stored entry / by a missing entry / by an extra entry, dense or sparse; default inputs
  that differ from the linearisation point;
* histories on one approximator object (c16_hist.py, DerivApproxHist.tla): Approximate / SetUpperBound /
  SetLowerBound / SetStep interleaved, the bounds of a call are those at the time of the call.

Steps are signed; a complex step is handed over as h or as h.i.

Python only transports values: polynomials, points, steps and expected numbers all come from TLC.
"""
from __future__ import annotations

import os
import re

import numpy as np

from .. import tlaval
from ..core import Check, MachineryError, main

K = 7
S = 2 ** K
INF = 64 * S  # DerivApproxHist!Inf: "unbounded" (an integer like every other bound of the specification)


def bound(v):
    """A bound of the specification (scale S) as a float."""
    return float("inf") if v >= INF else -float("inf") if v <= -INF else v / S

INVS = ["Shape", "WithinBounds", "OneComponent", "ErrorEqualsOrderTerm", "OrderBound", "DiscShape",
        "CheckVerdictMeaning"]


def cfg(level, rich, emit):
    s = f'CONSTANTS K = {K}\n Level = "{level}"\n Rich = {"TRUE" if rich else "FALSE"}\n'
    s += f' Emit = {"TRUE" if emit else "FALSE"}\nSPECIFICATION Spec\nCHECK_DEADLOCK FALSE\n'
    if not emit:
        s += "".join(f"INVARIANT {i}\n" for i in INVS)
    return s


_HEAD = re.compile(r'^<< ?"(CASE|DISC|FUNS)",', re.M)


def printed_records(out: str):
    """Values printed by PrintT(<<"TAG", ...>>): a record starts at a line '<< "TAG",' and continues over
    the following indented lines (TLC's pretty printer); -workers 1 keeps them contiguous."""
    lines = out.split("\n")
    i, n = 0, len(lines)
    while i < n:
        if _HEAD.match(lines[i]):
            buf = [lines[i]]
            i += 1
            while i < n and lines[i].startswith(" "):
                buf.append(lines[i])
                i += 1
            yield tlaval.parse_value(" ".join(buf))
        else:
            i += 1


# --------------------------------------------------------------------------- harness function

class PolyFn:
    """The polynomial vector function printed by the specification (<<"FUNS", Funs>>), evaluated by
    repeated multiplication (exact on the dyadic slice, real or complex), logging every call point."""

    def __init__(self, fun, logfile=None):
        self.n = fun["n"]
        self.polys = [[(mn["c"], tuple(mn["e"])) for mn in P] for P in fun["f"]]
        self.m = len(self.polys)
        self.log = []
        self.logfile = logfile

    def value(self, x):
        out = []
        for P in self.polys:
            tot = 0.0
            for c, e in P:
                t = float(c)
                for k, ek in enumerate(e):
                    for _ in range(ek):
                        t = t * x[k]
                tot = tot + t
            out.append(tot)
        return np.array(out)

    def __call__(self, x):
        x = np.asarray(x)
        p = tuple((float(np.real(v)), float(np.imag(v))) for v in x)
        self.log.append(p)
        if self.logfile is not None:  # process back-end: the call happens in a child
            fd = os.open(self.logfile, os.O_WRONLY | os.O_APPEND | os.O_CREAT)
            try:
                os.write(fd, (repr(p) + "\n").encode())
            finally:
                os.close(fd)
        return self.value(x)


def spec_points(pts):
    return {tuple((re_ / S, im / S) for re_, im in p) for p in pts}


def subset_class(idx0, n, dflt):
    """Class of the requested component sequence (0-based) for signatures."""
    if dflt:
        return "all_default"
    if list(idx0) == list(range(n)):
        return "all_explicit"
    if list(idx0) == list(range(len(idx0))):
        return "prefix"
    return "non_prefix"


def step_sign(hs):
    """Class of the signs of the steps of an instance, for signatures."""
    neg = [h < 0 for h in hs]
    return "negative" if all(neg) else "mixed" if any(neg) else "positive"


def exc_class(ex):
    m = str(ex)
    if "broadcast" in m:
        return "broadcast"
    if "all workers shall be different" in m:
        return "workers_identical"
    return m[:40]


_DS_CACHE = {}


def design_space(kind, n, lb, ub):
    from gemseo.algos.design_space import DesignSpace

    key = (kind, n, tuple(lb), tuple(ub))
    if key not in _DS_CACHE:
        ds = DesignSpace()
        if kind == "phys":
            ds.add_variable("x", n, lower_bound=np.array(lb) / S, upper_bound=np.array(ub) / S)
        else:  # the approximator works in normalised coordinates: any finite physical box will do
            ds.add_variable("x", n, lower_bound=np.full(n, -3.0), upper_bound=np.full(n, 5.0))
        _DS_CACHE[key] = ds
    return _DS_CACHE[key]


def approx_class(meth):
    from gemseo.utils.derivatives.centered_differences import CenteredDifferences
    from gemseo.utils.derivatives.complex_step import ComplexStep
    from gemseo.utils.derivatives.finite_differences import FirstOrderFD

    return {"fd": FirstOrderFD, "cd": CenteredDifferences, "cs": ComplexStep}[meth]


def close(meth, got, want):
    """Exact equality on the dyadic slice; complex step to 1e-12 relative (calibration)."""
    if not np.all(np.isfinite(got)):
        return False
    if meth == "cs":
        return bool(np.all(np.abs(got - want) <= 1e-12 * np.maximum(1.0, np.abs(want))))
    return bool(np.array_equal(got, want))


def replay_approx(ck: Check, funs, I, jac, pts, k, par="serial"):
    """One instance of level "approx" on the real approximator.  Returns True when it ran quietly."""
    meth, n = I["meth"], funs[I["fid"]]["n"]
    idx0 = [c - 1 for c in I["idx"]]
    x = np.array(I["X"], dtype=float) / S
    hs = np.array(I["hs"], dtype=float) / S
    step = float(hs[0]) if I["sk"] == "scalar" else hs
    if I.get("sf") == "imag":  # a complex step handed over as the imaginary number h.i
        step = 1j * step
    lb, ub = list(I["lb"]), list(I["ub"])
    near = any(I["ds"] != "none" and ub[c] - abs(h) < I["X"][c] < ub[c] for c, h in zip(idx0, I["hs"]))
    sig = {"level": "approx", "method": meth, "ds": I["ds"], "subset": subset_class(idx0, n, I["dflt"]),
           "step": I["sk"], "par": par, "step_sign": step_sign(I["hs"]), "step_form": I.get("sf", "real")}
    case = {"instance": I, "x": x.tolist(), "step": np.asarray(step).tolist(), "x_indices": idx0,
            "expected_jac_scaled": jac, "scale": S * S}
    logfile = None
    if par == "procs":
        logfile = str(ck.work / f"pts-{k}.log")
        if os.path.exists(logfile):
            os.remove(logfile)
    f = PolyFn(funs[I["fid"]], logfile)
    kw = {}
    if I["ds"] != "none":
        kw = {"design_space": design_space(I["ds"], n, lb, ub), "normalize": I["ds"] == "norm"}
    if par != "serial":
        kw.update(parallel=True, n_processes=2, use_threading=par == "threads")
    cls = approx_class(meth)
    # the step reaches the approximator either at construction or at the call (both are public)
    at_init = (k % 2 == 0) and not (meth == "cs" and I["sk"] == "vector")

    def call():
        ap = cls(f, step=step, **kw) if at_init else cls(f, **kw)
        return ap.f_gradient(x, x_indices=() if I["dflt"] else idx0, **({} if at_init else {"step": step}))

    try:
        g = call()
    except Exception as ex:  # noqa: BLE001
        n_workers = len(idx0) * (2 if meth == "cd" else 1) + (1 if meth == "fd" else 0)
        ck.violation("Runs", dict(sig, exception=type(ex).__name__, msg=exc_class(ex),
                                  several_tasks=n_workers > 1), dict(case, error=repr(ex)))
        return False
    if par == "procs":
        logged = set()
        if os.path.exists(logfile):
            with open(logfile) as fh:
                logged = {eval(line) for line in fh if line.strip()}  # noqa: S307 (our own repr)
            os.remove(logfile)
    else:
        logged = set(f.log)
    return judge(ck, sig, case, I, f.m, n, idx0, g, logged, jac, pts, near)


def judge(ck: Check, sig, case, I, m, n, idx0, g, logged, jac, pts, near):
    """Compare what one f_gradient call did (the points the function was called at, the returned array)
    with what the specification computed for the instance I (bounds = those of I: the bounds at the time of
    the call).  Returns True when the call is quiet."""
    meth = I["meth"]
    ub = [bound(u) for u in I["ub"]]
    quiet = True
    # bound safety on the points the function was really called at
    if I["ds"] != "none":
        over = [p for p in logged if any(p[c][0] > ub[c] for c in range(n))]
        if over:
            ck.violation("WithinBounds", dict(sig, near_ub=near),
                         dict(case, beyond_upper_bound=sorted(over), ub=ub))
            return False
    want_pts = spec_points(pts)
    if logged != want_pts:
        ck.violation("EvalPoints", sig, dict(case, impl=sorted(logged), spec=sorted(want_pts)))
        quiet = False
    g = np.asarray(g)
    want = np.array(jac, dtype=float).reshape(m, len(idx0)) / (S * S)
    if g.shape != want.shape:
        ck.violation("Shape", sig, dict(case, impl_shape=list(g.shape), spec_shape=list(want.shape)))
        return False
    if not close(meth, g, want):
        symptom = "nonfinite" if not np.all(np.isfinite(g)) else "value"
        ck.violation("Accuracy", dict(sig, symptom=symptom), dict(case, impl=g.tolist(), spec=want.tolist()))
        quiet = False
    return quiet


MODE = {"fd": "finite_differences", "cd": "centered_differences", "cs": "complex_step"}


def replay_problem(ck: Check, funs, I, jac, pts, k):
    """The same instance through OptimizationProblem(design_space, differentiation_method, differentiation_step):
    the pre-processed objective's Jacobian is the approximator's, built with the problem's design space
    (ds "phys": physical inputs; ds "norm": normalised inputs on the unit box, where x_n = x)."""
    from gemseo.algos.design_space import DesignSpace
    from gemseo.algos.optimization_problem import OptimizationProblem
    from gemseo.core.mdo_functions.mdo_function import MDOFunction

    meth, n = I["meth"], funs[I["fid"]]["n"]
    x = np.array(I["X"], dtype=float) / S
    h = I["hs"][0] / S
    lb, ub = list(I["lb"]), list(I["ub"])
    near = any(ub[c] - abs(I["hs"][0]) < I["X"][c] < ub[c] for c in range(n))
    use_db = k % 2 == 1
    sig = {"level": "problem", "method": meth, "ds": I["ds"], "subset": "all_default", "step": "scalar",
           "par": "serial", "step_sign": step_sign(I["hs"]), "step_form": "real"}
    case = {"instance": I, "x": x.tolist(), "step": h, "use_database": use_db,
            "expected_jac_scaled": jac, "scale": S * S}
    f = PolyFn(funs[I["fid"]])
    try:
        ds = DesignSpace()
        ds.add_variable("x", n, lower_bound=np.array(lb) / S, upper_bound=np.array(ub) / S, value=x)
        if meth == "cs":
            ds.to_complex()  # what the optimisation libraries do for complex step
        problem = OptimizationProblem(ds, differentiation_method=MODE[meth], differentiation_step=h)
        problem.objective = MDOFunction(f, "f")
        problem.preprocess_functions(is_function_input_normalized=I["ds"] == "norm", use_database=use_db,
                                     round_ints=False)
        g = np.asarray(problem.objective.jac(x))
    except Exception as ex:  # noqa: BLE001
        ck.violation("Runs", dict(sig, exception=type(ex).__name__, msg=exc_class(ex)), dict(case, error=repr(ex)))
        return False
    logged = set(f.log)
    over = [p for p in logged if any(p[c][0] > ub[c] / S for c in range(n))]
    if over:
        ck.violation("WithinBounds", dict(sig, near_ub=near),
                     dict(case, beyond_upper_bound=sorted(over), ub=[u / S for u in ub]))
        return False
    want_pts = spec_points(pts)
    if logged != want_pts:
        ck.violation("EvalPoints", sig, dict(case, impl=sorted(logged), spec=sorted(want_pts)))
        return False
    want = np.array(jac, dtype=float).reshape(f.m, n) / (S * S)
    if g.shape != want.shape:
        ck.violation("Shape", sig, dict(case, impl_shape=list(g.shape), spec_shape=list(want.shape)))
        return False
    if not close(meth, g, want):
        symptom = "nonfinite" if not np.all(np.isfinite(g)) else "value"
        ck.violation("Accuracy", dict(sig, symptom=symptom), dict(case, impl=g.tolist(), spec=want.tolist()))
        return False
    return True


def run(ck: Check):
    import random

    import time

    rng = random.Random(ck.seed)
    rich = ck.thorough
    t0 = time.time()
    phases = ck.extra.setdefault("phase_wall_s", {})

    def lap(name):
        nonlocal t0
        phases[name] = round(time.time() - t0, 1)
        t0 = time.time()
    # ---- 1. exhaustive check of the specification's own properties (both levels)
    # (per-expression coverage of the recursive polynomial operators is expensive: non-vacuity is established
    # below by distinct states == 2 x instances at depth 2, i.e. Compute was taken, and the invariants
    # evaluated, on every instance of both levels)
    rx = ck.tlc("DerivApprox", cfg("approx", rich, False), workers=4, timeout=1500, coverage=False)
    rdx = ck.tlc("DerivApprox", cfg("disc", rich, False), workers=4, timeout=1500, coverage=False)
    lap("tlc_exhaustive")
    # ---- 2. approximator level: instances + expected results from TLC, replayed on gemseo
    r = ck.tlc("DerivApprox", cfg("approx", rich, True), workers=1, timeout=1500, count=False, coverage=False)
    funs, cases = None, []
    for v in printed_records(r.out):
        if v[0] == "FUNS":
            funs = {i + 1: fn for i, fn in enumerate(v[1])}
        elif v[0] == "CASE":
            cases.append(v[1:])
    if funs is None or len(cases) * 2 != r.distinct or rx.distinct != r.distinct or rx.depth != 2:
        raise MachineryError(f"printing run: {len(cases)} CASE records for {r.distinct} states "
                             f"(exhaustive run: {rx.distinct} states, depth {rx.depth})")
    lap("tlc_print_and_parse_approx")
    n_quiet = 0
    eligible = []
    for k, (I, jac, pts) in enumerate(cases):
        ok = replay_approx(ck, funs, I, jac, pts, k)
        ck.traces += 1
        if ok:
            n_quiet += 1
            eligible.append(k)
            if k % 997 == 0:
                ck.sample({"instance": I, "expected_jac_scaled_by_2^14": jac, "eval_points_scaled_by_2^7": pts})
    lap("replay_approx_serial")
    # parallel back-ends on a seeded subset (per method) of the instances the serial run handled
    n_par = 40 if rich else 8
    runs = {"procs": 0, "threads": 0}
    for meth in ("fd", "cd", "cs"):
        multi = [k for k in eligible if cases[k][0]["meth"] == meth and len(cases[k][0]["idx"]) >= 2]
        for par in ("procs", "threads"):
            for k in sorted(rng.sample(multi, min(n_par, len(multi)))):
                replay_approx(ck, funs, *cases[k], k, par=par)
                ck.traces += 1
                runs[par] += 1
    ck.extra["approx_instances"] = len(cases)
    ck.extra["approx_instances_quiet_serial"] = n_quiet
    ck.extra["process_backend_runs"] = runs["procs"]
    ck.extra["thread_backend_runs"] = runs["threads"]
    lap("replay_approx_parallel")
    # the same instances through an optimisation problem (the place where gemseo hands a design space to
    # the approximators): default x_indices, scalar step, with a design space
    prob = [k for k, (I, _, _) in enumerate(cases)
            if I["dflt"] and I["sk"] == "scalar" and I["ds"] != "none" and I["sf"] == "real"]
    cap = 6000 if rich else 1500
    if len(prob) > cap:
        prob = sorted(rng.sample(prob, cap))
    for k in prob:
        replay_problem(ck, funs, *cases[k], k)
        ck.traces += 1
    ck.extra["problem_level_instances"] = len(prob)
    lap("replay_problem")
    # ---- 3. discipline level
    from . import c16_disc

    r = ck.tlc("DerivApprox", cfg("disc", rich, True), workers=1, timeout=1500, count=False, coverage=False)
    dcases = [v[1:] for v in printed_records(r.out) if v[0] == "DISC"]
    if len(dcases) * 2 != r.distinct or rdx.distinct != r.distinct or rdx.depth != 2:
        raise MachineryError(f"printing run: {len(dcases)} DISC records for {r.distinct} states "
                             f"(exhaustive run: {rdx.distinct} states, depth {rdx.depth})")
    lap("tlc_print_and_parse_disc")
    c16_disc.run(ck, funs, dcases, rng)
    lap("replay_disc")
    # ---- 4. histories on one approximator object (DerivApproxHist.tla)
    from . import c16_hist

    c16_hist.run(ck, funs)
    lap("histories")
    ck.exhaustive = True  # every instance of the bounded enumeration is replayed serially
    ck.assumptions += [
        "exact-arithmetic slice: polynomials of degree <= 3 with integer coefficients, dyadic points/steps "
        f"(multiples of 2^-{K}, steps 2^-3..2^-6): truncation error only, no round-off regime",
        "complex step compared to 1e-12 relative, forward/centred differences exactly",
        "centred differences: points strictly between lb and lb+step are not enumerated (the property "
        "speaks of upper bounds only)",
        "process back-end: evaluation points are logged by the harness function through an O_APPEND file",
    ]


if __name__ == "__main__":
    main("C16", run)
