"""C06 - every MDA algorithm converges to the multidisciplinary fixed point (exact-arithmetic slice).

MDA.tla (with Dyadic.tla, Mat.tla) is the specification: coupled linear systems y = a(x) + B y with B
nilpotent (integer) or dyadic contractive over several coupling graphs (one group, weakly coupled head
or tail, two groups in sequence, self-coupled disciplines), Jacobi / Gauss-Seidel sweeps and MDAChain
programs at the granularity of one discipline execution, the resolved variables of each (inner) MDA, the
library's over-relaxation, the stop test on the squared normed residual for five scalings, a second
execution with or without warm start, the exact rational solution and the properties NilExact / NilStop /
APriori / APost / ChainEqualsMonolithic / Budget, all model-checked by TLC - with the rules of
gauss_seidel.py as they were before fix faa2efe ("asread": refuted by TLC, finding D0601, kept only as that
refutation) and as they are now ("repaired": hold; the oracle of the conformance).

Binding
 (1) code -> spec: MDAJacobi / MDAGaussSeidel / MDAChain[either] (no acceleration, relaxation w/2 in
     {1/2, 1, 3/2}, the five scalings, listing orders, tolerances 2^-t and 0, max_mda_iter, one or two
     executions, warm start) and MDASequential of two of them (first MDA with its own looser tolerance
     and max_mda_iter) run on harness disciplines that log every execution; MDATrace.tla demands
     that every logged input / output / returned value EQUALS the specification's (doubles are exact on
     the slice) and that the iteration count and convergence flag of every (inner) MDA are the
     specification's.  Every invariant of MDA.tla is evaluated in every state of every trace.
 (2) spec -> code: every class of MDAFactory (MDAChain with each inner class) x acceleration x
     relaxation {0.5, 1, 1.2} x scaling x listing order x warm start on the instances TLC printed; the
     returned values and the re-execution residuals of the harness disciplines go back to TLC
     (MDAReport.tla) as exact big dyadics and are judged against Exact and the bound of the
     specification; "reports a normed residual <= tolerance within max_mda_iter" is demanded of every
     run (the failing combinations are the known findings D17 and D0603; D0601 and D0602 are fixed).
     Included: generic MDASequential([first MDA with its own tolerance 1e-2, tight second MDA]) judged with
     the tolerance of the SEQUENCE, and MDAChain with inner_mda_settings given as a settings MODEL or a
     dictionary, un-accelerated inner MDAs needing more than the default 20 iterations (tolerance 1e-12).
 Dimensions that are not part of the mathematical system, and on which the specification therefore demands
 the SAME behaviour (both bindings): the TYPE declared for the coupling data (integer-typed arrays in the
 grammars wherever MDA.tla says every value is an integer: IntegralOrbit, invariant Integral) and harness
 disciplines that fill and return the same pre-allocated output array at every execution.
 QUIET instances (one discipline sees x, zero start: seeds >= 100 of the generator) give first residuals that
 vanish exactly on some resolved variables only (StalledStarts, printed by TLC per instance): the per-variable
 and per-component scalings are driven through their zero-reference rule there, in a first and in a second
 execution of the same object (the witness StalledRef is counted on the traces by MDATrace).
"""
from __future__ import annotations

import itertools
import json
import os
import random

import numpy as np

from ..core import Check, MachineryError, main
from . import c06_disc as D

SCALING = {"no": "NO_SCALING", "init": "INITIAL_RESIDUAL_NORM", "ncpl": "N_COUPLING_VARIABLES",
           "sub": "INITIAL_SUBRESIDUAL_NORM", "comp": "INITIAL_RESIDUAL_COMPONENT",
           "scomp": "SCALED_INITIAL_RESIDUAL_COMPONENT"}
INVS = ["TypeOK", "Budget", "NilExact", "NilStop", "APriori", "APost", "SeqHandOver", "ChainEqualsMonolithic",
        "Integral"]
RES = "MDA residuals norm"


def tla_set(xs):
    return "{" + ", ".join(f'"{x}"' if isinstance(x, str) else str(x).upper() if isinstance(x, bool) else str(x)
                           for x in xs) + "}"


def consts(*, fams, profiles, seeds, algs=("J", "GS", "CJ", "CGS", "SJ", "SGS"), ws=(1, 2), tols=(2, 6), maxits=(2, 4),
           scals=("no", "init"), warm=(False,), nruns=1, selmod=1, selres=(0,), emit=False, rules="repaired"):
    return ("CONSTANTS\n"
            f" Fams = {tla_set(fams)}\n Profiles = {tla_set(profiles)}\n Seeds = {tla_set(seeds)}\n"
            f" Algs = {tla_set(algs)}\n Ws = {tla_set(ws)}\n Tols = {tla_set(tols)}\n MaxIts = {tla_set(maxits)}\n"
            f" Scals = {tla_set(scals)}\n Warm = {tla_set(warm)}\n NRuns = {nruns}\n"
            f" Rules = \"{rules}\"\n"
            f" SelMod = {selmod}\n SelRes = {tla_set(selres)}\n Emit = {str(emit).upper()}\n")


def inv_lines():
    return "".join(f"INVARIANT {i}\n" for i in INVS)


# ------------------------------------------------------------------ (1) code -> spec traces

def build_mda(inst, cfg, *, log=None):
    from gemseo.mda.gauss_seidel import MDAGaussSeidel
    from gemseo.mda.jacobi import MDAJacobi
    from gemseo.mda.mda_chain import MDAChain
    from gemseo.mda.sequential_mda import MDASequential

    ds = D.make_disciplines(inst, log, dtype=cfg.get("dtype", "float"), reuse=bool(cfg.get("reuse")))
    ds = [ds[i - 1] for i in cfg["ord"]]
    tol = 0.0 if cfg["t"] < 0 else 2.0 ** (-cfg["t"])
    base = dict(tolerance=tol, max_mda_iter=cfg["maxit"], warm_start=bool(cfg["warm"]))
    solver = dict(over_relaxation_factor=cfg["w"] / 2.0, acceleration_method="NoTransformation")
    alg = cfg["alg"]
    if alg == "J":
        mda = MDAJacobi(ds, n_processes=1, **base, **solver)
    elif alg == "GS":
        mda = MDAGaussSeidel(ds, **base, **solver)
    elif alg == "CJ":
        mda = MDAChain(ds, inner_mda_name="MDAJacobi", inner_mda_settings=dict(solver, n_processes=1), **base)
    elif alg == "CGS":
        mda = MDAChain(ds, inner_mda_name="MDAGaussSeidel", inner_mda_settings=solver, **base)
    else:
        # the generic sequence: a first MDA with its OWN (looser) tolerance and max_mda_iter, then one
        # with those of the sequence
        first = dict(tolerance=0.0 if cfg["t1"] < 0 else 2.0 ** (-cfg["t1"]), max_mda_iter=cfg["m1"], **solver)
        mk = {"J": lambda **k: MDAJacobi(ds, n_processes=1, **k), "GS": lambda **k: MDAGaussSeidel(ds, **k)}
        seq = [mk[cfg["a1"]](**first), mk["J" if alg == "SJ" else "GS"](**base, **solver)]
        mda = MDASequential(ds, mda_sequence=seq, **base)
    mda.scaling = getattr(mda.ResidualScaling, SCALING[cfg["scal"]])
    return mda


def solvers_of(mda):
    """The objects that iterate, in execution order: the MDA itself, the inner MDAs of a chain, the MDAs
    of a sequence."""
    return list(getattr(mda, "inner_mdas", None) or getattr(mda, "mda_sequence", None) or [mda])


def trace_sig(inst, cfg, dw, **more):
    return dict({"alg": cfg["alg"], "w": cfg["w"], "scal": cfg["scal"], "warm": cfg["warm"], "fam": inst.fam,
                 "gs_delayed_weak": cfg["alg"] == "GS" and tuple(cfg["ord"]) in dw,
                 "dtype": cfg.get("dtype", "float"), "reuse": bool(cfg.get("reuse")),
                 # (finding D0604) an iteration loop entered on data that ARE the disciplines' output arrays:
                 # after Gauss-Seidel's initial sweep, or after the previous MDA of a sequence
                 "loop_starts_on_discipline_outputs": cfg["alg"] in ("GS", "CGS", "SGS")}, **more)


def record_trace(ck, tid, inst, cfg, dw):
    log = []
    sig = trace_sig(inst, cfg, dw)
    ok, mda = ck.guard("TraceRuns", dict(sig, step="build"), build_mda, inst, cfg, log=log)
    if not ok:
        return None
    events = []
    tol = 0.0 if cfg["t"] < 0 else 2.0 ** (-cfg["t"])
    solvers = solvers_of(mda)
    for run in range(1, cfg["runs"] + 1):
        n0 = [len(m.residual_history) for m in solvers]
        del log[:]
        ok, out = ck.guard("TraceRuns", dict(sig, step="execute", run=run), mda.execute,
                           {"x": np.array([float(inst.xs[run - 1])])})
        if not ok:
            return None
        for d, inp, o in log:
            events.append({"ev": "exec", "d": d, "inp": [D.dyadic_small(v) for v in inp],
                           "out": [D.dyadic_small(v) for v in o]})
        mlog = []
        for m, n in zip(solvers, n0):
            if cfg["alg"] in ("SJ", "SGS"):
                # the MDAs of a sequence reset their history at each execution; one that was skipped has none
                k = len(m.residual_history)
                if k == 0:
                    continue
            else:
                k = len(m.residual_history) - n
            mlog.append([k, bool(k > 0 and float(m.normed_residual) <= float(m.settings.tolerance))])
        events.append({"ev": "end", "run": run, "log": mlog,
                       "y": [D.dyadic_small(v) for v in D.coupling_vector(inst, out)]})
    # the flavour of the disciplines travels beside the settings of the MDA (cfg is the record of MDA.tla)
    return {"id": tid, "inst": inst.json(), "cfg": {k: v for k, v in cfg.items() if k not in FLAVOUR},
            "dtype": cfg.get("dtype", "float"), "reuse": bool(cfg.get("reuse")), "events": events, "_sig": sig,
            "_cfg": cfg}


FLAVOUR = ("dtype", "reuse")


def flavour(rnd, inst, cfg):
    """The flavour of the harness disciplines for a configuration: integer-typed couplings where MDA.tla
    admits them (IntegralOrbit: nilpotent family, no relaxation - MDATrace refuses the trace otherwise), a
    re-used output array anywhere but in a sequence that ends with a Jacobi stage: entered on data that ARE
    the disciplines' output arrays, the first sweep of that stage reads the values the disciplines executed
    before have just written (a Gauss-Seidel-like sweep) - the property does not forbid it (the result is
    judged by the class x setting replay, MDASequential[...>MDAJacobi] with re-used arrays included), only the
    exact-iterate binding of MDATrace would."""
    if inst.fam == "nil" and cfg["w"] == 2 and rnd.random() < 0.5:
        cfg["dtype"] = "int"
    if cfg["alg"] != "SJ" and rnd.random() < 0.3:
        cfg["reuse"] = True
    return cfg


def trace_cfgs(rnd, inst, env, n, dw=(), thorough=False, stalled=()):
    """n configurations inside the exactness envelope TLC printed for the instance (dw: the listing
    orders in which a Gauss-Seidel reads a weak coupling before it is produced - always visited, with
    several tolerances, so that the stop decisions on the resolved variables are exercised there)."""
    out = []
    perms = list(itertools.permutations(range(1, inst.nd + 1)))
    mm = int(env["GS"][1][0])
    if mm >= 1:
        for j, order in enumerate(sorted(dw)):
            for t, scal in ((-1, "no"), (2, "no"), (4, "ncpl"))[:(3 if j < 2 else 1) if thorough else 1]:
                out.append({"alg": "GS", "w": 2, "ord": list(order), "t": t, "maxit": mm, "scal": scal,
                            "warm": False, "runs": 1, "a1": "J", "t1": 1, "m1": 1})
    # stalled starts (TLC: the first residual vanishes on some resolved variable only): the scalings whose
    # reference is taken per variable / per component, in a first and a second execution of the object
    for j, (a, order) in enumerate(sorted(stalled)):
        if j >= (4 if thorough else 2) * (1 if a == "J" else 2):
            continue
        for scal, alg in (("sub", a), ("comp", a), ("sub", "C" + a), ("sub", "S" + a))[:4 if thorough or j == 0 else 1]:
            two = alg in ("J", "GS") and inst.xs[0] != inst.xs[1]
            warm = two and rnd.random() < 0.5
            mm = int(env[alg][1][1 if warm else 0])
            if mm < 1:
                continue
            out.append({"alg": alg, "w": 2, "ord": list(order), "t": rnd.choice([4, 8, -1]), "maxit": min(mm, 6),
                        "scal": scal, "warm": bool(warm), "runs": 2 if two else 1, "a1": a, "t1": 1, "m1": 1})
    n += len(out)
    for _ in range(4 * n):
        if len(out) >= n:
            break
        alg = rnd.choice(["J", "GS", "CJ", "CGS", "SJ", "SGS"])
        seq = alg in ("SJ", "SGS")
        w = rnd.choice([1, 2, 2, 3])
        warm = not seq and rnd.random() < 0.25 and inst.xs[0] != inst.xs[1]
        runs = 2 if (warm or (not seq and rnd.random() < 0.2 and inst.xs[0] != inst.xs[1])) else 1
        mm = int(env[alg][w - 1][1 if warm else 0])
        lo = 0 if alg in ("GS", "CGS") else 1
        if mm < lo:
            continue
        maxit = rnd.randint(lo, mm)
        cfg = {"alg": alg, "w": w, "ord": list(rnd.choice(perms)), "t": rnd.choice([-1, 1, 2, 3, 4, 6, 8, 12]),
               "maxit": maxit, "scal": rnd.choice(["no", "init", "ncpl", "sub", "comp"]),
               "warm": bool(warm), "runs": runs, "a1": "J", "t1": 1, "m1": 1}
        if seq:
            # a first stage with its own, looser tolerance (the envelope is printed for m1 <= maxit)
            cfg.update(a1=rnd.choice(["J", "GS"]), t1=rnd.choice([1, 2, 3]), m1=rnd.randint(1, maxit),
                       t=rnd.choice([-1, 4, 6, 8, 12]))
        out.append(cfg)
    return [flavour(rnd, inst, cfg) for cfg in out]


def validate_traces(ck, traces, base_consts):
    if not traces:
        return
    path = ck.work / "mda_traces.json"
    path.write_text(json.dumps([{k: v for k, v in t.items() if not k.startswith("_")} for t in traces]))
    cfg = (base_consts + "INIT TInit\nNEXT TNext\nCONSTRAINT Furthest\nPOSTCONDITION Accepted\nCHECK_DEADLOCK FALSE\n"
           + inv_lines())
    r = ck.tlc("MDATrace", cfg, workers=1, timeout=900, env={"TRACE_FILE": str(path)}, coverage=True,
               require_actions=("TExec", "TSingle", "TEnd", "TSilent"))
    verdicts = {v[1]: (int(v[2]), int(v[3])) for v in r.printed() if v and v[0] == "TRACE"}
    for v in r.printed():
        if v and v[0] == "TRACE" and int(v[4]) > 0:
            t = next(t for t in traces if t["id"] == v[1])
            key = f"{t['cfg']['scal']}/run{int(v[4])}"
            ck.extra.setdefault("traces_tested_against_a_partly_zero_first_residual", {}).setdefault(key, 0)
            ck.extra["traces_tested_against_a_partly_zero_first_residual"][key] += 1
    if len(verdicts) != len(traces):
        raise MachineryError(f"MDATrace judged {len(verdicts)} of {len(traces)} traces:\n{r.out[-1500:]}")
    for t in traces:
        reached, total = verdicts[t["id"]]
        ck.traces += 1
        if reached == total:
            continue
        ev = t["events"][reached] if 0 <= reached < total else {"ev": "init"}
        nsweep = sum(1 for e in t["events"][:reached] if e["ev"] == "exec") // len(t["inst"]["sz"])
        c = t["_cfg"]
        ck.violation("TraceConformance",
                     dict(t["_sig"], event=ev["ev"], sweep=nsweep,
                          run=sum(1 for e in t["events"][:reached] if e["ev"] == "end") + 1),
                     {"trace": t["id"], "matched_events": reached, "of": total, "rejected_event": ev,
                      "cfg": c, "inst": t["inst"]})


# ------------------------------------------------------------------ (2) spec -> code reports

ACCS = ["NoTransformation", "Aitken", "Alternate2Delta", "AlternateDeltaSquared", "MinimumPolynomial", "Secant"]
RELAX = [1.0, 0.5, 1.2]
# class, kind of residual the class tests (see MDAReport.tla), inner class of an MDAChain
CLASSES = [("MDAJacobi", "J", None), ("MDAGaussSeidel", "GS", None), ("MDANewtonRaphson", "J", None),
           ("MDAQuasiNewton", "root", None), ("MDAGSNewton", "both", None), ("MDASequential", "both", None),
           # generic sequences whose first MDA has its OWN loose tolerance 1e-2 (inner = "first>second")
           ("MDASequential", "both", "MDAJacobi>MDANewtonRaphson"),
           ("MDASequential", "both", "MDAGaussSeidel>MDANewtonRaphson"),
           ("MDASequential", "both", "MDAJacobi>MDAGaussSeidel"),
           ("MDASequential", "both", "MDAGaussSeidel>MDAJacobi"),
           ("MDAChain", "J", "MDAJacobi"), ("MDAChain", "GS", "MDAGaussSeidel"),
           ("MDAChain", "J", "MDANewtonRaphson"), ("MDAChain", "root", "MDAQuasiNewton"),
           ("MDAChain", "both", "MDAGSNewton")]
SERIAL = {"MDAJacobi", "MDANewtonRaphson", "MDAQuasiNewton"}      # classes with an n_processes setting


def solver_settings(cls, acc, relax):
    kw = {"acceleration_method": acc, "over_relaxation_factor": relax}
    if cls in SERIAL:
        kw["n_processes"] = 1
    return kw


def build_class(inst, conf):
    """The MDA object of a configuration (class x acceleration x relaxation x scaling x order x warm)."""
    from gemseo.mda.factory import MDAFactory

    cls, kind, inner = conf["cls"], conf["kind"], conf["inner"]
    ds = D.make_disciplines(inst, split=bool(conf.get("split")), dtype=conf.get("dtype", "float"),
                            reuse=bool(conf.get("reuse")))
    ds = [ds[i - 1] for i in conf["ord"]]
    base = dict(tolerance=10.0 ** (-conf["p"]), max_mda_iter=conf["maxit"], warm_start=conf["warm"])
    acc, relax = conf["acc"], conf["relax"]
    fac = MDAFactory()
    if cls == "MDAChain":
        inner_settings = {} if inner == "MDAGSNewton" else solver_settings(inner, acc, relax)
        if conf.get("form") == "model":
            # the settings of the inner MDA as a pydantic model: its defaults must not override what the
            # chain cascades (tolerance, max_mda_iter, ...)
            inner_settings = fac.get_class(inner).Settings(**inner_settings)
        mda = fac.create(cls, ds, inner_mda_name=inner, **base, inner_mda_settings=inner_settings)
    elif cls == "MDAGSNewton":
        mda = fac.create(cls, ds, **base, gauss_seidel_settings=solver_settings("MDAGaussSeidel", acc, relax),
                         newton_settings=solver_settings("MDANewtonRaphson", acc, relax))
    elif cls == "MDASequential" and inner:
        a, b = inner.split(">")
        first = fac.create(a, ds, **dict(base, tolerance=1e-2, max_mda_iter=50), **solver_settings(a, acc, relax))
        second = fac.create(b, ds, **base, **solver_settings(b, acc, relax))
        mda = fac.create(cls, ds, mda_sequence=[first, second], **base)
    elif cls == "MDASequential":
        first = fac.create("MDAJacobi", ds, **dict(base, max_mda_iter=2), **solver_settings("MDAJacobi", acc, relax))
        second = fac.create("MDANewtonRaphson", ds, **base, **solver_settings("MDANewtonRaphson", acc, relax))
        mda = fac.create(cls, ds, mda_sequence=[first, second], **base)
    else:
        mda = fac.create(cls, ds, **base, **solver_settings(cls, acc, relax))
    mda.scaling = getattr(mda.ResidualScaling, SCALING[conf["scal"]])
    return mda


def conf_sig(inst, conf, **more):
    name = conf["cls"] if conf["inner"] is None else f"{conf['cls']}[{conf['inner']}]"
    solver = conf["inner"] or conf["cls"]
    if conf["cls"] == "MDASequential":
        solver = (conf["inner"] or "MDAJacobi>").split(">")[0]     # the fixed-point stage
    return dict({"cls": name, "solver": solver, "form": conf.get("form", "dict"), "acc": conf["acc"], "relax": conf["relax"],
                 "relax_is_one": conf["relax"] == 1.0, "scal": conf["scal"], "warm": conf["warm"],
                 "fam": inst.fam, "gs_delayed_weak": bool(conf.get("gs_delayed_weak")),
                 "split": bool(conf.get("split")), "dtype": conf.get("dtype", "float"),
                 "reuse": bool(conf.get("reuse")),
                 "loop_starts_on_discipline_outputs": ("GaussSeidel" in name or "GSNewton" in name
                                                       or conf["cls"] == "MDASequential")}, **more)


def run_conf(ck, rid, inst, conf):
    """Execute one configuration; returns the report for MDAReport.tla (None when nothing can be judged)."""
    sig = conf_sig(inst, conf)
    ok, mda = ck.guard("Runs", dict(sig, step="build"), build_class, inst, conf)
    if not ok:
        return None
    out = None
    runs = 2 if conf["warm"] else 1
    for run in range(1, runs + 1):
        ok, out = ck.guard("Runs", dict(sig, step="execute", run=run), mda.execute,
                           {"x": np.array([float(inst.xs[run - 1])])})
        if not ok:
            return None
    ck.traces += 1
    tol = 10.0 ** (-conf["p"])
    rep = out.get(RES)
    split = bool(conf.get("split"))
    y = D.coupling_vector(inst, out, split)
    detail = {"inst": inst.json(), "conf": conf, "y": y.tolist(),
              "reported_residual": None if rep is None else float(np.asarray(rep).real[0]),
              "iterations": len(getattr(mda, "residual_history", []))}
    if not np.all(np.isfinite(y)):
        ck.violation("FiniteResult", sig, detail)
        return None
    if conf["cls"] == "MDAChain":
        # an MDAChain reports sqrt(sum of the squared normed residuals of its inner MDAs): the tolerance
        # is cascaded to each inner MDA, and that is what must be met
        inner = [float(np.asarray(m.io.data[RES]).real[-1]) for m in mda.inner_mdas if RES in m.io.data]
        reported = all(v <= tol for v in inner)
        detail["inner_residuals"] = inner
    else:
        reported = conf["kind"] == "root" or (rep is not None and float(np.asarray(rep).real[0]) <= tol)
    if not reported:
        # the calibrated convergence clause: a contractive / nilpotent system must be reported converged
        ck.violation("ReportsConvergence", sig, detail)
        return None
    rho = D.reexecution_residual(inst, out, inst.xs[runs - 1], split)
    return {"id": rid, "inst": inst.json(), "kind": conf["kind"], "ord": conf["ord"], "scal": conf["scal"],
            "p": conf["p"], "run": runs, "dtype": conf.get("dtype", "float"), "reuse": bool(conf.get("reuse")),
            "plain": is_plain(conf), "y": [D.big_dyadic(v) for v in y], "rho": [D.big_dyadic(v) for v in rho],
            "_sig": sig, "_detail": detail}


PLAIN = {"MDAJacobi", "MDAGaussSeidel"}


def is_plain(conf):
    """A fixed-point class (or a chain / sequence of them) without acceleration nor relaxation: the
    algorithms J / GS / CJ / CGS / SJ / SGS of MDA.tla with w = 1."""
    if conf["acc"] != "NoTransformation" or conf["relax"] != 1.0:
        return False
    if conf["cls"] in PLAIN:
        return True
    return conf["cls"] in ("MDAChain", "MDASequential") and bool(conf["inner"]) and set(conf["inner"].split(">")) <= PLAIN


NEEDS_ALL_STRONG = {"MDANewtonRaphson", "MDAQuasiNewton", "MDAGSNewton", "MDASequential"}


def sample_confs(rnd, case, n, cover):
    """n configurations for an instance; `cover` = list of (class index, acc, relax) triples still to visit."""
    inst, _, ngroups, dw, allstrong, stalled = case
    perms = list(itertools.permutations(range(1, inst.nd + 1)))
    out = []
    # stalled starts: the classes that test a Jacobi-like / Gauss-Seidel residual with the scalings whose
    # reference is taken per variable / per component (second execution included)
    for a, order in sorted(stalled)[:2 if stalled and sorted(stalled)[0][0] == "J" else 1]:
        for cls, inner in (("MDAJacobi", None), ("MDAChain", "MDAJacobi")) if a == "J" else (("MDAGaussSeidel", None),):
            if cls == "MDAChain" and ngroups > 1:
                continue
            out.append({"cls": cls, "kind": a, "inner": inner, "acc": rnd.choice(["NoTransformation"] + ACCS),
                        "relax": 1.0, "scal": rnd.choice(["sub", "sub", "comp", "scomp"]), "ord": list(order),
                        "warm": rnd.random() < 0.5 and inst.xs[0] != inst.xs[1], "p": 10, "maxit": 200,
                        "gs_delayed_weak": False, "form": "dict"})
    if inst.fam == "nil":
        # finite termination makes successive residuals coincide: the delta-based accelerations are
        # visited there at relaxation 1 (D0602, fixed, and D0603 were found on these)
        for acc in ("Secant",) + (("Aitken",) if rnd.random() < 0.3 else ()):
            order = rnd.choice(perms)
            out.append({"cls": "MDAJacobi", "kind": "J", "inner": None, "acc": acc, "relax": 1.0, "scal": "ncpl",
                        "ord": list(order), "warm": False, "p": 6, "maxit": 200, "gs_delayed_weak": False})
        # integer-typed couplings (IntegralOrbit): a plain fixed-point class, chain or sequence
        cls, kind, inner = rnd.choice([c for c in CLASSES
                                       if is_plain({"cls": c[0], "inner": c[2], "acc": "NoTransformation", "relax": 1.0})])
        if cls == "MDAChain" and ngroups > 1:
            kind = "chain"
        order = rnd.choice(perms)
        out.append({"cls": cls, "kind": kind, "inner": inner, "acc": "NoTransformation", "relax": 1.0,
                    "scal": rnd.choice(["no", "ncpl"] if kind in ("both", "chain") else list(SCALING)),
                    "ord": list(order), "warm": rnd.random() < 0.3 and inst.xs[0] != inst.xs[1], "p": 10, "maxit": 200,
                    "gs_delayed_weak": cls == "MDAGaussSeidel" and order in dw, "form": "dict", "dtype": "int"})
    else:
        # an MDAChain whose un-accelerated inner MDA needs more than the default 20 iterations for a tight
        # tolerance: max_mda_iter = 200 of the chain must reach the inner MDAs whether their settings are
        # given as a dictionary or as a settings model
        for form in ("model", "dict") if rnd.random() < 0.5 else ("model",):
            inner = rnd.choice(["MDAJacobi", "MDAGaussSeidel"])
            order = rnd.choice(perms)
            out.append({"cls": "MDAChain", "kind": "chain" if ngroups > 1 else ("J" if inner == "MDAJacobi" else "GS"),
                        "inner": inner, "acc": "NoTransformation", "relax": rnd.choice([0.5, 1.2]),
                        "scal": rnd.choice(["no", "ncpl"]), "ord": list(order), "warm": False, "p": 12,
                        "maxit": 200, "gs_delayed_weak": False, "form": form})
    for _ in range(n):
        pick = None
        if cover:
            pick = cover.pop()
        for _ in range(20):
            ci, acc, relax = pick or (rnd.randrange(len(CLASSES)), rnd.choice(ACCS), rnd.choice(RELAX))
            cls, kind, inner = CLASSES[ci]
            # the Newton-like classes refuse (or do not resolve) weakly coupled disciplines: MDAChain is
            # the documented way to use them there
            newton = (inner is None and cls in NEEDS_ALL_STRONG) or (cls == "MDASequential" and "Newton" in (inner or ""))
            if newton and not allstrong:
                if pick is not None:
                    cover.insert(0, pick)
                pick = None
                continue
            break
        else:
            continue
        if kind == "root" or inner == "MDAGSNewton":
            # no acceleration setting reaches these solvers (scipy root; MDAChain cannot forward the
            # settings of the two stages of an inner MDAGSNewton)
            acc, relax = "NoTransformation", 1.0
        if cls == "MDAChain" and ngroups > 1 and kind != "root":
            kind = "chain"
        if kind == "root":
            scal = "no"
        elif kind in ("both", "chain"):
            scal = rnd.choice(["no", "ncpl"])
        else:
            scal = rnd.choice(list(SCALING))
        warm = rnd.random() < 0.25 and inst.xs[0] != inst.xs[1]
        order = rnd.choice(perms)
        out.append({"cls": cls, "kind": kind, "inner": inner, "acc": acc, "relax": relax, "scal": scal,
                    "ord": list(order), "warm": bool(warm), "p": rnd.choice([10, 10, 6]), "maxit": 200,
                    "gs_delayed_weak": cls == "MDAGaussSeidel" and order in dw,
                    "form": "model" if cls == "MDAChain" and inner != "MDAGSNewton" and rnd.random() < 0.5 else "dict"})
    for conf in out:
        # the flavour of the harness disciplines (not part of the system)
        if inst.fam == "nil" and is_plain(conf) and rnd.random() < 0.5:
            conf.setdefault("dtype", "int")
        if rnd.random() < 0.3:
            conf["reuse"] = True
    if D.private_self_couplings(inst):
        # the same system with one variable per component: a component read by its own discipline only,
        # inside a larger group, is a strong coupling of that group (every class must resolve it); the
        # un-accelerated configurations of this instance are replayed under that naming, with the scalings
        # whose reference does not depend on how the components are grouped into variables
        for conf in list(out):
            if conf["acc"] == "NoTransformation" and conf["relax"] == 1.0 or conf["kind"] == "root":
                out.append(dict(conf, split=True, dtype="float", reuse=False,
                                scal=conf["scal"] if conf["scal"] in ("no", "ncpl", "init") else "no"))
        for ci, (cls, kind, inner) in enumerate(CLASSES):
            newton = (inner is None and cls in NEEDS_ALL_STRONG) or (cls == "MDASequential" and "Newton" in (inner or ""))
            if newton and not allstrong:
                continue
            if cls == "MDAChain" and ngroups > 1 and kind != "root":
                kind = "chain"
            out.append({"cls": cls, "kind": kind, "inner": inner, "acc": "NoTransformation", "relax": 1.0,
                        "scal": "no", "ord": list(rnd.choice(perms)), "warm": False, "p": 10, "maxit": 200,
                        "gs_delayed_weak": False, "form": "dict", "split": True})
    return out


def judge_reports(ck, reports, base_consts):
    if not reports:
        return
    path = ck.work / "mda_reports.json"
    path.write_text(json.dumps([{k: v for k, v in r.items() if not k.startswith("_")} for r in reports]))
    cfg = base_consts + "INIT RInit\nNEXT RNext\nINVARIANT Judge\nCHECK_DEADLOCK FALSE\n"
    r = ck.tlc("MDAReport", cfg, workers=1, timeout=900, coverage=False,
               env={"REPORT_FILE": str(path),
                    # BigNat recursion on 600-bit numbers: a deeper thread stack than the JVM default
                    "JAVA_TOOL_OPTIONS": "-XX:+UseParallelGC -Xss16m -Xmx" + os.environ.get("VERIF_TLC_HEAP", "4g")})
    verdicts = {v[1]: v[2:5] for v in r.printed() if v and v[0] == "V"}
    for v in r.printed():
        if v and v[0] == "V" and v[5]:
            rp = next(rp for rp in reports if rp["id"] == v[1])
            key = f"{rp['scal']}/run{rp['run']}"
            ck.extra.setdefault("reports_with_a_partly_zero_first_residual", {}).setdefault(key, 0)
            ck.extra["reports_with_a_partly_zero_first_residual"][key] += 1
    if len(verdicts) != len(reports):
        raise MachineryError(f"MDAReport judged {len(verdicts)} of {len(reports)} reports:\n{r.out[-1500:]}")
    for rp in reports:
        err_ok, res_ok, cons_ok = verdicts[rp["id"]]
        if not cons_ok:
            raise MachineryError(f"the harness disciplines are not the system of the instance: {rp['_detail']}")
        if not err_ok:
            ck.violation("ErrorBound", rp["_sig"], rp["_detail"])
        if not res_ok:
            ck.violation("ReexecutionResidual", rp["_sig"], rp["_detail"])


# ------------------------------------------------------------------ run

def run(ck: Check):
    rnd = random.Random(ck.seed)
    if ck.thorough:
        profiles, seeds = (22, 12, 21, 11, 222, 121, 112), list(range(1, 41)) + list(range(100, 116))
        ex = dict(ws=(1, 2, 3), tols=(99, 2, 6), maxits=(2, 4), scals=("no", "init", "ncpl", "sub", "comp"),
                  warm=(False, True), nruns=2)
        parts, selmod, n_traces, n_runs = 8, 96, 1500, 4000
    else:
        profiles, seeds = (22, 12, 222), list(range(1, 17)) + list(range(100, 106))
        ex = dict(ws=(1, 2), tols=(2, 6), maxits=(2,), scals=("no", "init", "comp"))
        parts, selmod, n_traces, n_runs = 1, 48, 200, 330
    seeds = list(seeds)
    base = dict(fams=("nil", "con"), profiles=profiles, seeds=seeds)
    spec = "SPECIFICATION Spec\nCHECK_DEADLOCK FALSE\n" + inv_lines()
    acts = ("Exec", "Single", "EndPre", "EndSweep", "Stop", "Continue")
    # exhaustive model checking of the specification (repaired rules) on instances x configurations;
    # thorough: one TLC run per slice of the seeds (every TLC run stays short), a sample (Sel) of the
    # configurations of each instance
    cases = []
    chunk = -(-len(seeds) // parts)
    for part in range(parts):
        sub = dict(base, seeds=seeds[part * chunk:(part + 1) * chunk])
        r = ck.tlc("MDA", consts(**sub, **ex, selmod=selmod, selres=(part % selmod,), emit=True) + spec,
                   workers=4, timeout=900, require_actions=acts + (("NewRun",) if ck.thorough else ()))
        cases += [(D.Instance(v[1]), v[2], int(v[3]), frozenset(tuple(int(i) for i in o) for o in v[4]), bool(v[5]),
                   frozenset((str(p[0]), tuple(int(i) for i in p[1])) for p in v[6]))
                  for v in r.printed() if v and v[0] == "CASE"]
    if not cases:
        raise MachineryError("MDA.tla printed no instance")
    ck.extra["instances"] = len(cases)
    ck.extra["instances_by_family"] = {f: sum(1 for c in cases if c[0].fam == f) for f in ("nil", "con")}
    ck.extra["instances_with_several_groups"] = sum(1 for c in cases if c[2] > 1)
    ck.extra["instances_with_delayed_weak_orders"] = sum(1 for c in cases if c[3])
    ck.extra["instances_with_private_self_coupling"] = sum(1 for c in cases if D.private_self_couplings(c[0]))
    ck.extra["instances_with_a_stalled_start"] = {a: sum(1 for c in cases if any(p[0] == a for p in c[5]))
                                                  for a in ("J", "GS")}
    if not all(ck.extra["instances_with_a_stalled_start"].values()):
        raise MachineryError("no instance whose first Jacobi / Gauss-Seidel residual vanishes on some variable only")
    if not ck.extra["instances_with_private_self_coupling"]:
        raise MachineryError("no instance with a private self-coupled component inside a larger group")
    # the rules of gauss_seidel.py as they were before fix faa2efe do NOT satisfy the specification's own
    # properties: TLC refutes APost / NilStop (D0601) - recorded; the conformance uses the repaired rules
    ra = ck.tlc("MDA", consts(**dict(base, profiles=(222,), seeds=seeds[:16]), algs=("GS",), ws=(2,), tols=(2,),
                              maxits=(2,), scals=("no",), rules="asread")
                + spec, workers=4, timeout=900, expect_ok=False, count=False, coverage=False)
    ck.extra["asread_rules_refuted_invariant"] = ra.violated or "none"
    if not ra.violated:
        ck.assumptions.append("the as-read Gauss-Seidel rules were not refuted on this slice of instances")

    # (1) traces
    # MDATrace / MDAReport take their instances from the JSON file: the generator constants are idle
    tconst = consts(fams=("nil",), profiles=(22,), seeds=(1,), emit=False)
    traces = []
    tflav = {"float": 0, "float/reuse": 0, "int": 0, "int/reuse": 0}     # configurations driven, per flavour
    per = max(1, -(-n_traces // len(cases)))
    for case in cases:
        inst, env, _, dw, _, stalled = case
        for cfg in trace_cfgs(rnd, inst, env, per, dw, ck.thorough, stalled):
            fl = f"{cfg.get('dtype', 'float')}{'/reuse' if cfg.get('reuse') else ''}"
            tflav[fl] = tflav.get(fl, 0) + 1
            t = record_trace(ck, len(traces) + 1, inst, cfg, dw)
            if t is not None:
                traces.append(t)
    for t in traces[:2]:
        ck.sample({"trace": t["id"], "cfg": t["_cfg"], "events": t["events"][:4]})
    # batches of <= 400 traces taken with a stride, so that every batch mixes the instances (coupling graphs,
    # chains with a stage that needs no MDA, ...) and bears every action
    nb = max(1, -(-len(traces) // 400))
    for i in range(nb):
        validate_traces(ck, traces[i::nb], tconst)
    ck.extra["traces"] = len(traces)
    ck.extra["traces_by_alg"] = {a: sum(1 for t in traces if t["cfg"]["alg"] == a)
                                 for a in ("J", "GS", "CJ", "CGS", "SJ", "SGS")}
    ck.extra["traces_by_flavour"] = tflav
    wit = ck.extra.get("traces_tested_against_a_partly_zero_first_residual", {})
    # vacuity of the new dimensions: the zero-reference rule of the per-variable scaling in a first and in a
    # second execution, integer-typed couplings, re-used output arrays
    # (the witnesses are counted by TLC along the traces: they are demanded of a run without disagreement - a
    # trace rejected early cannot bear them)
    if not ck.violations and (not wit.get("sub/run1") or not wit.get("sub/run2")):
        raise MachineryError(f"no trace tested the initial_subresidual_norm scaling against a partly zero first residual: {wit}")
    if not all(ck.extra["traces_by_flavour"].values()):
        raise MachineryError(f"a flavour of the harness disciplines was not visited: {ck.extra['traces_by_flavour']}")

    # (2) every class x acceleration x relaxation x scaling x order x warm start, judged by MDAReport
    plain = [ci for ci, c in enumerate(CLASSES) if c[1] == "root" or c[2] == "MDAGSNewton"]
    cover = [(ci, a, r) for ci in range(len(CLASSES)) for a in ACCS for r in RELAX if ci not in plain]
    cover += [(ci, "NoTransformation", 1.0) for ci in plain] * 4
    rnd.shuffle(cover)
    ck.extra["class_acc_relax_triples"] = len(cover)
    per = max(1, -(-n_runs // len(cases)))
    reports = []
    rflav = {"float": 0, "float/reuse": 0, "int": 0, "int/reuse": 0}     # configurations driven, per flavour
    for case in cases:
        for conf in sample_confs(rnd, case, per, cover):
            fl = f"{conf.get('dtype', 'float')}{'/reuse' if conf.get('reuse') else ''}"
            rflav[fl] = rflav.get(fl, 0) + 1
            rp = run_conf(ck, len(reports) + 1, case[0], conf)
            if rp is not None:
                reports.append(rp)
    ck.extra["triples_not_visited"] = len(cover)
    for rp in reports[:2]:
        ck.sample({"report": rp["id"], "conf": rp["_detail"]["conf"], "y": rp["_detail"]["y"]})
    for i in range(0, len(reports), 200):
        judge_reports(ck, reports[i:i + 200], tconst)
    ck.extra["reports_judged"] = len(reports)
    ck.extra["runs_by_flavour"] = rflav
    if not all(rflav.values()):
        raise MachineryError(f"a flavour of the harness disciplines was not replayed: {rflav}")
    if not ck.violations and not any(k.startswith("sub/") for k in ck.extra.get("reports_with_a_partly_zero_first_residual", {})):
        raise MachineryError("no class x setting run with the initial_subresidual_norm scaling on a stalled start")


if __name__ == "__main__":
    main("C06", run)
