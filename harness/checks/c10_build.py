"""C10 glue: builds the expression trees printed by specs/FuncAlgebra.tla with real gemseo objects and
compares `evaluate` / `jac` with the numbers computed by the specification.  No expected value is computed
here: the only arithmetic is the conversion of the specification's dyadics <<m, k>> to floats (m * 2**-k) and
the user callables of the polynomial leaves, which are *inputs* of gemseo (monomial tables printed by TLC).
"""
from __future__ import annotations

import traceback

import numpy as np
from numpy import array

ALL_OPS = ["s", "v", "u", "w", "Ls", "L", "Lu", "Lc", "M", "Mc", "Q", "add", "sub", "mul", "div", "addc", "subc", "mulc", "divc", "offc",
           "adda", "suba", "mula", "diva", "offa", "neg", "restr", "rrestr", "lrestr", "lincomp", "concat", "normalize",
           "taylor1", "taylor2", "cvx", "aggmax", "aggsq", "aggpos"]


def dy(a):
    return a[0] * 2.0 ** (-a[1])


def vec(v):
    return array([dy(a) for a in v], dtype=float)


def mat(j, n):
    return array([[dy(a) for a in row] for row in j], dtype=float).reshape(len(j), n)


def show(t):
    op, args, par = t
    if not args:
        return op
    s = ",".join(show(a) for a in args)
    return f"{op}({s}{';' + ' '.join(map(str, par)) if par else ''})"


class Node:
    __slots__ = ("tree", "obj", "kids", "n", "point")

    def __init__(self, tree, obj, kids):
        self.tree, self.obj, self.kids = tree, obj, kids


class Polynomial:
    """User callable of a polynomial leaf (fresh arrays at each call, scalar value / 1-D gradient when the
    function has one output: the usual gemseo convention)."""

    def __init__(self, comps):
        self.comps = [[(c, tuple(e)) for c, e in comp] for comp in comps]
        n = len(self.comps)
        # the identity map is given a callable that RETURNS ITS ARGUMENT (a legitimate user function)
        self.identity = n >= 2 and all(len(comp) == 1 and comp[0][0] == 1 and len(comp[0][1]) == n
                                       and tuple(comp[0][1]) == tuple(int(i == r) for i in range(n))
                                       for r, comp in enumerate(self.comps))

    def _mono(self, c, e, x, skip=None):
        out = float(c)
        for i, k in enumerate(e):
            if i == skip:
                out *= k * x[i] ** (k - 1) if k else 0.0
            else:
                out *= x[i] ** k
        return out

    def value(self, x):
        if self.identity:
            return x
        v = [sum(self._mono(c, e, x) for c, e in comp) for comp in self.comps]
        return float(v[0]) if len(v) == 1 else array(v, dtype=float)

    def jac(self, x):
        j = [[sum(self._mono(c, e, x, i) for c, e in comp) for i in range(len(x))] for comp in self.comps]
        return array(j[0], dtype=float) if len(j) == 1 else array(j, dtype=float)


def _seq(x):
    if isinstance(x, tuple):
        return list(x)
    return [x[i] for i in range(1, len(x) + 1)]


class Replayer:
    def __init__(self, leaf_table):
        self.polys = {str(k): [[(m[0], _seq(m[1])) for m in _seq(comp)] for comp in _seq(v)]
                      for k, v in leaf_table["polys"].items()}
        self.lins = {str(k): ([_seq(r) for r in _seq(v[0])], _seq(v[1])) for k, v in leaf_table["lins"].items()}
        q = leaf_table["quad"]
        self.quad = ([_seq(r) for r in _seq(q[0])], _seq(q[1]), q[2])
        self.sparse = {str(k) for k in leaf_table["sparse"]}
        self.n_diag = 0

    # ------------------------------------------------------------------ building (transport only)
    def build(self, t) -> Node:
        kids = [self.build(a) for a in t[1]]
        return Node(t, self.construct(t, kids), kids)

    def construct(self, t, kids):
        """The gemseo object of the root operator of t over the (already built) operand objects."""
        from gemseo.algos.aggregation.aggregation_func import (aggregate_max, aggregate_positive_sum_square,
                                                                aggregate_sum_square)
        from gemseo.algos.design_space import DesignSpace
        from gemseo.core.mdo_functions.concatenate import Concatenate
        from gemseo.core.mdo_functions.convex_linear_approx import ConvexLinearApprox
        from gemseo.core.mdo_functions.function_restriction import FunctionRestriction
        from gemseo.core.mdo_functions.linear_composite_function import LinearCompositeFunction
        from gemseo.core.mdo_functions.mdo_function import MDOFunction
        from gemseo.core.mdo_functions.mdo_linear_function import MDOLinearFunction
        from gemseo.core.mdo_functions.mdo_quadratic_function import MDOQuadraticFunction
        from gemseo.core.mdo_functions.restricted_function import RestrictedFunction
        from gemseo.core.mdo_functions.taylor_polynomials import (compute_linear_approximation,
                                                                    compute_quadratic_approximation)

        op, args, p = t
        k = [c.obj for c in kids]
        pf = [float(c) for c in p]
        if op in self.polys:
            pol = Polynomial(self.polys[op])
            f = MDOFunction(pol.value, op, jac=pol.jac, dim=len(pol.comps))
        elif op in self.lins:
            a, b = self.lins[op]
            if op in self.sparse:
                from scipy.sparse import csr_array

                f = MDOLinearFunction(csr_array(array(a, dtype=float)), op, value_at_zero=array(b, dtype=float))
            elif len(a) == 1:
                f = MDOLinearFunction(array(a[0], dtype=float), op, value_at_zero=float(b[0]))
            else:
                f = MDOLinearFunction(array(a, dtype=float), op, value_at_zero=array(b, dtype=float))
        elif op == "Q":
            a, b, c = self.quad
            f = MDOQuadraticFunction(array(a, dtype=float), "Q", linear_coeffs=array(b, dtype=float),
                                     value_at_zero=float(c))
        elif op == "add":
            f = k[0] + k[1]
        elif op == "sub":
            f = k[0] - k[1]
        elif op == "mul":
            f = k[0] * k[1]
        elif op == "div":
            f = k[0] / k[1]
        elif op == "addc":
            f = k[0] + pf[0]
        elif op == "subc":
            f = k[0] - pf[0]
        elif op == "mulc":
            f = k[0] * pf[0]
        elif op == "divc":
            f = k[0] / pf[0]
        elif op == "offc":
            f = k[0].offset(pf[0])
        elif op == "adda":
            f = k[0] + array(pf)
        elif op == "suba":
            f = k[0] - array(pf)
        elif op == "mula":
            f = k[0] * array(pf)
        elif op == "diva":
            f = k[0] / array(pf)
        elif op == "offa":
            f = k[0].offset(array(pf))
        elif op == "neg":
            f = -k[0]
        elif op == "restr":
            f = FunctionRestriction(array(p[1:1 + p[0]]), array(pf[1 + p[0]:]), self.n_inputs(args[0]), k[0],
                                    name="restriction")
        elif op == "rrestr":
            f = RestrictedFunction(k[0], array(p[1:1 + p[0]]), array(pf[1 + p[0]:]))
        elif op == "lrestr":
            f = k[0].restrict(array(p[1:1 + p[0]]), array(pf[1 + p[0]:]))
        elif op == "lincomp":
            f = LinearCompositeFunction(k[0], array(pf[2:]).reshape(p[0], p[1]))
        elif op == "concat":
            f = Concatenate([k[0], k[1]], "concatenation")
        elif op == "normalize":
            n = len(p) // 2
            space = DesignSpace()
            space.add_variable("x", size=n, lower_bound=array(pf[:n]), upper_bound=array(pf[:n]) + array(pf[n:]))
            f = k[0].normalize(space)
        elif op == "taylor1":
            f = compute_linear_approximation(k[0], array(pf))
        elif op == "taylor2":
            n = self.n_inputs(args[0])
            f = compute_quadratic_approximation(k[0], array(pf[:n]), array(pf[n:]).reshape(n, n))
        elif op == "cvx":
            n = len(p) // 2
            mask = array([bool(m) for m in p[n:]])
            f = ConvexLinearApprox(array(pf[:n]), k[0], None if mask.all() else mask)
        elif op in ("aggmax", "aggsq", "aggpos"):
            idx = None if p[1] == 0 else [int(i) for i in p[2:2 + p[1]]]
            k[0].f_type = "eq" if op == "aggsq" else "ineq"
            agg = {"aggmax": aggregate_max, "aggsq": aggregate_sum_square, "aggpos": aggregate_positive_sum_square}[op]
            # p = <<scale, k, indices>> (+ one factor per selected constraint when scale = 0: a vector scale)
            f = agg(k[0], indices=idx, scale=pf[0] if p[0] != 0 else array(pf[2 + p[1]:]))
        else:  # pragma: no cover
            raise KeyError(op)
        return f

    def n_inputs(self, t):
        op, args, p = t
        if op in self.polys:
            return len(self.polys[op][0][0][1])
        if op in self.lins:
            return len(self.lins[op][0][0])
        if op == "Q":
            return len(self.quad[1])
        if op in ("restr", "rrestr", "lrestr"):
            return self.n_inputs(args[0]) - p[0]
        if op == "lincomp":
            return p[1]
        return self.n_inputs(args[0])

    # ------------------------------------------------------------------ observation
    @staticmethod
    def observe(node: Node, x):
        """(value as 1-D array, Jacobian as 2-D array) of a real function at x; projections, not representations."""
        x = array(x, dtype=float)
        v = np.atleast_1d(np.asarray(node.obj.evaluate(x.copy()), dtype=float)).ravel().copy()
        j = node.obj.jac(x.copy())
        if hasattr(j, "toarray"):
            j = j.toarray()
        j = np.atleast_2d(np.asarray(j, dtype=float)).copy()
        return v, j

    @staticmethod
    def same(got, want):
        return got.shape == want.shape and bool(np.array_equal(got, want))

    # ------------------------------------------------------------------ signatures
    def kind(self, node: Node, dim):
        from gemseo.core.mdo_functions.mdo_linear_function import MDOLinearFunction

        lin = "linear-" if isinstance(node.obj, MDOLinearFunction) else ""
        return lin + ("scalar" if dim == 1 else "vector")

    def signature(self, clause, t, node, exp_v, exp_kids, n, extra=None):
        """Small, stable description of the blamed subtree: operator, kinds of its operands, and the facts
        about the operands' representation on which the known defects depend."""
        op, args, p = t
        sig = {"clause": clause, "op": op}
        if node is not None and exp_kids is not None:
            sig["operands"] = [self.kind(c, len(e[2])) for c, e in zip(node.kids, exp_kids)]
            sig["vector_operand"] = any(len(e[2]) > 1 for e in exp_kids)
            sig["linear_operand"] = any(s.startswith("linear") for s in sig["operands"])
            # the operand declares (attribute `dim`) another output dimension than it has
            sig["operand_dim_declared_wrong"] = any(c.obj.dim not in (0, len(e[2])) for c, e in zip(node.kids, exp_kids))
            if op in ("lincomp", "rrestr"):
                try:
                    sig["operand_jacobian_2d"] = np.ndim(node.kids[0].obj.jac(exp_kids[0][1].copy())) == 2
                except Exception:  # noqa: BLE001
                    pass
        if exp_v is not None:
            sig["dim_eq_n_inputs"] = len(exp_v) == n
        if op in ("aggmax", "aggsq", "aggpos"):
            sig["scale_is_one"] = p[0] == 1
            sig["indices"] = p[1] != 0
            sig["vector_scale"] = p[0] == 0
            if p[0] == 0:
                sig["several_selected"] = len(p) - 2 - p[1] >= 2
        if extra:
            sig.update(extra)
        return sig

    # ------------------------------------------------------------------ the check of one instance
    @staticmethod
    def node_at(root: Node, path):
        for k in path:
            root = root.kids[k - 1]
        return root

    @staticmethod
    def entries(pt, ev, ej, obs):
        """Expectations of the specification: [(path, point, value, Jacobian)] for every proper subtree at every
        point where it is evaluated (post-order), and for the tree itself."""
        sub = [(tuple(o[0]), vec(o[1]), vec(o[2]), mat(o[3], len(o[1]))) for o in obs]
        root = ((), array([float(c) for c in pt]), vec(ev), mat(ej, len(pt)))
        return sub, root

    def matches(self, got, e):
        return self.same(got[0], e[2]) and self.same(got[1], e[3])

    def results_are_values(self, node: Node, e):
        """ResultsAreValues: what evaluate / jac returned at a point (kept by the caller, NOT copied) is still
        the specification's value after the same function has been evaluated at another point."""
        x, other = e[1], e[1] + 1.0
        v = node.obj.evaluate(x.copy())
        j = node.obj.jac(x.copy())
        with np.errstate(all="ignore"):
            try:
                node.obj.evaluate(other.copy())
                node.obj.jac(other.copy())
            except Exception:  # noqa: BLE001 - the other point need not be admissible (zero denominator ...)
                pass
        v = np.atleast_1d(np.asarray(v, dtype=float)).ravel()
        j = np.atleast_2d(np.asarray(j.toarray() if hasattr(j, "toarray") else j, dtype=float))
        return self.same(v, e[2]) and self.same(j, e[3])

    def check_case(self, tree, pt, ev, ej, obs):
        sub, top = self.entries(pt, ev, ej, obs)
        try:
            # operands first, observed BEFORE the operation is built over them (building may touch them)
            kids = [self.build(a) for a in tree[1]]
            root = Node(tree, None, kids)
            before = [self.observe(self.node_at(root, e[0]), e[1]) for e in sub]
            root.obj = self.construct(tree, kids)
            got = self.observe(root, top[1])
            held = self.results_are_values(root, top)
            again = np.atleast_1d(np.asarray(root.obj.evaluate(top[1].copy()), dtype=float)).ravel()
            after = [self.observe(self.node_at(root, e[0]), e[1]) for e in sub]
            # Rebuild action of the specification: the same operation built again over the same operands
            rebuilt = self.observe(Node(tree, self.construct(tree, kids), kids), top[1]) if kids else got
            ok = (self.matches(got, top) and held and self.same(again, top[2]) and self.matches(rebuilt, top)
                  and all(self.matches(g, e) for g, e in zip(before, sub))
                  and all(self.matches(g, e) for g, e in zip(after, sub)))
        except Exception:  # noqa: BLE001
            ok = False
        if ok:
            return []
        return self.diagnose(tree, pt, sub, top)

    def diagnose(self, tree, pt, sub, top):
        """Attribute a disagreement to the innermost subtrees that disagree with the specification on a fresh
        object graph, or whose evaluation changes the observations of the subtrees below them."""
        self.n_diag += 1
        by_path: dict[tuple, list] = {}
        for e in [*sub, top]:
            by_path.setdefault(e[0], []).append(e)

        def subtree(path):
            t = tree
            for k in path:
                t = t[1][k - 1]
            return t

        def exc(clause, ex):
            return (clause, {"exception": type(ex).__name__},
                    {"exception": repr(ex), "traceback": traceback.format_exc(limit=4)})

        bad = {}
        for path in sorted(by_path, key=lambda q: (-len(q), q)):
            t = subtree(path)
            own = by_path[path]
            below = [e for e in sub if len(e[0]) > len(path) and e[0][:len(path)] == path]
            inner_blamed = any(len(q) > len(path) and q[:len(path)] == path for q in bad)
            problems = []
            node = None
            try:
                node = self.build(t)
            except Exception as ex:  # noqa: BLE001
                problems.append(exc("Build", ex))
            if node is not None:
                # (a) value / Jacobian of this subtree on a fresh object graph, at each point where it is used
                for i, e in enumerate(own):
                    if i:
                        node = self.build(t)  # a fresh graph per point: (a) is about the first evaluation
                    try:
                        v = np.atleast_1d(np.asarray(node.obj.evaluate(e[1].copy()), dtype=float)).ravel().copy()
                        if not self.same(v, e[2]):
                            problems.append(("Value", {}, {"at": e[1].tolist(), "impl": v.tolist(), "spec": e[2].tolist()}))
                    except Exception as ex:  # noqa: BLE001
                        problems.append(exc("Value", ex))
                    try:
                        j = node.obj.jac(e[1].copy())
                        j = np.atleast_2d(np.asarray(j.toarray() if hasattr(j, "toarray") else j, dtype=float)).copy()
                        if not self.same(j, e[3]):
                            problems.append(("Jacobian", {"shape_ok": j.shape == e[3].shape},
                                             {"at": e[1].tolist(), "impl": j.tolist(), "spec": e[3].tolist()}))
                    except Exception as ex:  # noqa: BLE001
                        problems.append(exc("Jacobian", ex))
                    if not problems:
                        try:
                            if not self.results_are_values(self.build(t), e):
                                problems.append(("ResultsAreValues", {}, {"at": e[1].tolist(),
                                                                          "then_evaluated_at": (e[1] + 1.0).tolist()}))
                        except Exception as ex:  # noqa: BLE001
                            problems.append(exc("ResultsAreValues", ex))
                    if problems:
                        break
                # (b) the subtrees below, observed before the operation is built over them, after it is built,
                #     after each of its evaluations; then the operation built a second time (fresh graph)
                if below and not inner_blamed:
                    try:
                        kids2 = [self.build(a) for a in t[1]]
                        node2 = Node(t, None, kids2)
                        rel = [(e[0][len(path):],) + e[1:] for e in below]

                        def changed_after(when, at):
                            after = [self.observe(self.node_at(node2, e[0]), e[1]) for e in rel]
                            bad_ones = [(g, e) for g, e in zip(after, rel) if not self.matches(g, e)]
                            if not bad_ones:
                                return False
                            g, e = bad_ones[0]
                            problems.append(("NoOperandMutation", {"operand_depth": len(e[0]), "when": when},
                                             {"operand": show(subtree(path + e[0])), "at": e[1].tolist(),
                                              "after_evaluation_at": at,
                                              "operand_value_after": g[0].tolist(), "spec": e[2].tolist(),
                                              "operand_jacobian_after": g[1].tolist(), "spec_jacobian": e[3].tolist()}))
                            return True

                        before = [self.observe(self.node_at(node2, e[0]), e[1]) for e in rel]
                        if all(self.matches(g, e) for g, e in zip(before, rel)):
                            node2.obj = self.construct(t, kids2)
                            mutated = changed_after("construction", None)
                            for own_e in own:
                                if mutated:
                                    break
                                node2.obj.evaluate(own_e[1].copy())
                                node2.obj.jac(own_e[1].copy())
                                node2.obj.evaluate(own_e[1].copy())
                                mutated = changed_after("evaluation", own_e[1].tolist())
                            if not mutated and not problems:
                                again = self.observe(Node(t, self.construct(t, kids2), kids2), own[0][1])
                                if not self.matches(again, own[0]):
                                    problems.append(("Rebuild", {}, {"at": own[0][1].tolist(), "impl": again[0].tolist(),
                                                                     "spec": own[0][2].tolist(),
                                                                     "impl_jacobian": again[1].tolist(),
                                                                     "spec_jacobian": own[0][3].tolist()}))
                    except Exception:  # noqa: BLE001
                        pass  # reported by (a) or by the diagnosis of the subtree that raises
            if problems and not inner_blamed:  # innermost only
                kid_exp = [by_path[path + (k + 1,)][0] for k in range(len(t[1]))]
                bad[path] = (t, node, own[0], kid_exp, problems)
        out = []
        for path, (t, node, own0, kid_exp, problems) in bad.items():
            clause, extra, detail = problems[0]
            sig = self.signature(clause, t, node, own0[2], kid_exp, len(own0[1]), extra)
            out.append((clause, sig, dict(detail, instance=show(tree), point=list(pt), blamed_subtree=show(t),
                                          path=list(path), all_problems=[c for c, _, _ in problems])))
        if not out:
            # the instance failed as a whole although no subtree fails on a fresh graph: never hide it
            out.append(("Unattributed", {"clause": "Unattributed", "op": tree[0]},
                        {"instance": show(tree), "point": list(pt)}))
        return out

    def check_reject(self, tree):
        """The specification rejects this construction (operands disagree on normalised inputs)."""
        op, args, p = tree
        try:
            self.build(tree)
        except RuntimeError:
            return []
        except Exception as ex:  # noqa: BLE001
            return [("Reject", {"clause": "Reject", "op": op, "exception": type(ex).__name__},
                     {"instance": show(tree), "exception": repr(ex)})]
        return [("Reject", {"clause": "Reject", "op": op, "accepted": True}, {"instance": show(tree)})]
