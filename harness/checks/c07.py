"""C07 - coupled total derivatives satisfy the implicit-function equations.

specs/CoupledDeriv.tla (+ specs/Mat.tla) enumerates coupled linear systems with integer partial
Jacobians whose residual Jacobian has determinant +-1 (integer total derivatives) or +-2, +-4 (dyadic
total derivatives, carried exactly as numerators over a denominator), one discipline possibly in
residual form (state variable defined by a residual), computes the total derivatives twice (closed
form / code-shaped assembly) and TLC checks the clauses of the property on every request subset, mode
and request history.  The printed instances and cases are replayed on real gemseo MDAs
(``linearize`` and ``JacobianAssembly.total_derivatives``); every returned block must equal the block
computed by the specification (1e-9), shapes included, for every MDA class / matrix type / LU option /
linear solver sampled, the partial Jacobians being returned in the representation enumerated by the
specification with the case (float64 / int64 arrays or CSR matrices, operators, one per block).

The specification also carries the selection rules of the code *as read* ("asread", "r3") and *as it
is* ("asis"): they predict where the code raises or returns a wrong block; a disagreement of the
implementation is reported with the prediction in its signature, so that known findings are matched
by root cause.
"""
from __future__ import annotations

import concurrent.futures as cf
import multiprocessing as mp
import random
import re

from ..core import Check, MachineryError, main, run_tlc
from . import c07_replay as rp

GROUPS = [["pair", "self", "solo", "tailx"], ["tail", "head"], ["cycle3", "seq", "mid"], ["rpair", "rtail", "rweak"]]
RESIDUAL_GROUP = 3      # the topologies with a discipline in residual form
ORACLE_INVS = ["IFT", "NeumannEqInverse", "AssembledIsClosedForm", "SubsystemRegular", "DirectEqAdjoint",
               "SubsetIndependence", "StructuralZeros", "Shapes", "CacheCoherent", "NoRaise", "RepChosen"]
SENS_CLASSES = ("dydx", "adjoint", "result")     # fields of Sensitive in CoupledDeriv.tla
SOLVERS = ["DEFAULT", "LGMRES", "GMRES", "GCROT"]
OTHER_SOLVERS = ["BICG", "BICGSTAB", "TFQMR", "CGS"]


def tla_set(xs):
    return "{" + ", ".join(('"%s"' % x) if isinstance(x, str) else str(x) for x in xs) + "}"


ALL_REPS = ["dense_f64", "dense_i64", "sparse_f64", "sparse_i64", "operator", "mixed"]
DETS = [1, 2, 4]


def cfg(topos, profiles, choices, seeds, rules, maxhist, reqmod, emit, invs, pre=("fresh", "newton", "newtonall"),
        adjmod=4, dychoices=(), keep=(), reps=("dense_f64",), repmod=1, sensmod=0):
    """dychoices=(): only instances with a unimodular residual Jacobian (every total derivative an integer)."""
    s = ("CONSTANTS\n Topos = %s\n Profiles = %s\n Choices = %s\n DyChoices = %s\n Dets = %s\n Keep = %s\n"
         " Seeds = %s\n RuleSets = %s\n PreSets = %s\n MaxHist = %d\n"
         " ReqMod = %d\n ReqRes = {0}\n AdjMod = %d\n Reps = %s\n RepMod = %d\n SensMod = %d\n Emit = %s\n"
         "SPECIFICATION Spec\nCHECK_DEADLOCK FALSE\n"
         % (tla_set(topos), tla_set(profiles), tla_set(choices), tla_set(dychoices), tla_set(DETS), tla_set(keep),
            tla_set(seeds), tla_set(rules), tla_set(pre), maxhist,
            reqmod, adjmod, tla_set(reps), repmod, sensmod, "TRUE" if emit else "FALSE"))
    for i in invs:
        s += f"INVARIANT {i}\n"
    if emit:
        s += "INVARIANT EmitOK\n"
    return s


def tlc_many(ck: Check, jobs, par=3):
    """jobs: list of dict(tag, cfg, workers, timeout, expect_ok, count).  Runs TLC concurrently, each in
    its own sub-directory of ck.work (ck.tlc shares one cfg file per module), with ck.tlc's bookkeeping.

    TLC's -coverage is NOT used: it switches off the caching of LET-bound values, and the nested exact
    inverses of this specification are then re-evaluated at every use (the 5 s run of the initial states
    does not finish in 15 min).  The specification has one action, Next; that it was taken is read from
    the counts TLC prints: states generated beyond the initial ones."""
    def one(j):
        try:
            return j, run_tlc("CoupledDeriv", j["cfg"], ck.work / j["tag"], workers=j.get("workers", 2),
                              timeout=j.get("timeout", 600), coverage=False)
        except MachineryError as ex:
            raise MachineryError(f"[{j['tag']}] {ex}") from None
    out = {}
    with cf.ThreadPoolExecutor(max_workers=par) as ex:
        for j, r in ex.map(one, jobs):
            m = re.search(r"Finished computing initial states: (\d+) distinct state", r.out)
            n_init = int(m.group(1)) if m else 0
            ck.tlc_runs.append({"module": "CoupledDeriv", "tag": j["tag"], "distinct": r.distinct,
                                "generated": r.generated, "depth": r.depth, "wall_s": round(r.wall, 2),
                                "coverage": {"Init": n_init, "Next": max(0, r.generated - n_init)}})
            if r.error or (r.rc != 0 and not r.violated):
                raise MachineryError(f"TLC failed on CoupledDeriv[{j['tag']}]: {r.error or r.out[-2000:]}")
            if j.get("expect_ok", True) and r.violated:
                raise MachineryError(f"specification CoupledDeriv[{j['tag']}] violates {r.violated}:\n" + r.out[-3000:])
            if j.get("count", True):
                ck.states += r.distinct
                ck.transitions += r.generated
            if j.get("expect_ok", True) and j.get("need_next", True) and (m is None or r.generated <= n_init):
                raise MachineryError(f"vacuity: action Next of CoupledDeriv[{j['tag']}] never taken")
            out[j["tag"]] = r
    return out


def parse_records(results):
    """INST / CASE records -> instances, cases (the result does not depend on the representation of the
    Jacobians: one entry per (instance, rules, pre, history)), representations enumerated per history."""
    insts, cases, reps_of = {}, {}, {}
    for r in results:
        for v in r.printed():
            if not (isinstance(v, tuple) and v):
                continue
            if v[0] == "INST":
                _, key, rules, pre, S, size, J, nilp, nodes, merged, cfm, res, mixed, code = v
                insts[key] = {"key": key, "S": S, "size": size, "J": J, "nilp": nilp,
                              "weak": nodes != merged, "several_groups": nodes == merged and len(nodes) > 1,
                              "cf": cfm, "res": tuple(sorted(res)), "mixed": mixed, "code": code}
            elif v[0] == "CASE":
                _, key, rules, pre, hist, err, mcs, tot, exact, rep, sens = v
                c = ("+".join(sorted(err)) or "none", mcs, tot, exact, sens)
                if cases.setdefault((key, rules, pre, hist), c) != c:
                    raise MachineryError(f"the specification's result depends on the representation: {key} {hist}")
                reps_of.setdefault((key, hist), set()).add(rep)
    return insts, cases, reps_of


NEWTON = {"MDANewtonRaphson", "MDAGSNewton"}


def mda_classes(inst):
    """MDA classes that converge on the instance (Newton is exact on linear systems; the fixed-point
    iterations need the nilpotent coupling operator) and accept its coupling structure
    (MDANewtonRaphson, hence MDAGSNewton, and MDAQuasiNewton reject weakly coupled disciplines:
    documented ValueError)."""
    out = [("MDAChain", "MDANewtonRaphson")]
    if not inst["weak"]:
        out.append(("MDANewtonRaphson", None))
    if inst["nilp"]:
        out += [("MDAGaussSeidel", None), ("MDAJacobi", None), ("MDAChain", None)]
        if not inst["weak"]:
            out += [("MDAGSNewton", None), ("MDAQuasiNewton", None)]
    return out


def pre_of(conf, inst):
    """State of the disciplines before the first request, as the specification names it: a Newton
    MDA has linearized the strongly coupled disciplines with respect to the couplings it resolves
    (those of each group for the inner MDAs of an MDAChain, all of them for a Newton MDA over the whole
    structure - the specification distinguishes the two only when there are several groups)."""
    if conf["cls"] in NEWTON:
        return "newtonall" if inst["several_groups"] else "newton"
    return "newton" if conf.get("inner") == "MDANewtonRaphson" else "fresh"


def sample_conf(rng, inst, api, k, rep):
    cls, inner = rng.choice(mda_classes(inst))
    if api == "assembly" and k % 2 == 0:
        cls, inner = ("MDAGaussSeidel", None) if inst["nilp"] else ("MDAChain", "MDANewtonRaphson")
    # "jac": the representation of the partial Jacobians, enumerated by the specification with the case
    conf = {"api": api, "cls": cls, "inner": inner, "jac": rep, "rev": rng.random() < 0.5}
    if (cls == "MDAChain" and api == "mda" and rng.random() < 0.3 and not inst["res"]
            and rep in ("dense_f64", "sparse_f64", "operator")):
        # the Jacobian of the MDAChain composed by the chain rule from its inner MDAs (another code
        # path, the one of MDOChain: not for residual-form disciplines, whose Jacobians are partial ones
        # at fixed state, nor with integer-typed Jacobians, which MDOChain.reverse_chain_rule accumulates
        # in place - UFuncTypeError, reported to the check of the chain rule, C09)
        conf["chain_linearize"] = True
    if rng.random() < 0.25:
        conf.update(matrix_type="matrix", lu=True, solver="DEFAULT")
    else:
        conf.update(matrix_type=rng.choice(["matrix", "linear_operator"]), lu=False, solver=rng.choice(SOLVERS))
    return conf


def prediction(cases, key, rules, pre, h, expected):
    """What the rules as read predict for the last request of h: an err class, "wrong" or "none"."""
    c = cases.get((key, rules, pre, h))
    if c is None:
        return "n/a"
    err, _, tot, exact = c[:4]
    if err != "none":
        return err
    if not exact:
        return "other_system"   # the code answers, from a residual system the specification cannot invert
    ri, ro, _ = h[-1]
    if not rp.same_blocks(tot, expected, ri, ro):
        return "wrong"
    return "none"


def select(insts, rng, topos, n_uni, n_dy):
    """A sample of the instances enumerated by TLC: per (topology, profile) at most n_uni with a unimodular
    residual Jacobian and n_dy with dyadic total derivatives -> the constant Keep of the next runs (the
    codes of the instances, computed and printed by TLC)."""
    by = {}
    for key, inst in insts.items():
        if key[0] in topos:
            by.setdefault((key[0], key[1], inst["cf"]["d"] > 1), set()).add(inst["code"])
    keep = []
    for (t, p, dyadic), ks in sorted(by.items()):
        ks = sorted(ks)
        n = n_dy if dyadic else n_uni
        keep += ks if n is None or n >= len(ks) else rng.sample(ks, n)
    return keep


def run(ck: Check):
    rng = random.Random(ck.seed)
    th = ck.thorough
    tmo = 1700 if th else 900
    classic = [t for g in GROUPS[:RESIDUAL_GROUP] for t in g]
    residual = GROUPS[RESIDUAL_GROUP]
    alltopos = classic + residual
    dych = list(range(1, 7))
    # ------------------------------------------------------------------ 0. the instances (initial states)
    profiles = sorted(rng.sample(range(512), 3 if th else 2))
    choices = sorted(rng.sample(range(1, 7), 4 if th else 2))
    seeds = [rng.randrange(1, 50)]
    eprofiles = sorted(rng.sample(range(512), 2 if th else 1))
    echoices = sorted(rng.sample(range(1, 7), 3 if th else 2))
    eseeds = [rng.randrange(1, 50)]
    res = tlc_many(ck, [
        {"tag": "enum-mc", "workers": 2, "timeout": tmo, "need_next": False, "count": False,
         "cfg": cfg(alltopos, profiles, choices, seeds, ["repaired"], 0, 1, True, [], pre=("fresh",), dychoices=dych)},
        {"tag": "enum-emit", "workers": 2, "timeout": tmo, "need_next": False, "count": False,
         "cfg": cfg(alltopos, eprofiles, echoices, eseeds, ["repaired"], 0, 1, True, [], pre=("fresh",),
                    dychoices=dych)}], par=2)
    minsts, _, _ = parse_records([res["enum-mc"]])
    einsts, _, _ = parse_records([res["enum-emit"]])
    # (a topology may have no admissible instance for the profile and the choices of the run; the groups
    # without any are skipped, what was bound to the implementation is checked at the end)
    has = lambda found, topos: any(k[0] in topos for k in found)
    if not has(minsts, residual) or not has(einsts, residual):
        raise MachineryError("vacuity: no admissible instance with a discipline in residual form")
    # every instance with integer derivatives of the classic topologies, a sample of the others
    keep_mc = (select(minsts, rng, classic, None, 2 if th else 1)
               + select(minsts, rng, residual, 4 if th else 2, 2 if th else 1))
    keep_emit = (select(einsts, rng, classic, 6 if th else 3, 3 if th else 1)
                 + select(einsts, rng, residual, 4 if th else 2, 2 if th else 1))
    topo_of = {i["code"]: k[0] for found in (minsts, einsts) for k, i in found.items()}
    keep_of = lambda keep, topos: [c for c in keep if topo_of[c] in topos]
    # ------------------------------------------------------------------ 1. model checking (no printing)
    jobs = []
    if th:
        for g, topos in enumerate(GROUPS):
            if not has(minsts, topos):
                continue
            kw = {"dychoices": dych, "keep": keep_of(keep_mc, topos)}
            # every request subset and mode of every instance, oracle rules
            jobs.append({"tag": f"mc{g}", "workers": 4, "timeout": tmo,
                         "cfg": cfg(topos, profiles, choices, seeds, ["repaired"], 1, 1 if g != RESIDUAL_GROUP else 2,
                                    False, ORACLE_INVS + ["InverseSound"], pre=("fresh",), **kw)})
            if g != RESIDUAL_GROUP:
                # the rules as read on fresh disciplines never return a wrong block (they raise)
                jobs.append({"tag": f"ma{g}", "workers": 4, "timeout": tmo,
                             "cfg": cfg(topos, profiles[:2], choices, seeds, ["asread", "r3"], 1, 2, False,
                                        ["AsReadFreshIsRight", "CacheCoherent"], pre=("fresh",), **kw)})
            # histories of two requests on the same assembly (cache of the minimal couplings,
            # accumulated differentiated inputs/outputs), disciplines prepared by a Newton MDA
            jobs.append({"tag": f"mh{g}", "workers": 4, "timeout": tmo,
                         "cfg": cfg(topos, profiles[:2], choices, seeds, ["repaired"], 2,
                                    10 if g != RESIDUAL_GROUP else 36, False, ORACLE_INVS, pre=("newton",), **kw)})
    else:
        # quick: one run over the classic topologies, one over the residual-form ones, one request in eight
        # per instance (which ones depends on the instance); the two-request histories are model-checked
        # in the emit runs below
        jobs.append({"tag": "mc", "workers": 4, "timeout": tmo,
                     "cfg": cfg(classic, profiles, choices, seeds, ["repaired", "asread"], 1, 8, False,
                                ORACLE_INVS + ["AsReadFreshIsRight"], pre=("fresh",), dychoices=dych,
                                keep=keep_of(keep_mc, classic))})
        jobs.append({"tag": "mcr", "workers": 2, "timeout": tmo,
                     "cfg": cfg(residual, profiles, choices, seeds, ["repaired"], 1, 8, False,
                                ORACLE_INVS, pre=("fresh",), dychoices=dych, keep=keep_of(keep_mc, residual))})
        jobs.append({"tag": "inv", "workers": 1, "timeout": tmo,
                     "cfg": cfg(alltopos, profiles[:1], choices, seeds, ["repaired"], 0, 1, False,
                                ["IFT", "InverseSound", "NeumannEqInverse"], pre=("fresh",), dychoices=dych,
                                keep=keep_mc),
                     "need_next": False})
    # ------------------------------------------------------------------ 2. records for the replay
    emitted = [g for g, topos in enumerate(GROUPS) if has(einsts, topos)]
    for g in emitted:
        topos = GROUPS[g]
        rg = g == RESIDUAL_GROUP
        jobs.append({"tag": f"emit{g}", "workers": 4 if th else 2, "timeout": tmo, "count": not th,
                     "cfg": cfg(topos, eprofiles, echoices, eseeds,
                                ["repaired", "asis"] if rg else ["repaired", "asread", "r3"], 2,
                                (72 if th else 96) if rg else (36 if th else 48), True,
                                ORACLE_INVS + ["AsReadFreshIsRight"], adjmod=8 if rg else 4, dychoices=dych,
                                keep=keep_of(keep_emit, topos), reps=ALL_REPS, repmod=len(ALL_REPS),
                                sensmod=2)})
    # ------------------------------------------------------------------ 3. the rules as read are refuted by TLC
    refute = [("asread-raise", ["tailx"], "asread", "fresh", 1, 1, "AsReadNoRaise"),
              ("r3-raise", ["tailx", "head"], "r3", "fresh", 1, 1, "AsReadNoRaise"),
              ("asread-value-history", ["seq"], "asread", "fresh", 2, 20, "AsReadValues"),
              ("asread-value-newton", ["seq"], "asread", "newton", 1, 1, "AsReadValues"),
              # the code as it is on a discipline in residual form: a function that reads the state gets a
              # wrong block; the residual row of a discipline that is not involved makes the system singular
              ("asis-value", ["rpair"], "asis", "fresh", 1, 1, "AsIsValues"),
              ("asis-singular", ["rweak"], "asis", "fresh", 1, 1, "AsIsNoRaise")]
    for tag, topos, rl, pr, mh, rm, inv in refute:
        jobs.append({"tag": tag, "workers": 1, "timeout": 900, "expect_ok": False, "count": False,
                     "cfg": cfg(topos, [5], [1, 2], [1], [rl], mh, rm, False, [inv], pre=(pr,))})
    res = tlc_many(ck, jobs, par=4)
    for tag, _, _, _, _, _, inv in refute:
        r = res[tag]
        ck.extra["spec_refutes_" + tag] = r.violated or "NOT REFUTED"
        if r.violated != inv:
            raise MachineryError(f"the rules as read were expected to be refuted ({tag}: {inv}), TLC says {r.violated}")
        m = re.findall(r"/\\ hist = (<<.*?>>)\n/\\", r.out, re.S)
        e = re.findall(r"/\\ err = (\{.*?\})", r.out)
        ck.extra["counterexample_" + tag] = {"hist": " ".join(m[-1].split()) if m else None, "err": e[-1] if e else None}
    insts, cases, reps_of = parse_records([res[f"emit{g}"] for g in emitted])
    # one record per distinct state (PrintT is atomic; several workers only change the order)
    n_rec = sum(1 for g in emitted for v in res[f"emit{g}"].printed()
                if isinstance(v, tuple) and v and v[0] in ("INST", "CASE"))
    n_states = sum(res[f"emit{g}"].distinct for g in emitted)
    if n_rec != n_states:
        raise MachineryError(f"{n_rec} records parsed for {n_states} distinct states of the emit runs")
    if not insts or not cases:
        raise MachineryError("no INST/CASE record printed by TLC")
    # ------------------------------------------------------------------ 4. replay on gemseo
    todo = []
    hists = sorted({(k[0], k[3]) for k in cases if k[1] == "repaired"}, key=repr)
    singles = [k for k in hists if len(k[1]) == 1]
    pairs = [k for k in hists if len(k[1]) == 2]
    n_single = len(singles) if th else min(len(singles), 380)
    n_pairs = min(len(pairs), 2400 if th else 240)
    per_case = 3 if th else 1

    def as_read(c):
        """The prediction of the rules as first read (classic systems) / of the code as it is (residual
        form) for a history, on fresh disciplines; "n/a" when TLC did not enumerate it."""
        rules = "asis" if insts[c[0]]["res"] else "asread"
        return cases.get((c[0], rules, "fresh", c[1]), ("n/a",))[0]

    def stratified(pool, n):
        """Three quarters of the sample among the histories on which the code as read is predicted
        to answer (they exercise the numerical path), the rest among the predicted failures."""
        if n >= len(pool):
            return list(pool)
        good = [c for c in pool if as_read(c) == "none"]
        rest = [c for c in pool if as_read(c) != "none"]
        ng = min(len(good), max(n - len(rest), (3 * n) // 4))
        return rng.sample(good, ng) + rng.sample(rest, min(len(rest), n - ng))

    def sens(c):
        return cases[(c[0], "repaired", "fresh", c[1])][4] if (c[0], "repaired", "fresh", c[1]) in cases else {}

    # the first requests on which a rounding to integers in the solve path would be visible (classes
    # dydx / adjoint / result of the specification): a sample of each class, in each representation TLC
    # enumerated for them, with the iterative solvers and with the LU factorization
    visible = []
    for cl in SENS_CLASSES:
        pool = [c for c in singles if sens(c).get(cl)]
        visible += rng.sample(pool, min(len(pool), 60 if th else 14))
    for (key, hist) in sorted(set(visible), key=repr):
        inst = insts[key]
        for k, rep in enumerate(sorted(reps_of[(key, hist)])):
            for lu in (False, True):
                conf = sample_conf(rng, inst, "mda" if (k + lu) % 2 else "assembly", k, rep)
                conf.pop("chain_linearize", None)
                if lu:
                    conf.update(matrix_type="matrix", lu=True, solver="DEFAULT")
                else:
                    conf.update(matrix_type=rng.choice(["matrix", "linear_operator"]), lu=False,
                                solver=rng.choice(SOLVERS))
                todo.append((key, hist, conf))
    for (key, hist) in stratified(singles, n_single):
        inst = insts[key]
        for k in range(per_case + 1):
            todo.append((key, hist, sample_conf(rng, inst, "mda" if k else "assembly", k,
                                                rng.choice(sorted(reps_of[(key, hist)])))))
    # first the histories whose two requests share exactly one of (variables, functions): a cache of
    # the minimal couplings keyed by half of the request would show there
    adjacent = [c for c in pairs if (c[1][0][0] == c[1][1][0]) != (c[1][0][1] == c[1][1][1])]
    adjacent = rng.sample(adjacent, min(len(adjacent), 1200 if th else 120))
    adjset = set(adjacent)
    others = [c for c in pairs if c not in adjset]
    for (key, hist) in adjacent + stratified(others, max(0, n_pairs - len(adjacent))):
        inst = insts[key]
        (i1, o1, _), (i2, o2, _) = hist
        apis = ["assembly"] + (["mda"] if (i1 <= i2 and o1 <= o2) else [])
        for k, api in enumerate(apis * (2 if th else 1)):
            todo.append((key, hist, sample_conf(rng, inst, api, k + 1, rng.choice(sorted(reps_of[(key, hist)])))))
    # every solver x matrix type x mode at least once on plain cases (informational for the solvers
    # that are not in SOLVERS: Krylov methods that break down or stop early on these small systems)
    sweep = []
    plain = [k for k in singles if not insts[k[0]]["res"]
             and cases.get((k[0], "asread", "fresh", k[1]), ("n/a",))[0] == "none"
             and cases.get((k[0], "asread", "newton", k[1]), ("n/a",))[0] == "none"]
    for (key, hist) in rng.sample(plain, min(len(plain), 24 if th else 6)):
        inst = insts[key]
        for s in SOLVERS + OTHER_SOLVERS:
            for mt in ("matrix", "linear_operator"):
                cls, inner = ("MDAGaussSeidel", None) if inst["nilp"] else ("MDAChain", "MDANewtonRaphson")
                sweep.append((key, hist, {"api": "mda", "cls": cls, "inner": inner, "jac": "dense_f64",
                                          "matrix_type": mt, "lu": False, "solver": s}))
    args = [(insts[key], hist, conf) for key, hist, conf in todo + sweep]
    with mp.get_context("fork").Pool(8) as pool:
        outs = pool.map(rp.job, args, chunksize=8)
    n_blocks = 0
    stats = {}
    solver_stats = {}
    rep_stats = {}
    n_visible = {(cl, lu): 0 for cl in SENS_CLASSES for lu in ("iterative", "lu")}
    n_residual = 0
    misses = []
    for n, ((key, hist, conf), steps) in enumerate(zip(todo + sweep, outs)):
        inst = insts[key]
        pre = pre_of(conf, inst)
        informational = conf["solver"] in OTHER_SOLVERS
        case = {"instance": {"key": key, "S": inst["S"], "size": inst["size"], "J": inst["J"], "res": inst["res"]},
                "history": hist, "config": conf, "pre": pre}
        replayed = False
        for k, step in enumerate(steps):
            if step.get("where") in ("create", "execute"):
                ck.violation("MDARuns", {"api": conf["api"], "exception": step["exc"], "where": step["where"],
                                         "cls": conf["cls"]}, dict(case, error=step))
                break
            h = hist[:k + 1]
            exp, sn = cases[(key, "repaired", pre, h)][2], cases[(key, "repaired", pre, h)][4]
            ri, ro, mode = h[-1]
            if conf.get("chain_linearize"):
                # another code path (MDOChain chain rule over the inner MDAs): no prediction, strict
                pa = p3 = pi = "chain_linearize"
            elif inst["res"]:
                # the rules as first read are those of a code that is no longer there
                pa = p3 = "n/a"
                pi = prediction(cases, key, "asis", pre, h, exp)
            else:
                pa = prediction(cases, key, "asread", pre, h, exp)
                p3 = prediction(cases, key, "r3", pre, h, exp)
                pi = "none"     # the code as it is follows the repaired rules on these systems
            sig = {"api": conf["api"], "asread": pa, "r3": p3, "asis": pi}
            if "exc" in step:
                outcome = "raised"
            else:
                bad = rp.compare_blocks(exp, step["blocks"], ri, ro)
                outcome = "wrong" if bad else "ok"
            if informational:
                st = solver_stats.setdefault(conf["solver"], {"ok": 0, "raised": 0, "wrong": 0})
                st[outcome] += 1
                continue
            if n >= len(todo):
                st = solver_stats.setdefault(conf["solver"], {"ok": 0, "raised": 0, "wrong": 0})
                st[outcome] += 1
            st = stats.setdefault(f"{pre}:{pa}/{p3}/{pi}", {"ok": 0, "raised": 0, "wrong": 0})
            st[outcome] += 1
            st = rep_stats.setdefault(conf["jac"], {"ok": 0, "raised": 0, "wrong": 0})
            st[outcome] += 1
            # what was bound to the implementation (whatever the outcome): vacuity
            n_residual += bool(inst["res"])
            if k == 0 and conf["jac"] in ("dense_i64", "sparse_i64"):
                for cl in SENS_CLASSES:
                    n_visible[(cl, "lu" if conf["lu"] else "iterative")] += bool(sn[cl])
            if outcome == "ok" and len(misses) < 5 and (pa not in ("none", "other_system", "chain_linearize", "n/a")
                                                        or pi not in ("none", "chain_linearize")):
                # the rules as read predicted a failure that the implementation does not show
                # (expected once the repairs are applied to gemseo)
                misses.append({"instance": key, "history": h, "config": conf, "asread": pa, "r3": p3, "asis": pi})
            if outcome == "raised":
                ck.violation("NoRaise", dict(sig, exception=step["exc"]),
                             dict(case, step=k, request=h[-1], error=step, expected=exp))
            elif outcome == "wrong":
                ck.violation("AssembledIsClosedForm", dict(sig, what=sorted({b[2].split(" ")[0] for b in bad})),
                             dict(case, step=k, request=h[-1], bad=bad, expected=exp, got=step["blocks"]))
            else:
                n_blocks += len(ri) * len(ro)
                replayed = True
        if replayed:
            ck.traces += 1
    if not ck.violations and (n_visible[("dydx", "iterative")] == 0 or n_residual == 0):
        raise MachineryError(f"vacuity: {n_visible} replayed requests on which a rounding to integers would be "
                             f"visible, {n_residual} on systems with a discipline in residual form")
    for (key, hist) in singles[:3] + pairs[:3]:
        ck.sample({"instance": key, "history": hist, "expected": cases[(key, "repaired", "fresh", hist)][2],
                   "representations": sorted(reps_of[(key, hist)]),
                   "asread": cases.get((key, "asread", "fresh", hist), ("n/a",))[0],
                   "r3": cases.get((key, "r3", "fresh", hist), ("n/a",))[0],
                   "asis": cases.get((key, "asis", "fresh", hist), ("n/a",))[0]})
    ck.extra["instances_replayed"] = len({k for k, _, _ in todo})
    ck.extra["instances_replayed_with_dyadic_derivatives"] = len({k for k, _, _ in todo if insts[k]["cf"]["d"] > 1})
    ck.extra["instances_replayed_with_residual_form_discipline"] = len({k for k, _, _ in todo if insts[k]["res"]})
    ck.extra["histories_replayed"] = len(todo)
    ck.extra["blocks_equal_to_spec"] = n_blocks
    ck.extra["requests_with_integer_typed_jacobians_where_a_rounding_would_show(class,solve)"] = {
        f"{cl}/{lu}": n for (cl, lu), n in sorted(n_visible.items())}
    ck.extra["requests_on_residual_form_systems"] = n_residual
    ck.extra["outcome_by_representation"] = dict(sorted(rep_stats.items()))
    ck.extra["outcome_by_prediction(pre:asread/r3/asis)"] = dict(sorted(stats.items()))
    ck.extra["solver_sweep"] = dict(sorted(solver_stats.items()))
    ck.extra["predicted_failures_not_observed(examples)"] = misses
    ck.extra["constants"] = {"profiles": profiles, "choices": choices, "seeds": seeds, "emit_profiles": eprofiles,
                             "emit_choices": echoices, "emit_seeds": eseeds,
                             "instances_kept(mc)": len(keep_mc), "instances_kept(emit)": len(keep_emit)}
    ck.exhaustive = False
    ck.assumptions += [
        "exact slice: linear disciplines with constant integer Jacobians (entries -2..2), |det| of the residual Jacobian "
        "in {1, 2, 4} (integer or dyadic total derivatives); conditioning and iterative-solver tolerances on hard systems "
        "are not covered",
        "residual-form disciplines solve their own state equations (state_equations_are_solved=True), d r/d s unimodular; "
        "chain_linearize (chain rule over the inner MDAs) is not bound on them",
        "fixed-point MDA classes are bound on the instances whose coupling operator is nilpotent; Newton-based ones on all",
        "blocks compared to 1e-9 (linear solves are not exact in floating point)",
        "linear solvers bound: " + ", ".join(SOLVERS) + "; " + ", ".join(OTHER_SOLVERS) + " break down or stop early on "
        "these small structured systems (solver_sweep in the evidence) and CG needs a symmetric positive definite matrix",
    ]


if __name__ == "__main__":
    main("C07", run)
