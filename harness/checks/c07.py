"""C07 - coupled total derivatives satisfy the implicit-function equations.

specs/CoupledDeriv.tla (+ specs/Mat.tla) enumerates coupled linear systems with integer partial
Jacobians and a unimodular residual Jacobian, computes the total derivatives twice (closed form /
code-shaped assembly) and TLC checks the clauses of the property on every request subset, mode and
request history.  The printed instances and cases are replayed on real gemseo MDAs
(``linearize`` and ``JacobianAssembly.total_derivatives``); every returned block must equal the block
computed by the specification (1e-9), shapes included, for every MDA class / matrix type / LU option /
linear solver / Jacobian representation sampled.

The specification also carries the selection rules of the code *as read* ("asread", "r3"): they
predict where the present code raises or returns a wrong block; a disagreement of the implementation
is reported with the prediction in its signature, so that known findings are matched by root cause.
"""
from __future__ import annotations

import concurrent.futures as cf
import multiprocessing as mp
import random
import re

from ..core import Check, MachineryError, main, run_tlc
from . import c07_replay as rp

GROUPS = [["pair", "self", "solo", "tailx"], ["tail", "head"], ["cycle3", "seq", "mid"]]
ORACLE_INVS = ["IFT", "NeumannEqInverse", "AssembledIsClosedForm", "SubsystemUnimodular", "DirectEqAdjoint",
               "SubsetIndependence", "StructuralZeros", "Shapes", "CacheCoherent", "NoRaise"]
SOLVERS = ["DEFAULT", "LGMRES", "GMRES", "GCROT"]
OTHER_SOLVERS = ["BICG", "BICGSTAB", "TFQMR", "CGS"]


def tla_set(xs):
    return "{" + ", ".join(('"%s"' % x) if isinstance(x, str) else str(x) for x in xs) + "}"


def cfg(topos, profiles, choices, seeds, rules, maxhist, reqmod, emit, invs, pre=("fresh", "newton", "newtonall"),
        adjmod=4):
    s = ("CONSTANTS\n Topos = %s\n Profiles = %s\n Choices = %s\n Seeds = %s\n RuleSets = %s\n PreSets = %s\n MaxHist = %d\n"
         " ReqMod = %d\n ReqRes = {0}\n AdjMod = %d\n Emit = %s\nSPECIFICATION Spec\nCHECK_DEADLOCK FALSE\n"
         % (tla_set(topos), tla_set(profiles), tla_set(choices), tla_set(seeds), tla_set(rules), tla_set(pre), maxhist,
            reqmod, adjmod, "TRUE" if emit else "FALSE"))
    for i in invs:
        s += f"INVARIANT {i}\n"
    if emit:
        s += "INVARIANT EmitOK\n"
    return s


def tlc_many(ck: Check, jobs, par=3):
    """jobs: list of dict(tag, cfg, workers, timeout, expect_ok, count).  Runs TLC concurrently, each in
    its own sub-directory of ck.work (ck.tlc shares one cfg file per module), with ck.tlc's bookkeeping."""
    def one(j):
        try:
            return j, run_tlc("CoupledDeriv", j["cfg"], ck.work / j["tag"], workers=j.get("workers", 2),
                              timeout=j.get("timeout", 600), coverage=j.get("coverage", True))
        except MachineryError as ex:
            raise MachineryError(f"[{j['tag']}] {ex}") from None
    out = {}
    with cf.ThreadPoolExecutor(max_workers=par) as ex:
        for j, r in ex.map(one, jobs):
            ck.tlc_runs.append({"module": "CoupledDeriv", "tag": j["tag"], "distinct": r.distinct,
                                "generated": r.generated, "depth": r.depth, "wall_s": round(r.wall, 2),
                                "coverage": {k: v[0] for k, v in r.coverage.items()}})
            if r.error or (r.rc != 0 and not r.violated):
                raise MachineryError(f"TLC failed on CoupledDeriv[{j['tag']}]: {r.error or r.out[-2000:]}")
            if j.get("expect_ok", True) and r.violated:
                raise MachineryError(f"specification CoupledDeriv[{j['tag']}] violates {r.violated}:\n" + r.out[-3000:])
            if j.get("count", True):
                ck.states += r.distinct
                ck.transitions += r.generated
            if j.get("coverage", True) and j.get("need_next", True) and r.coverage.get("Next", [0, 0])[0] == 0:
                raise MachineryError(f"vacuity: action Next of CoupledDeriv[{j['tag']}] never taken")
            out[j["tag"]] = r
    return out


def parse_records(results):
    insts, cases = {}, {}
    for r in results:
        for v in r.printed():
            if not (isinstance(v, tuple) and v):
                continue
            if v[0] == "INST":
                _, key, rules, pre, S, size, J, nilp, nodes, merged, cfm = v
                insts[key] = {"key": key, "S": S, "size": size, "J": J, "nilp": nilp,
                              "weak": nodes != merged, "several_groups": nodes == merged and len(nodes) > 1,
                              "cf": cfm}
            elif v[0] == "CASE":
                _, key, rules, pre, hist, err, mcs, tot, exact = v
                cases[(key, rules, pre, hist)] = ("+".join(sorted(err)) or "none", mcs, tot, exact)
    return insts, cases


NEWTON = {"MDANewtonRaphson", "MDAGSNewton"}


def mda_classes(inst):
    """MDA classes that converge on the instance (Newton is exact on linear systems; the fixed-point
    iterations need the nilpotent coupling operator) and accept its coupling structure
    (MDANewtonRaphson, hence MDAGSNewton, and MDAQuasiNewton reject weakly coupled disciplines:
    documented ValueError)."""
    out = [("MDAChain", "MDANewtonRaphson")]
    if not inst["weak"]:
        out.append(("MDANewtonRaphson", None))
    if inst["nilp"]:
        out += [("MDAGaussSeidel", None), ("MDAJacobi", None), ("MDAChain", None)]
        if not inst["weak"]:
            out += [("MDAGSNewton", None), ("MDAQuasiNewton", None)]
    return out


def pre_of(conf, inst):
    """State of the disciplines before the first request, as the specification names it: a Newton
    MDA has linearized the strongly coupled disciplines with respect to the couplings it resolves
    (those of each group for the inner MDAs of an MDAChain, all of them for a Newton MDA over the whole
    structure - the specification distinguishes the two only when there are several groups)."""
    if conf["cls"] in NEWTON:
        return "newtonall" if inst["several_groups"] else "newton"
    return "newton" if conf.get("inner") == "MDANewtonRaphson" else "fresh"


def sample_conf(rng, inst, api, k):
    cls, inner = rng.choice(mda_classes(inst))
    if api == "assembly" and k % 2 == 0:
        cls, inner = ("MDAGaussSeidel", None) if inst["nilp"] else ("MDAChain", "MDANewtonRaphson")
    conf = {"api": api, "cls": cls, "inner": inner, "jac": rng.choice(["dense", "dense", "sparse", "operator"]),
            "rev": rng.random() < 0.5}
    if cls == "MDAChain" and api == "mda" and rng.random() < 0.3:
        # the Jacobian of the MDAChain composed by the chain rule from its inner MDAs
        conf["chain_linearize"] = True
    if rng.random() < 0.25:
        conf.update(matrix_type="matrix", lu=True, solver="DEFAULT")
    else:
        conf.update(matrix_type=rng.choice(["matrix", "linear_operator"]), lu=False, solver=rng.choice(SOLVERS))
    return conf


def prediction(cases, key, rules, pre, h, expected):
    """What the rules as read predict for the last request of h: an err class, "wrong" or "none"."""
    c = cases.get((key, rules, pre, h))
    if c is None:
        return "n/a"
    err, _, tot, exact = c
    if err != "none":
        return err
    if not exact:
        return "other_system"   # the code answers, from a residual system the specification cannot invert
    ri, ro, _ = h[-1]
    if any(tot[f][x] != expected[f][x] for f in ro for x in ri):
        return "wrong"
    return "none"


def run(ck: Check):
    rng = random.Random(ck.seed)
    th = ck.thorough
    tmo = 1700 if th else 900
    # ------------------------------------------------------------------ 1. model checking (no printing)
    profiles = sorted(rng.sample(range(512), 3 if th else 2))
    choices = sorted(rng.sample(range(1, 7), 4 if th else 2))
    seeds = [rng.randrange(1, 50)]
    jobs = []
    alltopos = [t for g in GROUPS for t in g]
    if th:
        for g, topos in enumerate(GROUPS):
            # every request subset and mode of every instance, oracle rules
            jobs.append({"tag": f"mc{g}", "workers": 4, "timeout": tmo,
                         "cfg": cfg(topos, profiles, choices, seeds, ["repaired"], 1, 1, False,
                                    ORACLE_INVS + ["InverseSound"], pre=("fresh",))})
            # the rules as read on fresh disciplines never return a wrong block (they raise)
            jobs.append({"tag": f"ma{g}", "workers": 4, "timeout": tmo,
                         "cfg": cfg(topos, profiles[:2], choices, seeds, ["asread", "r3"], 1, 2, False,
                                    ["AsReadFreshIsRight", "CacheCoherent"], pre=("fresh",))})
            # histories of two requests on the same assembly (cache of the minimal couplings,
            # accumulated differentiated inputs/outputs), disciplines prepared by a Newton MDA
            jobs.append({"tag": f"mh{g}", "workers": 4, "timeout": tmo,
                         "cfg": cfg(topos, profiles[:2], choices[:2], seeds, ["repaired"], 2, 10, False,
                                    ORACLE_INVS, pre=("newton",))})
    else:
        # quick: one run over all topologies, one request in eight per instance (which ones depends on
        # the instance); the two-request histories are model-checked in the emit runs below
        jobs.append({"tag": "mc", "workers": 4, "timeout": tmo,
                     "cfg": cfg(alltopos, profiles, choices, seeds, ["repaired", "asread"], 1, 8, False,
                                ORACLE_INVS + ["AsReadFreshIsRight"], pre=("fresh",))})
        jobs.append({"tag": "inv", "workers": 1, "timeout": tmo,
                     "cfg": cfg(alltopos, profiles[:1], choices, seeds, ["repaired"], 0, 1, False,
                                ["IFT", "InverseSound", "NeumannEqInverse"], pre=("fresh",)), "need_next": False})
    # ------------------------------------------------------------------ 2. records for the replay
    eprofiles = sorted(rng.sample(range(512), 2 if th else 1))
    echoices = sorted(rng.sample(range(1, 7), 3 if th else 2))
    eseeds = [rng.randrange(1, 50)]
    for g, topos in enumerate(GROUPS):
        jobs.append({"tag": f"emit{g}", "workers": 4 if th else 2, "timeout": tmo, "count": not th, "coverage": False,
                     "cfg": cfg(topos, eprofiles, echoices, eseeds, ["repaired", "asread", "r3"], 2,
                                36 if th else 48, True, ORACLE_INVS + ["AsReadFreshIsRight"])})
    # ------------------------------------------------------------------ 3. the rules as read are refuted by TLC
    refute = [("asread-raise", ["tailx"], "asread", "fresh", 1, 1, "AsReadNoRaise"),
              ("r3-raise", ["tailx", "head"], "r3", "fresh", 1, 1, "AsReadNoRaise"),
              ("asread-value-history", ["seq"], "asread", "fresh", 2, 20, "AsReadValues"),
              ("asread-value-newton", ["seq"], "asread", "newton", 1, 1, "AsReadValues")]
    for tag, topos, rl, pr, mh, rm, inv in refute:
        jobs.append({"tag": tag, "workers": 1, "timeout": 900, "expect_ok": False, "count": False,
                     "coverage": False, "cfg": cfg(topos, [5], [1, 2], [1], [rl], mh, rm, False, [inv], pre=(pr,))})
    res = tlc_many(ck, jobs, par=4)
    for tag, _, _, _, _, _, inv in refute:
        r = res[tag]
        ck.extra["spec_refutes_" + tag] = r.violated or "NOT REFUTED"
        if r.violated != inv:
            raise MachineryError(f"the rules as read were expected to be refuted ({tag}: {inv}), TLC says {r.violated}")
        m = re.findall(r"/\\ hist = (<<.*?>>)\n/\\", r.out, re.S)
        e = re.findall(r"/\\ err = (\{.*?\})", r.out)
        ck.extra["counterexample_" + tag] = {"hist": " ".join(m[-1].split()) if m else None, "err": e[-1] if e else None}
    insts, cases = parse_records([res[f"emit{g}"] for g in range(len(GROUPS))])
    # one record per distinct state (PrintT is atomic; several workers only change the order)
    n_rec = sum(1 for g in range(len(GROUPS)) for v in res[f"emit{g}"].printed()
                if isinstance(v, tuple) and v and v[0] in ("INST", "CASE"))
    n_states = sum(res[f"emit{g}"].distinct for g in range(len(GROUPS)))
    if n_rec != n_states:
        raise MachineryError(f"{n_rec} records parsed for {n_states} distinct states of the emit runs")
    if not insts or not cases:
        raise MachineryError("no INST/CASE record printed by TLC")
    # ------------------------------------------------------------------ 4. replay on gemseo
    todo = []
    hists = sorted({(k[0], k[3]) for k in cases if k[1] == "repaired"}, key=repr)
    singles = [k for k in hists if len(k[1]) == 1]
    pairs = [k for k in hists if len(k[1]) == 2]
    n_single = len(singles) if th else min(len(singles), 360)
    n_pairs = min(len(pairs), 2400 if th else 240)
    per_case = 3 if th else 1

    def stratified(pool, n):
        """Three quarters of the sample among the histories on which the code as read is predicted
        to answer (they exercise the numerical path), the rest among the predicted failures."""
        if n >= len(pool):
            return list(pool)
        good = [c for c in pool if cases[(c[0], "asread", "fresh", c[1])][0] == "none"]
        rest = [c for c in pool if cases[(c[0], "asread", "fresh", c[1])][0] != "none"]
        ng = min(len(good), max(n - len(rest), (3 * n) // 4))
        return rng.sample(good, ng) + rng.sample(rest, min(len(rest), n - ng))

    for (key, hist) in stratified(singles, n_single):
        inst = insts[key]
        for k in range(per_case + 1):
            todo.append((key, hist, sample_conf(rng, inst, "mda" if k else "assembly", k)))
    # first the histories whose two requests share exactly one of (variables, functions): a cache of
    # the minimal couplings keyed by half of the request would show there
    adjacent = [c for c in pairs if (c[1][0][0] == c[1][1][0]) != (c[1][0][1] == c[1][1][1])]
    adjacent = rng.sample(adjacent, min(len(adjacent), 1200 if th else 120))
    adjset = set(adjacent)
    others = [c for c in pairs if c not in adjset]
    for (key, hist) in adjacent + stratified(others, max(0, n_pairs - len(adjacent))):
        inst = insts[key]
        (i1, o1, _), (i2, o2, _) = hist
        apis = ["assembly"] + (["mda"] if (i1 <= i2 and o1 <= o2) else [])
        for k, api in enumerate(apis * (2 if th else 1)):
            todo.append((key, hist, sample_conf(rng, inst, api, k + 1)))
    # every solver x matrix type x mode at least once on plain cases (informational for the solvers
    # that are not in SOLVERS: Krylov methods that break down or stop early on these small systems)
    sweep = []
    plain = [k for k in singles if cases[(k[0], "asread", "fresh", k[1])][0] == "none"
             and cases[(k[0], "asread", "newton", k[1])][0] == "none"]
    for (key, hist) in rng.sample(plain, min(len(plain), 24 if th else 6)):
        inst = insts[key]
        for s in SOLVERS + OTHER_SOLVERS:
            for mt in ("matrix", "linear_operator"):
                cls, inner = ("MDAGaussSeidel", None) if inst["nilp"] else ("MDAChain", "MDANewtonRaphson")
                sweep.append((key, hist, {"api": "mda", "cls": cls, "inner": inner, "jac": "dense",
                                          "matrix_type": mt, "lu": False, "solver": s}))
    args = [(insts[key], hist, conf) for key, hist, conf in todo + sweep]
    with mp.get_context("fork").Pool(8) as pool:
        outs = pool.map(rp.job, args, chunksize=8)
    n_blocks = 0
    stats = {}
    solver_stats = {}
    misses = []
    for n, ((key, hist, conf), steps) in enumerate(zip(todo + sweep, outs)):
        inst = insts[key]
        pre = pre_of(conf, inst)
        informational = conf["solver"] in OTHER_SOLVERS
        case = {"instance": {"key": key, "S": inst["S"], "size": inst["size"], "J": inst["J"]},
                "history": hist, "config": conf, "pre": pre}
        replayed = False
        for k, step in enumerate(steps):
            if step.get("where") in ("create", "execute"):
                ck.violation("MDARuns", {"api": conf["api"], "exception": step["exc"], "where": step["where"],
                                         "cls": conf["cls"]}, dict(case, error=step))
                break
            h = hist[:k + 1]
            exp = cases[(key, "repaired", pre, h)][2]
            ri, ro, mode = h[-1]
            if conf.get("chain_linearize"):
                # another code path (MDOChain chain rule over the inner MDAs): no prediction, strict
                pa = p3 = "chain_linearize"
            else:
                pa = prediction(cases, key, "asread", pre, h, exp)
                p3 = prediction(cases, key, "r3", pre, h, exp)
            sig = {"api": conf["api"], "asread": pa, "r3": p3}
            if "exc" in step:
                outcome = "raised"
            else:
                bad = rp.compare_blocks(exp, step["blocks"], ri, ro)
                outcome = "wrong" if bad else "ok"
            if informational:
                st = solver_stats.setdefault(conf["solver"], {"ok": 0, "raised": 0, "wrong": 0})
                st[outcome] += 1
                continue
            if n >= len(todo):
                st = solver_stats.setdefault(conf["solver"], {"ok": 0, "raised": 0, "wrong": 0})
                st[outcome] += 1
            st = stats.setdefault(f"{pre}:{pa}/{p3}", {"ok": 0, "raised": 0, "wrong": 0})
            st[outcome] += 1
            if outcome == "ok" and pa not in ("none", "other_system", "chain_linearize") and len(misses) < 5:
                # the rules as read predicted a failure that the implementation does not show
                # (expected once the repairs are applied to gemseo)
                misses.append({"instance": key, "history": h, "config": conf, "asread": pa, "r3": p3})
            if outcome == "raised":
                ck.violation("NoRaise", dict(sig, exception=step["exc"]),
                             dict(case, step=k, request=h[-1], error=step, expected=exp))
            elif outcome == "wrong":
                ck.violation("AssembledIsClosedForm", dict(sig, what=sorted({b[2].split(" ")[0] for b in bad})),
                             dict(case, step=k, request=h[-1], bad=bad, expected=exp, got=step["blocks"]))
            else:
                n_blocks += len(ri) * len(ro)
                replayed = True
        if replayed:
            ck.traces += 1
    for (key, hist) in singles[:3] + pairs[:3]:
        ck.sample({"instance": key, "history": hist, "expected": cases[(key, "repaired", "fresh", hist)][2],
                   "asread": cases[(key, "asread", "fresh", hist)][0], "r3": cases[(key, "r3", "fresh", hist)][0]})
    ck.extra["instances_replayed"] = len({k for k, _, _ in todo})
    ck.extra["histories_replayed"] = len(todo)
    ck.extra["blocks_equal_to_spec"] = n_blocks
    ck.extra["outcome_by_prediction(pre:asread/r3)"] = dict(sorted(stats.items()))
    ck.extra["solver_sweep"] = dict(sorted(solver_stats.items()))
    ck.extra["predicted_failures_not_observed(examples)"] = misses
    ck.extra["constants"] = {"profiles": profiles, "choices": choices, "seeds": seeds, "emit_profiles": eprofiles,
                             "emit_choices": echoices, "emit_seeds": eseeds}
    ck.exhaustive = False
    ck.assumptions += [
        "exact slice: linear disciplines with constant integer Jacobians (entries -2..2), residual Jacobian unimodular; "
        "conditioning and iterative-solver tolerances on hard systems are not covered",
        "fixed-point MDA classes are bound on the instances whose coupling operator is nilpotent; Newton-based ones on all",
        "blocks compared to 1e-9 (linear solves are not exact in floating point)",
        "linear solvers bound: " + ", ".join(SOLVERS) + "; " + ", ".join(OTHER_SOLVERS) + " break down or stop early on "
        "these small structured systems (solver_sweep in the evidence) and CG needs a symmetric positive definite matrix",
    ]


if __name__ == "__main__":
    main("C07", run)
