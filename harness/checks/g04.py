from ..core import main
from ..growth.g04_scenario_adapter import run

main("G04", run)
