"""C16, discipline level: the DISC instances of DerivApprox.tla replayed on a polynomial harness discipline.

op "approx":    DisciplineJacApprox(d, mode, step).compute_approx_jac(output_names, input_names, x_indices)
op "linearize": d.set_jacobian_approximation(mode, step); d.linearize() (all Jacobians or differentiated subsets)
op "check":     d.check_jacobian(derr_approx=mode, step, threshold, input_names, output_names, indices=...)
                (entry "disc") or DisciplineJacApprox(d, mode, step).check_jacobian(...) (entry "approx") with
                the analytic Jacobian printed by the specification (field ek: the exact derivative, the
                specification's approximation, wrong in a stored entry, wrong by a missing entry, wrong by an
                extra entry), in the representation of the instance (field rep: dense, CSR, CSC, COO); the
                verdict is the one the specification computed over every selected entry; entries outside the
                selected components carry garbage and must not influence the verdict.

Every op is also run with default inputs that differ from the linearisation point (field dk: other values,
arrays of other sizes): the point is the discipline's current input data.  op "linearize" also after a
history of mode settings (prev/phow then meth/how; how "attr" = the `linearization_mode` attribute, the
library's default step: the result is then judged by OrderBound at that step).
"""
from __future__ import annotations

import numpy as np

from ..core import MachineryError
from .c16 import PolyFn, S, close, exc_class, spec_points, subset_class

MODE = {"fd": "finite_differences", "cd": "centered_differences", "cs": "complex_step"}
GARBAGE = 7.0


def make_discipline(fun, il, ol, dfl):
    """The polynomial harness discipline; `dfl`: its default inputs per input variable (scale S) - the same
    point as the linearisation point, another point, or arrays of other sizes (instance field dk)."""
    from gemseo.core.discipline import Discipline

    n = fun["n"]

    class PolyDisc(Discipline):
        def __init__(self):
            super().__init__("PolyDisc")
            self.io.input_grammar.update_from_names([v["nm"] for v in il])
            self.io.output_grammar.update_from_names([v["nm"] for v in ol])
            self.io.input_grammar.defaults = {
                v["nm"]: np.array([t / S for t in dfl[k]]) for k, v in enumerate(il)}
            self.fn = PolyFn(fun)
            self.analytic = {}

        def _run(self, input_data):
            x = [0.0] * n
            for v in il:
                for j, c in enumerate(v["cs"]):
                    x[c - 1] = input_data[v["nm"]][j]
            y = self.fn(np.array(x))
            return {v["nm"]: y[[r - 1 for r in v["cs"]]] for v in ol}

        def _compute_jacobian(self, input_names=(), output_names=()):
            self.jac = {o: {i: m.copy() for i, m in row.items()} for o, row in self.analytic.items()}

    return PolyDisc()


def to_rep(m, rep):
    """The analytic block in the representation of the instance (zeros are not stored by the sparse ones)."""
    if rep == "dense":
        return m
    from scipy import sparse

    return {"csr": sparse.csr_array, "csc": sparse.csc_array, "coo": sparse.coo_array}[rep](m)


def blocks(I, nested):
    """{output name: {input name: matrix}} from the specification's nested sequences (scale S^2)."""
    out = {}
    for ko, o in enumerate(I["orq"]):
        oname = I["ol"][o - 1]["nm"]
        out[oname] = {}
        for ki, i in enumerate(I["ir"]):
            iname = I["il"][i - 1]["nm"]
            rows = len(I["ol"][o - 1]["cs"])
            cols = len(I["il"][i - 1]["cs"])
            out[oname][iname] = np.array(nested[ko][ki], dtype=float).reshape(rows, cols) / (S * S)
    return out


def compare_blocks(ck, sig, case, meth, got, want, exact_keys):
    if exact_keys and (set(got) != set(want) or any(set(got[o]) != set(want[o]) for o in want)):
        ck.violation("Shape", dict(sig, symptom="names"),
                     dict(case, impl={o: sorted(got[o]) for o in got}, spec={o: sorted(want[o]) for o in want}))
        return False
    for o, row in want.items():
        for i, w in row.items():
            if o not in got or i not in got[o]:
                ck.violation("Shape", dict(sig, symptom="names"), dict(case, missing=[o, i]))
                return False
            g = np.asarray(got[o][i])
            if hasattr(got[o][i], "toarray"):
                g = got[o][i].toarray()
            if g.shape != w.shape:
                ck.violation("Shape", sig, dict(case, block=[o, i], impl_shape=list(g.shape), spec_shape=list(w.shape)))
                return False
            if not close(meth, g, w):
                symptom = "nonfinite" if not np.all(np.isfinite(g)) else "value"
                ck.violation("Accuracy", dict(sig, symptom=symptom),
                             dict(case, block=[o, i], impl=g.tolist(), spec=w.tolist()))
                return False
    return True


def index_arg(sel0, size, variant):
    """One of the documented spellings of a component selection, or None to leave the name out."""
    full = sel0 == list(range(size))
    if full and variant == 0:
        return None
    if full and variant == 1:
        return Ellipsis
    if len(sel0) == 1 and variant != 2:
        return sel0[0]
    if sel0 == list(range(sel0[0], sel0[-1] + 1)) and variant == 2:
        return slice(sel0[0], sel0[-1] + 1)
    return list(sel0)


def default_step():
    """The step the library uses when an approximation mode is set without a step."""
    import inspect

    from gemseo.core.discipline import Discipline

    return float(inspect.signature(Discipline.set_jacobian_approximation).parameters["jax_approx_step"].default)


def order_bound_ok(ck, sig, case, I, got, exact, coef, h):
    """OrderBound of the specification evaluated at the library's default step h (not a dyadic number: the
    specification hands over the exact derivative and the symbolic coefficients (2nd derivative / 2, 3rd / 6)
    of the order term; round-off allowance: 1e-6 relative for the real differences, 1e-12 for complex step)."""
    meth = I["meth"]
    for ko, o in enumerate(I["orq"]):
        on = I["ol"][o - 1]["nm"]
        for ki, i in enumerate(I["ir"]):
            inn = I["il"][i - 1]["nm"]
            if on not in got or inn not in got[on]:
                ck.violation("Shape", dict(sig, symptom="names"), dict(case, missing=[on, inn]))
                return False
            g = np.asarray(got[on][inn])
            ex = exact[on][inn]
            if g.shape != ex.shape:
                ck.violation("Shape", sig, dict(case, block=[on, inn], impl_shape=list(g.shape),
                                                spec_shape=list(ex.shape)))
                return False
            for a, row in enumerate(coef[ko][ki]):
                for b, cf in enumerate(row):
                    d2h, d3 = abs(cf["d2h"]) / S, abs(cf["d3"])
                    if meth == "fd":
                        bnd = d2h * h + d3 * h * h + 1e-6 * (1 + abs(ex[a, b]))
                    elif meth == "cd":
                        bnd = d3 * h * h + 1e-6 * (1 + abs(ex[a, b]))
                    else:
                        dd = h if cf["xc"] == 0 else abs(cf["xc"]) / S * h
                        bnd = d3 * dd * dd + 1e-12 * (1 + abs(ex[a, b]))
                    err = abs(g[a, b] - ex[a, b])
                    if not (np.isfinite(g[a, b]) and err <= bnd):
                        ck.violation("OrderBound", sig,
                                     dict(case, block=[on, inn], entry=[a, b], impl=float(g[a, b]),
                                          exact=float(ex[a, b]), error=float(err), bound=float(bnd), step=h))
                        return False
    return True


BASE = {"dk": "same", "sf": "real", "how": "method", "prev": "none", "phow": "none", "rep": "dense", "ek": "exact",
        "entry": "disc"}


def run(ck, funs, dcases, rng):
    from gemseo.utils.derivatives.derivatives_approx import DisciplineJacApprox

    counts = {"approx": 0, "linearize": 0, "check": 0}
    variants: dict = {}
    verdicts: dict = {}
    par_runs = {"procs": 0, "threads": 0}
    n_lin = 0
    par_stride = 16 if ck.thorough else 6
    h_default = default_step()
    for k, (I, out, pts) in enumerate(dcases):
        op, meth = I["op"], I["meth"]
        fun = funs[I["fid"]]
        il, ol = I["il"], I["ol"]
        ins = [il[i - 1]["nm"] for i in I["ir"]]
        outs = [ol[o - 1]["nm"] for o in I["orq"]]
        cols = [c for i in I["ir"] for c in il[i - 1]["cs"]]  # components of the requested flat vector
        nc = len(cols)
        xi0 = [p - 1 for p in I["xi"]]
        hflat = np.array([I["hc"][c - 1] for c in cols], dtype=float) / S
        step = float(hflat[0]) if I["sk"] == "scalar" else hflat
        if I["sf"] == "imag":
            step = 1j * step
        # "base": the linearisation point is also the default point: it need not be passed
        base = I["dk"] == "same"
        sig = {"level": "disc", "op": op, "method": meth, "subset": subset_class(xi0, nc, I["dflt"] and op != "check"),
               "step": I["sk"], "defaults": I["dk"], "step_form": I["sf"]}
        if op == "linearize":
            sig.update(how=I["how"], prev=I["prev"] != "none")
        if op == "check":
            sig.update(rep=I["rep"], entry=I["entry"])
        case = {"instance": I, "input_names": ins, "output_names": outs, "x_indices": xi0,
                "step": str(step) if I["sf"] == "imag" else np.asarray(step).tolist(), "scale": S * S}
        want = blocks(I, out["approx"])
        x0 = tuple((v / S, 0.0) for v in I["X"])
        # the linearisation point: the discipline's current input data
        xdata = {v["nm"]: np.array([I["X"][c - 1] / S for c in v["cs"]]) for v in il}
        at = () if base else (xdata,)
        counts[op] += 1
        vk = f"{op}:" + ",".join(f"{f_}={I[f_]}" for f_ in BASE if I[f_] != BASE[f_] and f_ not in ("prev", "phow"))
        variants[vk] = variants.get(vk, 0) + 1
        if I["prev"] != "none":
            variants[f"{op}:after_another_mode"] = variants.get(f"{op}:after_another_mode", 0) + 1
        ck.traces += 1
        if k % 397 == 0:
            ck.sample({"instance": I, "expected": out})
        try:
            if op == "approx":
                d = make_discipline(fun, il, ol, I["dfl"])
                d.execute(*at)
                d.fn.log.clear()
                ap = DisciplineJacApprox(d, MODE[meth], step=step)
                got = ap.compute_approx_jac(outs, ins, [] if I["dflt"] else xi0)
                if not compare_blocks(ck, sig, case, meth, got, want, True):
                    continue
                logged = set(d.fn.log) | {x0}
                wantp = spec_points(pts) | {x0}
                if logged != wantp:
                    ck.violation("EvalPoints", sig, dict(case, impl=sorted(logged), spec=sorted(wantp)))
            elif op == "linearize":
                n_lin += 1
                # serial for every instance; process / thread back-ends for a fixed stride of them
                pars = ["serial"]
                if I["how"] == "method":
                    pars += (["procs"] if n_lin % par_stride == 0 else []) + (["threads"] if n_lin % par_stride == 1 else [])
                for par in pars:
                    d = make_discipline(fun, il, ol, I["dfl"])
                    psig = sig if par == "serial" else dict(sig, par=par, several_tasks=True)
                    try:
                        # the history of mode settings: the mode in force is the last one set
                        if I["phow"] == "attr":
                            d.linearization_mode = MODE[I["prev"]]
                        elif I["phow"] == "method":
                            d.set_jacobian_approximation(MODE[I["prev"]], jax_approx_step=2.0 ** -3)
                        if I["how"] == "attr":
                            d.linearization_mode = MODE[meth]
                        else:
                            d.set_jacobian_approximation(
                                MODE[meth], jax_approx_step=step, jac_approx_n_processes=1 if par == "serial" else 2,
                                jac_approx_use_threading=par == "threads")
                        everything = len(ins) == len(il) and len(outs) == len(ol)
                        if everything and k % 2 == 0:
                            got = d.linearize(*at, compute_all_jacobians=True)
                        else:
                            d.add_differentiated_inputs(ins)
                            d.add_differentiated_outputs(outs)
                            got = d.linearize(*at)
                    except Exception as ex:  # noqa: BLE001
                        ck.violation("Runs", dict(psig, exception=type(ex).__name__, msg=exc_class(ex)),
                                     dict(case, error=repr(ex)))
                        break
                    if par != "serial":
                        ck.traces += 1
                        par_runs[par] += 1
                    if I["how"] == "attr":
                        if not order_bound_ok(ck, psig, case, I, got, blocks(I, out["exact"]), out["coef"], h_default):
                            break
                    elif not compare_blocks(ck, psig, case, meth, got, want, True):
                        break
            else:
                given = blocks(I, out["analytic"])
                indices = {}
                if I["rep"] != "coo":  # a COO matrix cannot be subscripted: without `indices` (full selections) only
                    for kk, i in enumerate(I["ir"]):
                        a = index_arg([c - 1 for c in I["si"][kk]], len(il[i - 1]["cs"]), (k + kk) % 3)
                        if a is not None:
                            indices[il[i - 1]["nm"]] = a
                    for kk, o in enumerate(I["orq"]):
                        a = index_arg([c - 1 for c in I["so"][kk]], len(ol[o - 1]["cs"]), (k + kk + 1) % 3)
                        if a is not None:
                            indices[ol[o - 1]["nm"]] = a
                case["indices"] = {n_: (a if not isinstance(a, slice) and a is not Ellipsis else repr(a))
                                   for n_, a in indices.items()}
                d = make_discipline(fun, il, ol, I["dfl"])
                # entries outside the requested blocks / the selected components carry garbage
                an = {v["nm"]: {w["nm"]: np.full((len(v["cs"]), len(w["cs"])), GARBAGE) for w in il} for v in ol}
                for kk, o in enumerate(I["orq"]):
                    on = ol[o - 1]["nm"]
                    for jj, i in enumerate(I["ir"]):
                        inn = il[i - 1]["nm"]
                        m = given[on][inn] + GARBAGE
                        rsel = np.array([c - 1 for c in I["so"][kk]])[:, None]
                        csel = np.array([c - 1 for c in I["si"][jj]])
                        m[rsel, csel] = given[on][inn][rsel, csel]
                        an[on][inn] = m
                an = {o: {i: to_rep(m, I["rep"]) for i, m in row.items()} for o, row in an.items()}
                d.analytic = an
                thr = 2.0 ** -I["th"]
                if I["entry"] == "disc":
                    res = d.check_jacobian(*at, derr_approx=MODE[meth], step=step, threshold=thr,
                                           input_names=ins, output_names=outs, indices=indices)
                else:
                    d.linearize(*at, compute_all_jacobians=True)
                    kw = {"analytic_jacobian": an} if k % 2 else {}
                    res = DisciplineJacApprox(d, MODE[meth], step=step).check_jacobian(
                        outs, ins, threshold=thr, indices=indices, **kw)
                vd = f"{I['ek']}:{bool(out['verdict'])}"
                verdicts[vd] = verdicts.get(vd, 0) + 1
                if bool(res) != bool(out["verdict"]):
                    ck.violation("CheckVerdict", dict(sig, symptom="check_verdict", analytic=I["ek"]),
                                 dict(case, impl=bool(res), spec=bool(out["verdict"]), threshold=thr,
                                      analytic={o: {i: (m.toarray() if hasattr(m, "toarray") else m)
                                                    for i, m in row.items()} for o, row in an.items()},
                                      spec_approx=want))
        except Exception as ex:  # noqa: BLE001
            import traceback

            ck.violation("Runs", dict(sig, exception=type(ex).__name__, msg=exc_class(ex)),
                         dict(case, error=repr(ex), traceback=traceback.format_exc(limit=8)))
    # vacuity: every dimension was driven, every kind of wrong analytic Jacobian was both refused and (error
    # outside the selection) accepted by the specification
    need = ("approx:dk=vals", "approx:dk=sizes", "approx:sf=imag", "linearize:dk=vals", "linearize:dk=sizes",
            "linearize:how=attr", "linearize:after_another_mode", "check:ek=self", "check:ek=missing",
            "check:rep=csr,ek=missing", "check:rep=coo,ek=missing,entry=approx", "check:rep=csc,ek=stored",
            "check:rep=csr,ek=extra,entry=approx", "check:dk=sizes", "check:dk=vals,entry=approx")
    for v in need:
        if not variants.get(v):
            raise MachineryError(f"vacuity: no discipline-level instance of variant {v}")
    for v in ("exact:True", "exact:False", "self:True", "stored:False", "missing:False", "extra:False",
              "stored:True", "missing:True", "extra:True"):
        if not verdicts.get(v):
            raise MachineryError(f"vacuity: no check_jacobian instance with analytic/verdict {v}")
    ck.extra["disc_instances"] = counts
    ck.extra["disc_variants"] = variants
    ck.extra["disc_check_verdicts_of_the_specification"] = verdicts
    ck.extra["disc_parallel_linearize_runs"] = par_runs
