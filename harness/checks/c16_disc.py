"""C16, discipline level: the DISC instances of DerivApprox.tla replayed on a polynomial harness discipline.

op "approx":    DisciplineJacApprox(d, mode, step).compute_approx_jac(output_names, input_names, x_indices)
op "linearize": d.set_jacobian_approximation(mode, step); d.linearize() (all Jacobians or differentiated subsets)
op "check":     d.check_jacobian(derr_approx=mode, step, threshold, input_names, output_names, indices=...)
                with (a) the exact derivative printed by the specification as analytic Jacobian (verdict
                `vexact` computed by the specification from the closed-form truncation error), (b) the
                specification's approximation as analytic Jacobian (verdict `vself`); entries outside the
                selected components carry garbage and must not influence the verdict.
"""
from __future__ import annotations

import numpy as np

from .c16 import PolyFn, S, close, exc_class, spec_points, subset_class

MODE = {"fd": "finite_differences", "cd": "centered_differences", "cs": "complex_step"}
GARBAGE = 7.0


def make_discipline(fun, il, ol, X):
    from gemseo.core.discipline import Discipline

    n = fun["n"]

    class PolyDisc(Discipline):
        def __init__(self):
            super().__init__("PolyDisc")
            self.io.input_grammar.update_from_names([v["nm"] for v in il])
            self.io.output_grammar.update_from_names([v["nm"] for v in ol])
            self.io.input_grammar.defaults = {
                v["nm"]: np.array([X[c - 1] / S for c in v["cs"]]) for v in il}
            self.fn = PolyFn(fun)
            self.analytic = {}

        def _run(self, input_data):
            x = [0.0] * n
            for v in il:
                for j, c in enumerate(v["cs"]):
                    x[c - 1] = input_data[v["nm"]][j]
            y = self.fn(np.array(x))
            return {v["nm"]: y[[r - 1 for r in v["cs"]]] for v in ol}

        def _compute_jacobian(self, input_names=(), output_names=()):
            self.jac = {o: {i: m.copy() for i, m in row.items()} for o, row in self.analytic.items()}

    return PolyDisc()


def blocks(I, nested):
    """{output name: {input name: matrix}} from the specification's nested sequences (scale S^2)."""
    out = {}
    for ko, o in enumerate(I["orq"]):
        oname = I["ol"][o - 1]["nm"]
        out[oname] = {}
        for ki, i in enumerate(I["ir"]):
            iname = I["il"][i - 1]["nm"]
            rows = len(I["ol"][o - 1]["cs"])
            cols = len(I["il"][i - 1]["cs"])
            out[oname][iname] = np.array(nested[ko][ki], dtype=float).reshape(rows, cols) / (S * S)
    return out


def compare_blocks(ck, sig, case, meth, got, want, exact_keys):
    if exact_keys and (set(got) != set(want) or any(set(got[o]) != set(want[o]) for o in want)):
        ck.violation("Shape", dict(sig, symptom="names"),
                     dict(case, impl={o: sorted(got[o]) for o in got}, spec={o: sorted(want[o]) for o in want}))
        return False
    for o, row in want.items():
        for i, w in row.items():
            if o not in got or i not in got[o]:
                ck.violation("Shape", dict(sig, symptom="names"), dict(case, missing=[o, i]))
                return False
            g = np.asarray(got[o][i])
            if hasattr(got[o][i], "toarray"):
                g = got[o][i].toarray()
            if g.shape != w.shape:
                ck.violation("Shape", sig, dict(case, block=[o, i], impl_shape=list(g.shape), spec_shape=list(w.shape)))
                return False
            if not close(meth, g, w):
                symptom = "nonfinite" if not np.all(np.isfinite(g)) else "value"
                ck.violation("Accuracy", dict(sig, symptom=symptom),
                             dict(case, block=[o, i], impl=g.tolist(), spec=w.tolist()))
                return False
    return True


def index_arg(sel0, size, variant):
    """One of the documented spellings of a component selection, or None to leave the name out."""
    full = sel0 == list(range(size))
    if full and variant == 0:
        return None
    if full and variant == 1:
        return Ellipsis
    if len(sel0) == 1 and variant != 2:
        return sel0[0]
    if sel0 == list(range(sel0[0], sel0[-1] + 1)) and variant == 2:
        return slice(sel0[0], sel0[-1] + 1)
    return list(sel0)


def run(ck, funs, dcases, rng):
    from gemseo.utils.derivatives.derivatives_approx import DisciplineJacApprox

    counts = {"approx": 0, "linearize": 0, "check": 0}
    par_runs = {"procs": 0, "threads": 0}
    n_lin = 0
    par_stride = 16 if ck.thorough else 6
    for k, (I, out, pts) in enumerate(dcases):
        op, meth = I["op"], I["meth"]
        fun = funs[I["fid"]]
        il, ol = I["il"], I["ol"]
        ins = [il[i - 1]["nm"] for i in I["ir"]]
        outs = [ol[o - 1]["nm"] for o in I["orq"]]
        cols = [c for i in I["ir"] for c in il[i - 1]["cs"]]  # components of the requested flat vector
        nc = len(cols)
        xi0 = [p - 1 for p in I["xi"]]
        hflat = np.array([I["hc"][c - 1] for c in cols], dtype=float) / S
        step = float(hflat[0]) if I["sk"] == "scalar" else hflat
        sig = {"level": "disc", "op": op, "method": meth, "subset": subset_class(xi0, nc, I["dflt"] and op != "check"),
               "step": I["sk"]}
        case = {"instance": I, "input_names": ins, "output_names": outs, "x_indices": xi0,
                "step": np.asarray(step).tolist(), "scale": S * S}
        want = blocks(I, out["approx"])
        x0 = tuple((v / S, 0.0) for v in I["X"])
        counts[op] += 1
        ck.traces += 1
        if k % 397 == 0:
            ck.sample({"instance": I, "expected": out})
        try:
            if op == "approx":
                d = make_discipline(fun, il, ol, I["X"])
                d.execute()
                d.fn.log.clear()
                ap = DisciplineJacApprox(d, MODE[meth], step=step)
                got = ap.compute_approx_jac(outs, ins, [] if I["dflt"] else xi0)
                if not compare_blocks(ck, sig, case, meth, got, want, True):
                    continue
                logged = set(d.fn.log) | {x0}
                wantp = spec_points(pts) | {x0}
                if logged != wantp:
                    ck.violation("EvalPoints", sig, dict(case, impl=sorted(logged), spec=sorted(wantp)))
            elif op == "linearize":
                n_lin += 1
                # serial for every instance; process / thread back-ends for a fixed stride of them
                pars = ["serial"] + (["procs"] if n_lin % par_stride == 0 else []) \
                    + (["threads"] if n_lin % par_stride == 1 else [])
                for par in pars:
                    d = make_discipline(fun, il, ol, I["X"])
                    psig = sig if par == "serial" else dict(sig, par=par, several_tasks=True)
                    try:
                        d.set_jacobian_approximation(
                            MODE[meth], jax_approx_step=step, jac_approx_n_processes=1 if par == "serial" else 2,
                            jac_approx_use_threading=par == "threads")
                        everything = len(ins) == len(il) and len(outs) == len(ol)
                        if everything and k % 2 == 0:
                            got = d.linearize(compute_all_jacobians=True)
                        else:
                            d.add_differentiated_inputs(ins)
                            d.add_differentiated_outputs(outs)
                            got = d.linearize()
                    except Exception as ex:  # noqa: BLE001
                        ck.violation("Runs", dict(psig, exception=type(ex).__name__, msg=exc_class(ex)),
                                     dict(case, error=repr(ex)))
                        break
                    if par != "serial":
                        ck.traces += 1
                        par_runs[par] += 1
                    if not compare_blocks(ck, psig, case, meth, got, want, True):
                        break
            else:
                exact = blocks(I, out["exact"])
                indices = {}
                for kk, i in enumerate(I["ir"]):
                    a = index_arg([c - 1 for c in I["si"][kk]], len(il[i - 1]["cs"]), (k + kk) % 3)
                    if a is not None:
                        indices[il[i - 1]["nm"]] = a
                for kk, o in enumerate(I["orq"]):
                    a = index_arg([c - 1 for c in I["so"][kk]], len(ol[o - 1]["cs"]), (k + kk + 1) % 3)
                    if a is not None:
                        indices[ol[o - 1]["nm"]] = a
                case["indices"] = {n_: (a if not isinstance(a, slice) and a is not Ellipsis else repr(a))
                                   for n_, a in indices.items()}
                for which, base, verdict in (("exact", exact, out["vexact"]), ("self", want, out["vself"])):
                    d = make_discipline(fun, il, ol, I["X"])
                    an = {v["nm"]: {w["nm"]: np.full((len(v["cs"]), len(w["cs"])), GARBAGE) for w in il} for v in ol}
                    for kk, o in enumerate(I["orq"]):
                        on = ol[o - 1]["nm"]
                        for jj, i in enumerate(I["ir"]):
                            inn = il[i - 1]["nm"]
                            m = base[on][inn] + GARBAGE
                            rsel = np.array([c - 1 for c in I["so"][kk]])[:, None]
                            csel = np.array([c - 1 for c in I["si"][jj]])
                            m[rsel, csel] = base[on][inn][rsel, csel]
                            an[on][inn] = m
                    d.analytic = an
                    res = d.check_jacobian(derr_approx=MODE[meth], step=step, threshold=2.0 ** -I["th"],
                                           input_names=ins, output_names=outs, indices=indices)
                    if bool(res) != bool(verdict):
                        ck.violation("CheckVerdict", dict(sig, symptom="check_verdict", analytic=which),
                                     dict(case, impl=bool(res), spec=bool(verdict), threshold=2.0 ** -I["th"],
                                          analytic=an, spec_approx=want))
                        break
        except Exception as ex:  # noqa: BLE001
            import traceback

            ck.violation("Runs", dict(sig, exception=type(ex).__name__, msg=exc_class(ex)),
                         dict(case, error=repr(ex), traceback=traceback.format_exc(limit=8)))
    ck.extra["disc_instances"] = counts
    ck.extra["disc_parallel_linearize_runs"] = par_runs
