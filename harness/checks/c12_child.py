"""Child process of the C12 check: runs one scenario with a history backup, records events, may die
(os._exit) inside the k-th discipline execution.  usage: python -m harness.checks.c12_child <config.json>"""
from __future__ import annotations

import json
import logging
import os
import sys
import warnings

logging.disable(logging.CRITICAL)
warnings.filterwarnings("ignore")

import numpy as np  # noqa: E402
from numpy import array  # noqa: E402

CFG = json.load(open(sys.argv[1]))
TRACE_FD = os.open(CFG["trace"], os.O_WRONLY | os.O_CREAT | os.O_TRUNC, 0o644)
N_EXEC = [0]


def emit(**e):
    os.write(TRACE_FD, (json.dumps(e) + "\n").encode())


def pt(x):
    return [float(v) for v in np.asarray(x).ravel()]


def crash_point(x):
    N_EXEC[0] += 1
    emit(ev="exec_start", p=pt(x), k=N_EXEC[0])
    if N_EXEC[0] == CFG.get("crash_at", 0):
        os.fsync(TRACE_FD)
        os._exit(99)


def build():
    from gemseo.algos.design_space import DesignSpace
    from gemseo.core.discipline import Discipline

    CURVED = CFG.get("system") == "curved"

    class D1(Discipline):
        n = 0

        def __init__(self):
            super().__init__("D1")
            self.io.input_grammar.update_from_names(["x"])
            self.io.output_grammar.update_from_names(["y"])
            self.io.input_grammar.defaults.update({"x": array([1.0, 1.0])})

        def _run(self, input_data):
            D1.n += 1
            x = input_data["x"]
            crash_point(x)
            out = {"y": array([x[0] + 2 * x[1]])}
            emit(ev="exec_end", p=pt(x))
            return out

        def _compute_jacobian(self, input_names=(), output_names=()):
            self.jac = {"y": {"x": array([[1.0, 2.0]])}}

    class D2(Discipline):
        n = 0

        def __init__(self):
            super().__init__("D2")
            self.io.input_grammar.update_from_names(["x", "y"])
            self.io.output_grammar.update_from_names(["f", "g"])
            self.io.input_grammar.defaults.update({"x": array([1.0, 1.0]), "y": array([0.0])})

        def _run(self, input_data):
            D2.n += 1
            x, y = input_data["x"], input_data["y"]
            crash_point(x)
            if CURVED:
                # a non-quadratic objective and a curved constraint: SLSQP needs many iterations, the run is
                # ended by GEMSEO's ftol/xtol testers well before SLSQP's own convergence test
                out = {"f": array([(x[0] - 1) ** 4 + (x[1] - 2) ** 2 + y[0] ** 2 + x[0] * x[1]]),
                       "g": array([1 - x[0] - x[1] ** 2])}
            else:
                out = {"f": array([(x[0] - 1) ** 2 + (x[1] - 2) ** 2 + y[0] ** 2]), "g": array([1 - x[0] - x[1]])}
            emit(ev="exec_end", p=pt(x))
            return out

        def _compute_jacobian(self, input_names=(), output_names=()):
            x, y = self.io.data["x"], self.io.data["y"]
            if CURVED:
                self.jac = {"f": {"x": array([[4 * (x[0] - 1) ** 3 + x[1], 2 * (x[1] - 2) + x[0]]]), "y": array([[2 * y[0]]])},
                            "g": {"x": array([[-1.0, -2 * x[1]]]), "y": array([[0.0]])}}
                return
            self.jac = {"f": {"x": array([[2 * (x[0] - 1), 2 * (x[1] - 2)]]), "y": array([[2 * y[0]]])},
                        "g": {"x": array([[-1.0, -1.0]]), "y": array([[0.0]])}}

    class Df(Discipline):
        n = 0

        def __init__(self):
            super().__init__("Df")
            self.io.input_grammar.update_from_names(["x"])
            self.io.output_grammar.update_from_names(["f"])
            self.io.input_grammar.defaults.update({"x": array([1.0, 1.0])})

        def _run(self, input_data):
            Df.n += 1
            x = input_data["x"]
            crash_point(x)
            emit(ev="exec_end", p=pt(x))
            return {"f": array([(x[0] - 1) ** 2 + (x[1] - 2) ** 2])}

    class Dg(Discipline):
        """Raises ValueError at the points listed in CFG['fail_g'] (a DOE skips such a sample)."""

        n = 0

        def __init__(self):
            super().__init__("Dg")
            self.io.input_grammar.update_from_names(["x"])
            self.io.output_grammar.update_from_names(["g"])
            self.io.input_grammar.defaults.update({"x": array([1.0, 1.0])})

        def _run(self, input_data):
            Dg.n += 1
            x = input_data["x"]
            crash_point(x)
            emit(ev="exec_end", p=pt(x))
            if pt(x) in CFG.get("fail_g", []):
                emit(ev="exec_failed", p=pt(x), outs=["g"])
                raise ValueError("constraint not computable here")
            return {"g": array([1 - x[0] - x[1]])}

    class Do(Discipline):
        """Computes an observable (evaluated by a new-iteration listener of the database)."""

        n = 0

        def __init__(self):
            super().__init__("Do")
            self.io.input_grammar.update_from_names(["x"])
            self.io.output_grammar.update_from_names(["o"])
            self.io.input_grammar.defaults.update({"x": array([1.0, 1.0])})

        def _run(self, input_data):
            Do.n += 1
            x = input_data["x"]
            crash_point(x)
            emit(ev="exec_end", p=pt(x))
            return {"o": array([x[0] * x[1]])}

    ds = DesignSpace()
    ds.add_variable("x", 2, lower_bound=-4.0, upper_bound=4.0, value=array([1.0, 1.0]))
    if CFG.get("system") == "uncoupled":
        return [Df(), Dg()], ds, (Df, Dg)
    if CFG.get("system") == "uncoupled_obs":
        return [Df(), Dg(), Do()], ds, (Df, Dg)
    return [D1(), D2()], ds, (D1, D2)


def file_content(path):
    from gemseo.algos.database import Database

    if not os.path.exists(path):
        return []
    try:
        d = Database.from_hdf(path)
    except Exception as ex:  # noqa: BLE001
        return [{"pt": [], "outs": ["<unloadable: %s>" % type(ex).__name__]}]
    return [{"pt": pt(k.wrapped_array), "outs": sorted(v)} for k, v in d.items()]


def main():
    from gemseo.scenarios.doe_scenario import DOEScenario
    from gemseo.scenarios.mdo_scenario import MDOScenario

    discs, ds, classes = build()
    base = DOEScenario if CFG["kind"] == "doe" else MDOScenario

    class Sc(base):
        def _execute_backup_callback(self, x_vect):
            super()._execute_backup_callback(x_vect)
            emit(ev="export", file=file_content(CFG["path"]))

    sc = Sc(discs, "f", ds, formulation_name=CFG.get("formulation", "MDF"))
    sc.add_constraint("g", constraint_type="ineq")
    if CFG.get("system") == "uncoupled_obs":
        sc.add_observable("o")
    problem = sc.formulation.optimization_problem
    db = problem.database
    seen = {}

    def on_store(x):
        h = db.get_hashable_ndarray(x, True) if hasattr(db, "get_hashable_ndarray") else x
        names = set(db[h] or {}) if db.get(h) is not None else set()
        key = tuple(pt(x))
        new = sorted(names - seen.get(key, set()))
        seen[key] = names | seen.get(key, set())
        emit(ev="store", p=list(key), os=new)

    mode = CFG["mode"]
    # our store listener is registered before the backup's one: a store is logged before its export.
    # With load=True the entries read from the file are stored (and logged) before the marker below;
    # the parent drops everything before the marker and starts the trace from the loaded content.
    db.add_store_listener(on_store)
    sc.set_optimization_history_backup(CFG["path"], at_each_iteration=mode in ("iter", "both"),
                                       at_each_function_call=mode in ("call", "both"), load=bool(CFG.get("load")))
    emit(ev="loaded", db=[{"pt": pt(k.wrapped_array), "outs": sorted(v)} for k, v in db.items()])
    if CFG["kind"] == "doe":
        samples = array(CFG["samples"], dtype=float)
        sc.execute(algo_name="CustomDOE", samples=samples)
    else:
        # counter policy of a restart: "kept" = reset_iteration_counters=False (the counter set by load=True
        # stays effective), "reset" = the drivers' default (the counter restarts from 0 over the loaded history)
        extra = {"reset_iteration_counters": False} if CFG.get("load") and CFG.get("policy", "kept") == "kept" else {}
        sc.execute(algo_name=CFG.get("algo", "SLSQP"), max_iter=CFG.get("max_iter", 8),
                   normalize_design_space=bool(CFG.get("normalize", False)), **dict(CFG.get("settings", {}), **extra))
    res = sc.optimization_result
    msg = "" if res is None or res.message is None else str(res.message)
    # why the run ended, as the driver reports it: GEMSEO's budget, GEMSEO's ftol/xtol testers, or the
    # algorithm itself (its own convergence test, or the end of the samples of a DOE)
    if "GEMSEO stopped the driver" in msg and "Maximum number of iterations" in msg:
        cause = "budget"
    elif "GEMSEO stopped the driver" in msg and ("ftol_rel or ftol_abs" in msg or "xtol_rel or xtol_abs" in msg):
        cause = "tol"
    elif "GEMSEO stopped the driver" in msg:
        cause = "other"
    else:
        cause = "algo"
    emit(ev="done", db=[{"pt": pt(k.wrapped_array), "outs": sorted(v)} for k, v in db.items()],
         counter=int(problem.evaluation_counter.current), cause=cause)
    out = {
        "n_exec": N_EXEC[0], "n1": classes[0].n, "n2": classes[1].n,
        "db": [{"pt": pt(k.wrapped_array), "vals": {n: np.ravel(np.asarray(v, dtype=float)).tolist() for n, v in d.items()}}
               for k, d in db.items()],
        "f_opt": None if res is None or res.f_opt is None else float(np.ravel(res.f_opt)[0]),
        "x_opt": None if res is None or res.x_opt is None else pt(res.x_opt),
        "is_feasible": None if res is None else bool(res.is_feasible),
        "counter": int(problem.evaluation_counter.current),
        "message": msg, "cause": cause,
    }
    json.dump(out, open(CFG["result"], "w"))


if __name__ == "__main__":
    main()
