"""C15, second part: GrammarImpl.tla (specification level), the JSON grammar files shipped with gemseo
(three-way agreement gemseo / reference validator / specification), PydanticGrammar on the shared operations.
"""
from __future__ import annotations

import json
from pathlib import Path

from ..core import MachineryError
from . import c15_impl as I

IMPL_INVS = ["NoStaleValidator", "ValidationCurrent", "ValidateMeaning", "WellFormed", "NoSharing", "SchemaCoherent",
             "SchemaRequired", "ExportCorrect", "DefaultsWellFormed", "DefaultsBound"]
PYD_INVS = ["NoStaleValidator", "ValidationCurrent", "ValidateMeaning", "WellFormed", "NoSharing", "DefaultsWellFormed",
            "DefaultsBound"]


def impl_cfg(rules, rename_resets, max_ops, invs, prop=True, copy_defaults="rebind", cls="json", bake=False,
             copy_flag="dirty"):
    s = (f'CONSTANTS Names = {{"a", "b"}}\n Types = {{1, 2}}\n Rules = "{rules}"\n CopyDefaults = "{copy_defaults}"\n'
         f" RenameResets = {'TRUE' if rename_resets else 'FALSE'}\n MaxOps = {max_ops}\n"
         f' Class = "{cls}"\n BakeRequired = {"TRUE" if bake else "FALSE"}\n CopyFlag = "{copy_flag}"\n'
         "SPECIFICATION Spec\nCHECK_DEADLOCK FALSE\nINVARIANT TypeOK\n")
    for i in invs:
        s += f"INVARIANT {i}\n"
    if prop:
        s += "PROPERTY SchemaAdds\n"
    return s


def executed(ck, trace):
    """The refuting trace of a variant of GrammarImpl ends with  fill a view; the edit that the variant gets wrong:
    the transition tours must have executed that shape, followed by a compared validation, on every grammar class
    (the refutation says where to look, the tours of Grammar.tla look there)."""
    import re

    last = [re.match(r"(\w+)(?:\((.*)\))?", a) for a in trace[-2:]]
    if len(last) < 2 or last[0].group(1) not in ("Validate", "Pickle"):
        raise MachineryError(f"GrammarImpl: unexpected refuting trace {trace}")
    if last[1].group(1) == "EditRequired":
        op = last[1].group(2).split(",")[1].strip('"')
        shape = f"{last[0].group(1)};EditRequired({op});Validate"
    elif last[1].group(1) == "Copy":
        shape = f"{last[0].group(1)};Copy;Validate(copy)"
    else:
        raise MachineryError(f"GrammarImpl: unexpected refuting trace {trace}")
    counts = {}
    for tag, shapes in ck.extra.get("path_shapes", {}).items():
        cls = tag.split("/")[0]
        counts[cls] = counts.get(cls, 0) + shapes.get(shape, 0)
    if "path_shapes" in ck.extra and not ck.violations:
        for cls in ("json", "simple", "pydantic"):
            if not counts.get(cls):
                raise MachineryError(f"vacuity: the shape {shape} of the refuting trace was not executed on {cls}")
    return {"tour_shape": shape, "executed_and_compared": counts}


def impl_spec(ck):
    """Specification-level check of the derived state of JSONGrammar / PydanticGrammar (lazily built views, copies):
    the coherent rules satisfy the invariants; each variant of the rules is refuted (independent TLC runs)."""
    from concurrent.futures import ThreadPoolExecutor

    depth = 5 if ck.thorough else 3
    refute = dict(workers=1, timeout=600, expect_ok=False, count=False, coverage=False)
    runs = {
        # the coherent rules of the JSON grammar, and the rebuild-flag protocol of PydanticGrammar (the model is
        # kept and flagged, a copy owns a new model)
        "coherent-json": (impl_cfg("coherent", True, depth, IMPL_INVS), dict(workers=2, timeout=900, count=False)),
        "coherent-pydantic": (impl_cfg("coherent", True, depth, PYD_INVS, prop=False, cls="pydantic"),
                              dict(workers=2, timeout=900, count=False)),
        # the required names of the moment compiled into the validator, which no edit of the required names drops:
        # validation after  Validate; EditRequired(remove)  does not follow the current required names
        "validator_bakes_required": (impl_cfg("coherent", True, 4, ["ValidateMeaning"], prop=False, bake=True), refute),
        # a copied pydantic grammar that inherits the rebuild flag of its source: the copy of a validated / pickled
        # grammar validates with its new, empty model
        "pydantic_copy_inherits_flag": (impl_cfg("coherent", True, 4, ["ValidationCurrent"], prop=False, cls="pydantic",
                                                 copy_flag="inherit"), refute),
        # the catalogued mutant at specification level: rename without re-initialising the dependencies
        "rename_without_reset": (impl_cfg("coherent", False, 4, ["NoStaleValidator"], prop=False), refute),
        # a copy that installs copy(defaults) (bound to the source grammar) instead of re-binding the defaults
        "copy_keeps_defaults_owner": (impl_cfg("coherent", True, 4, ["DefaultsWellFormed"], prop=False,
                                               copy_defaults="shallow"), refute),
    }
    # the rules of the code as read: which clauses TLC refutes (design-level reproduction of the findings)
    todo = [("NoSharing", False, "json"), ("WellFormed", False, "json"), ("ExportCorrect", False, "json"),
            ("SchemaRequired", False, "json"), ("SchemaAdds", True, "json"),
            ("ValidateMeaning", False, "pydantic")] if ck.thorough else []
    for inv, is_prop, cls in todo:
        runs[f"code_rules/{cls}/{inv}"] = (impl_cfg("code", True, 4, [] if is_prop else [inv], prop=is_prop, cls=cls), refute)
    with ThreadPoolExecutor(4) as pool:
        res = dict(zip(runs, pool.map(lambda kv: ck.tlc("GrammarImpl", kv[1][0], tag="impl-" + kv[0].replace("/", "-"),
                                                        **kv[1][1]), runs.items())))
    for key, acts in (("coherent-json", ("AddTyped", "AddNamed", "AddSchema", "Rename", "Delete", "EditRequired",
                                        "SetDefault", "Schema", "Validate", "ToJson", "Pickle", "Copy")),
                      ("coherent-pydantic", ("AddTyped", "AddNamed", "Rename", "Delete", "EditRequired", "Validate",
                                            "Pickle", "Copy"))):
        r = res[key]
        ck.states += r.distinct
        ck.transitions += r.generated
        for a in acts:
            if r.coverage.get(a, [0, 0])[1] == 0:
                raise MachineryError(f"vacuity: action {a} of GrammarImpl ({key}) never taken")

    def trace_of(r):
        return [a.split(" line")[0] for a, _ in r.counterexample()][1:]

    out = {}
    for key, inv in (("validator_bakes_required", "ValidateMeaning"), ("pydantic_copy_inherits_flag", "ValidationCurrent"),
                     ("rename_without_reset", "NoStaleValidator"), ("copy_keeps_defaults_owner", "DefaultsWellFormed")):
        r = res[key]
        if r.violated != inv:
            raise MachineryError(f"GrammarImpl: {inv} is not refuted by the variant {key} (vacuous)")
        out[key] = {"refutes": r.violated, "trace": trace_of(r)}
    for key in ("validator_bakes_required", "pydantic_copy_inherits_flag"):
        out[key].update(executed(ck, out[key]["trace"]))
    for key in runs:
        if key.startswith("code_rules/"):
            r = res[key]
            out[key] = {"refuted": bool(r.violated), "trace": trace_of(r) if r.violated else None}
    ck.extra["GrammarImpl"] = out


# ------------------------------------------------------------------------------------- shipped JSON files
def atom_of(prop: dict):
    """The atom of Grammar.tla that expresses a property of a shipped schema, or None (transport only)."""
    p = {k: v for k, v in prop.items() if k not in ("description", "id", "title")}
    items = p.get("items")
    if isinstance(items, dict):
        items = {k: v for k, v in items.items() if k not in ("description", "id", "title")}
        p["items"] = items
    for atom, sch in I.ATOM_SCHEMAS.items():
        if p == sch:
            return atom
    return None


CANDIDATES = ["int", "float", "bool", "str", "cplx", "farr", "iarr", "ilist", "flist", "slist", "tuple", "arr2d",
              "empty", "dict", "none"]


def extra_values(prop: dict):
    """Values aimed at the constraints the type lattice does not express (sizes, bounds, enumerations)."""
    import numpy as np

    out = [np.arange(n) + 0.5 for n in range(1, 6)] + [-1.5, 0, 0.5, 2, "http://a.b/c"]
    out += list(prop.get("enum", ()))
    if "format" not in prop:  # "format" is an annotation for the reference validator: strings left out there
        out += ["x", "auto"]
    return out


def shipped_files(ck, ref, oracle_cls):
    import gemseo
    from gemseo.core.grammars.errors import InvalidDataError
    from gemseo.core.grammars.json_grammar import JSONGrammar

    root = Path(gemseo.__file__).parent
    files = sorted(root.rglob("*.json"))
    oracle = oracle_cls(ck, "json")
    expressible = []
    n_files = 0
    n_data = 0
    for f in files:
        try:
            schema = json.loads(f.read_text())
        except ValueError:
            continue
        if not isinstance(schema, dict) or "properties" not in schema:
            continue
        n_files += 1
        rel = str(f.relative_to(root))
        sig = {"what": "shipped_file", "class": "json"}
        ok, g = ck.guard("Load", dict(sig, file=rel), JSONGrammar, "g", file_path=f)
        if not ok:
            continue
        props = schema["properties"]
        names = sorted(props)
        if set(g.keys()) != set(names) or set(g.required_names) != set(schema.get("required", ())):
            ck.violation("Load", dict(sig, kind="definition"),
                         {"file": rel, "keys": sorted(g.keys()), "required": sorted(g.required_names),
                          "schema_required": schema.get("required")})
            continue
        # data: a base dictionary (first candidate value the reference accepts for each property) and its
        # one-point variations; the verdicts of the three parties must agree on every dictionary
        values = {n: [I.kind_value(k) for k in CANDIDATES if not ("format" in props[n] and k == "str")]
                  + extra_values(props[n]) for n in names}
        datas = [{}]
        base_candidates = {n: values[n] for n in names}
        # the base is chosen by the reference below (needs a round trip): ship all single-property dictionaries
        singles = [(n, v) for n in names for v in base_candidates[n]]
        datas += [{n: v} for n, v in singles]
        full = []
        for j in range(max(len(v) for v in values.values())):
            full.append({n: values[n][j % len(values[n])] for n in names})
        datas += full
        for n in names:
            for d in full[:4]:
                datas.append({k: v for k, v in d.items() if k != n})
        verdicts = []
        for d in datas:
            try:
                g.validate(d)
                verdicts.append(True)
            except InvalidDataError:
                verdicts.append(False)
            except Exception as ex:  # noqa: BLE001
                verdicts.append(None)
                ck.violation("Validate", dict(sig, exception=type(ex).__name__), {"file": rel, "data": repr(d)[:300]})
        n_data += len(datas)
        jd = [I.jsonable(d) for d in datas]
        # reference on the shipped text and on what the loaded grammar exports
        ref.add(json.dumps(schema), jd, verdicts, dict(sig, schema="file"), {"file": rel})
        exported = g.to_json()
        ref.add(exported, jd, verdicts, dict(sig, schema="to_json"), {"file": rel})
        atoms = {n: atom_of(props[n]) for n in names}
        if all(atoms.values()):
            expressible.append((rel, g, atoms, frozenset(schema.get("required", ()))))
    ck.extra["shipped_files"] = {"files": n_files, "data_dictionaries": n_data, "expressible_in_lattice": len(expressible)}
    if n_files == 0:
        raise MachineryError("no shipped JSON grammar file found")
    # files whose definition the lattice expresses: the specification's probes and verdicts
    # (names are arbitrary here: they are mapped onto the abstract names a, b, c, ... per file, 3 at a time)
    n_spec = 0

    def chunks(atoms, req):
        names = sorted(atoms)
        for i in range(0, len(names), 3):
            chunk = names[i:i + 3]
            amap = dict(zip(("a", "b", "c"), chunk))
            inv = {v: k for k, v in amap.items()}
            yield names, chunk, amap, (tuple(sorted((inv[n], (atoms[n],)) for n in chunk)),
                                       tuple(sorted(inv[n] for n in chunk if n in req)))

    # one oracle run for all the definitions (and for one valid value per atom)
    oracle.ensure(sorted({key for _, _, atoms, req in expressible for *_, key in chunks(atoms, req)}
                         | {((("a", (atom,)),), ()) for atom in I.ATOM_SCHEMAS}))
    for rel, g, atoms, req in expressible:
        for names, chunk, amap, key in chunks(atoms, req):
            rest = {n: I.kind_value(_valid_kind(oracle, atoms[n])) for n in names if n not in chunk}
            for d, ok in oracle.probes[key]:
                if any(n not in amap and n != "zz" for n in d):
                    continue  # probes on names outside this chunk
                data = dict(rest)
                data.update({amap.get(n, n): I.kind_value(k) for n, k in d.items()})
                try:
                    g.validate(data)
                    got = True
                except InvalidDataError:
                    got = False
                n_spec += 1
                if got != ok:
                    ck.violation("ValidateMeaning", {"what": "shipped_file", "class": "json", "expected": ok},
                                 {"file": rel, "data": repr(data)[:400], "spec_accepts": ok, "impl_accepts": got})
        ck.traces += 1
    ck.extra["shipped_files"]["spec_verdicts"] = n_spec


_VALID = {}


def _valid_kind(oracle, atom):
    if atom not in _VALID:
        key = ((("a", (atom,)),), ())
        oracle.ensure([key])
        _VALID[atom] = next(k for k in sorted(oracle.must[key]["a"]))
    return _VALID[atom]


def run(ck, ref):
    from .c15 import Oracle

    impl_spec(ck)
    shipped_files(ck, ref, Oracle)
