"""C04 - transport between TLC (OptHistory.tla) and the real gemseo objects.

Nothing here decides what a correct report is: an instance enumerated by TLC is built as a real
Database + OptimizationProblem, the real reporting entry points are called and their answers are
encoded back into the integer vocabulary of the specification (value v <-> double v/4, NaN and +oo
sentinels), to be judged by TLC (OptHistoryReport.tla).
"""
from __future__ import annotations

import json
import math
import traceback

NAN = 1000          # OptHistory!NaN
INF = 1000000       # OptHistory!INF
OTHER = 777         # a number that is no value of the instance's vocabulary (never equal to a recorded one)
SCALE = 4.0         # integer v of the specification <-> double v / SCALE (dyadic: exact)


def _f(x):
    pass


def dec(v):
    return float("nan") if v == NAN else v / SCALE


_PROBLEMS: dict = {}


def problem_of(c):
    """The real OptimizationProblem of configuration c.  One problem object per configuration and
    process: between two instances only its Database is emptied (Database.clear) - building the
    wrapped functions anew for each of the 10^5 histories would triple the cost of the replay."""
    from gemseo.algos.design_space import DesignSpace
    from gemseo.algos.optimization_problem import OptimizationProblem
    from gemseo.core.mdo_functions.mdo_function import MDOFunction

    key = json.dumps(c, sort_keys=True)
    if key in _PROBLEMS:
        p, names = _PROBLEMS[key]
        p.database.clear()
        return p, names
    ds = DesignSpace()
    ds.add_variable("x", 1, lower_bound=0.0, upper_bound=100.0, value=1.0)
    p = OptimizationProblem(ds, use_standardized_objective=c["std"])
    p.objective = MDOFunction(_f, "f")
    names = []
    for k, con in enumerate(c["cons"]):
        name = f"c{k + 1}"
        p.add_constraint(MDOFunction(_f, name), constraint_type=con["ty"])
        names.append(name)
    if c["max"]:
        p.minimize_objective = False
    p.tolerances.inequality = c["tolI"] / SCALE
    p.tolerances.equality = c["tolE"] / SCALE
    # the state a driver leaves the problem in (OptimizationResult reads the call counter of the
    # wrapped objective); no function is ever evaluated: the history is written directly
    p.preprocess_functions(is_function_input_normalized=False)
    _PROBLEMS[key] = (p, names)
    return p, names


def build(c, h):
    """The real problem and database of instance (c, h)."""
    from numpy import array, full

    from gemseo.algos.database import Database

    p, names = problem_of(c)
    fname = p.standardized_objective_name
    for i, pt in enumerate(h):
        out = {}
        if pt["f"]:
            v = dec(pt["f"][0])
            out[fname] = array([v]) if c["farr"] else v
        for k, con in enumerate(c["cons"]):
            s = pt["c"][k]
            if s:
                out[names[k]] = array([dec(v) for v in s]) if con["d"] >= 1 else dec(s[0])
            if pt["g"][k]:
                out[Database.get_gradient_name(names[k])] = full((max(con["d"], 1), 1), float(pt["g"][k]))
        x = array([float(i + 1)])
        if i % 2 == 0:
            p.database.store(x, out)
        else:
            # as a driver does: one store per evaluated function, merged by the database
            p.database.store(x, {})
            for key, val in out.items():
                p.database.store(x, {key: val})
    return p, names


def enc_vals(v):
    """A recorded/reported value -> sequence of integers of the specification (<<>>: None)."""
    import numpy as np

    if v is None:
        return []
    a = np.atleast_1d(np.asarray(v, dtype=float)).ravel()
    out = []
    for x in a:
        x = float(x)
        if math.isnan(x):
            out.append(NAN)
        elif math.isinf(x):
            out.append(INF if x > 0 else -INF)
        else:
            q = x * SCALE
            out.append(int(q) if q == int(q) and abs(q) < 500 else OTHER)
    return out


def enc_grad(v):
    import numpy as np

    if v is None:
        return 0
    a = np.asarray(v, dtype=float).ravel()
    if a.size == 0 or not np.all(a == a[0]) or a[0] != int(a[0]) or not 0 < a[0] < 500:
        return OTHER
    return int(a[0])


def enc_idx(x, n):
    """Position in the history of a reported design point (x_i = [i]); 0: not a recorded point."""
    import numpy as np

    if x is None:
        return 0
    a = np.asarray(x, dtype=float).ravel()
    if a.size != 1 or a[0] != int(a[0]) or not 1 <= a[0] <= n:
        return 0
    return int(a[0])


def enc_solution(sol, names, n):
    f, x, feas, cvals, cgrads = sol
    return {"idx": enc_idx(x, n), "feas": bool(feas), "f": enc_vals(f),
            "c": [enc_vals((cvals or {}).get(nm)) for nm in names],
            "g": [enc_grad((cgrads or {}).get(nm)) for nm in names]}


_NO_RES = {"built": False, "idx": 0, "oi": -1, "feas": False, "f": [], "c": [], "g": []}


def _exc(ex):
    return {"exception": type(ex).__name__, "repr": repr(ex)[:300], "traceback": traceback.format_exc(limit=5)}


def replay(c, h):
    """Build instance (c, h) for real, call the reporting entry points, encode what they answer.
    Returns (report record for TLC, dict of exceptions raised by gemseo per entry point)."""
    from gemseo.algos.optimization_result import OptimizationResult

    errors = {}
    n = len(h)
    p, names = build(c, h)
    rec = {"c": c, "h": h}
    try:
        rec["opt"] = enc_solution(p.optimum, names, n)
        rec["optb"] = True
    except Exception as ex:  # noqa: BLE001 - an exception of gemseo is an outcome to be judged
        errors["optimum"] = _exc(ex)
        rec["opt"] = {"idx": 0, "feas": False, "f": [], "c": [[] for _ in names], "g": [0 for _ in names]}
        rec["optb"] = False
    try:
        r = OptimizationResult.from_optimization_problem(p)
        oi = r.optimum_index
        rec["res"] = {"built": True, "idx": enc_idx(r.x_opt, n), "oi": -1 if oi is None else int(oi),
                      "feas": bool(r.is_feasible), "f": enc_vals(r.f_opt),
                      "c": [enc_vals((r.constraint_values or {}).get(nm)) for nm in names],
                      "g": [enc_grad((r.constraints_grad or {}).get(nm)) for nm in names]}
    except Exception as ex:  # noqa: BLE001
        errors["result"] = _exc(ex)
        rec["res"] = dict(_NO_RES, c=[[] for _ in names], g=[0 for _ in names])
    try:
        rec["last"] = enc_solution(p.history.last_point, names, n)
        rec["lastb"] = True
    except Exception as ex:  # noqa: BLE001
        errors["last_point"] = _exc(ex)
        rec["last"] = {"idx": 0, "feas": False, "f": [], "c": [[] for _ in names], "g": [0 for _ in names]}
        rec["lastb"] = False
    try:
        xs, _ = p.history.feasible_points
        rec["fp"] = [enc_idx(x, n) for x in xs]
        rec["fpb"] = True
    except Exception as ex:  # noqa: BLE001
        errors["feasible_points"] = _exc(ex)
        rec["fp"] = []
        rec["fpb"] = False
    try:
        from numpy import array

        rec["vm"] = []
        for i in range(n):
            flag, measure = p.history.check_design_point_is_feasible(array([float(i + 1)]))
            rec["vm"].append({"feas": bool(flag), "v": enc_measure(measure)})
        rec["vmb"] = True
    except Exception as ex:  # noqa: BLE001
        errors["violation_measure"] = _exc(ex)
        rec["vm"] = []
        rec["vmb"] = False
    return rec, errors


def enc_measure(m):
    """The violation measure in units of (1/SCALE)^2.  norm(v)**2 of a 2-vector is not exact in IEEE
    arithmetic (sqrt then square): an integer within 1e-9 is that integer."""
    m = float(m)
    if math.isnan(m):
        return NAN
    if math.isinf(m):
        return INF if m > 0 else -INF
    q = m * SCALE * SCALE
    return int(round(q)) if abs(q - round(q)) < 1e-9 and abs(q) < 100000 else OTHER


# ----------------------------------------------------------------------------- Pareto clause

def replay_pareto(pts, with_result=True):
    """pts: sequence of [o: <<a,b>> | <<>>, feas: bool].  Returns the report for OptPareto."""
    import numpy as np
    from numpy import array

    from gemseo.algos.design_space import DesignSpace
    from gemseo.algos.multiobjective_optimization_result import MultiObjectiveOptimizationResult
    from gemseo.algos.optimization_problem import OptimizationProblem
    from gemseo.algos.pareto.pareto_front import ParetoFront
    from gemseo.algos.pareto.utils import compute_pareto_optimal_points
    from gemseo.core.mdo_functions.mdo_function import MDOFunction

    errors = {}
    n = len(pts)
    rec = {"pts": pts}
    # (1) the filter itself, on the points that have an objective
    with_obj = [i for i, q in enumerate(pts) if q["o"]]
    try:
        if with_obj:
            mask = compute_pareto_optimal_points(
                array([[v / SCALE for v in pts[i]["o"]] for i in with_obj]),
                array([pts[i]["feas"] for i in with_obj]))
            rec["mask"] = [with_obj[j] + 1 for j in range(len(with_obj)) if mask[j]]
        else:
            rec["mask"] = []
        rec["maskb"] = True
    except Exception as ex:  # noqa: BLE001
        errors["compute_pareto_optimal_points"] = _exc(ex)
        rec["mask"], rec["maskb"] = [], False
    # (2) the front of a real problem: 2-vector objective, feasibility through one inequality constraint
    ds = DesignSpace()
    ds.add_variable("x", 1, lower_bound=0.0, upper_bound=100.0, value=1.0)
    p = OptimizationProblem(ds)
    p.objective = MDOFunction(_f, "f", dim=2)
    p.add_constraint(MDOFunction(_f, "g"), constraint_type="ineq")
    for i, q in enumerate(pts):
        out = {"g": array([0.0 if q["feas"] else 1.0])}
        if q["o"]:
            out["f"] = array([v / SCALE for v in q["o"]])
        p.database.store(array([float(i + 1)]), out)
    p.preprocess_functions(is_function_input_normalized=False)
    rec["front"] = []
    rec["frontb"] = True

    def entries(pf):
        xo = np.atleast_2d(pf.x_optima)
        fo = np.atleast_2d(pf.f_optima)
        return [{"idx": enc_idx(xo[j], n), "o": enc_vals(fo[j])} for j in range(len(xo))]

    try:
        rec["front"] = entries(ParetoFront.from_optimization_problem(p))
    except Exception as ex:  # noqa: BLE001
        errors["pareto_front"] = _exc(ex)
        rec["frontb"] = False
    # (3) the consumer: the multi-objective result of the same problem
    rec["mo"] = {"built": True, "has": False, "front": [], "skipped": not with_result}
    if not with_result:
        return rec, errors
    try:
        res = MultiObjectiveOptimizationResult.from_optimization_problem(p)
        if res.pareto_front is not None:
            rec["mo"]["has"] = True
            rec["mo"]["front"] = entries(res.pareto_front)
    except Exception as ex:  # noqa: BLE001
        errors["multiobjective_result"] = _exc(ex)
        rec["mo"]["built"] = False
    return rec, errors
