"""Stand-alone driver of the growth module G05 (not a listed property)."""
from ..core import main
from ..growth.g05_disc_io import run

if __name__ == "__main__":
    main("G05", run)
