from ..core import main
from ..growth.g01_exec_status import run

main("G01", run)
