"""C14 recorder: drives the real DOE libraries through call histories and logs, per call, the three
events validated by specs/DOETrace.tla (call / sample|samplefail|early / end).

Only transport: values are read from gemseo at public observation points (return value of
compute_doe, library.samples / unit_samples, library.seed, the design space's flag, database keys)
plus two test doubles on the library instance: a recording Seeder subclass (logs what get_seed
returned) and a wrapper of the unit-sample hook `_generate_unit_samples` (captures the unit samples
the wrapper returned, observes the flag during sampling, injects sampler failures).
Numbers are logged as small integers: grid indices when a value is on the dyadic grid, otherwise
exact three-way comparisons computed with fractions.Fraction on the doubles.
"""
from __future__ import annotations

from fractions import Fraction

import numpy as np

G = 64          # unit grid denominator of the trace configuration
S = 8           # bound scale
U = G * S
ULP4 = Fraction(4, 2 ** 52)


class InjectedFailure(RuntimeError):
    pass


# ------------------------------------------------------------------ algorithm table
# family: count-rule family of DOEPipeline.tla; seedkw: name of the seed setting (None: no seed);
# settings(n, d, variant) -> (kwargs, n logged, p logged)

def _n(n, d, v):
    return {"n_samples": n}, n, 0


def _none(n, d, v):
    return {}, 0, 0


ALGOS: dict[str, dict] = {}
for _a in ("MC", "LHS", "Halton", "Sobol", "OT_MONTE_CARLO", "OT_RANDOM", "OT_LHS", "OT_LHSC", "OT_SOBOL",
           "OT_HALTON", "OT_REVERSE_HALTON", "OT_HASELGROVE", "OT_FAURE"):
    ALGOS[_a] = {"fam": "exact", "seedkw": "seed", "settings": _n}
ALGOS["PYDOE_LHS"] = {"fam": "exact", "seedkw": "random_state", "settings": _n}
ALGOS["OT_OPT_LHS"] = {"fam": "exact2", "seedkw": "seed", "settings": _n}
ALGOS["PoissonDisk"] = {"fam": "atmost", "seedkw": "seed", "settings": _n}
ALGOS["DiagonalDOE"] = {"fam": "diag", "seedkw": None,
                        "settings": lambda n, d, v: ({"n_samples": n, **({"reverse": ["0"]} if v % 2 else {})}, n, 0)}
ALGOS["OT_FULLFACT"] = {"fam": "fullfact", "seedkw": "seed", "settings": _n}
ALGOS["PYDOE_FULLFACT"] = {"fam": "fullfact", "seedkw": None, "settings": _n}
ALGOS["OT_AXIAL"] = {"fam": "axial", "seedkw": "seed", "settings": _n}
ALGOS["OT_FACTORIAL"] = {"fam": "factorial", "seedkw": "seed", "settings": _n}
ALGOS["OT_COMPOSITE"] = {"fam": "composite", "seedkw": "seed", "settings": _n}
# step: default 0.05, 0.25, and 0.75 (> 1/2: cannot be honoured inside the bounds, logged as p = 1)
ALGOS["MorrisDOE"] = {"fam": "morris", "seedkw": None,
                      "settings": lambda n, d, v: ({"n_samples": n, **({} if v % 3 == 0 else {"step": (0.25, 0.75)[v % 3 - 1]})},
                                                   n, 1 if v % 3 == 2 else 0)}
ALGOS["OT_SOBOL_INDICES"] = {"fam": "sobolidx", "seedkw": "seed",
                             "settings": lambda n, d, v: ({"n_samples": n, "eval_second_order": v % 2 == 0}, n,
                                                          1 if v % 2 == 0 else 0)}
ALGOS["PYDOE_BBDESIGN"] = {"fam": "bb", "seedkw": None,
                           "settings": lambda n, d, v: ({"center": 1 + v % 2}, 0, 1 + v % 2)}
# face: the default "circumscribed" design leaves the cube by construction (outside C14's quantifier)
ALGOS["PYDOE_CCDESIGN"] = {"fam": "cc", "seedkw": None,
                           "settings": lambda n, d, v: ({"face": ("faced", "inscribed", "circumscribed")[v % 3],
                                                         "center": (1, 1 + v % 2)}, 0, 2 + v % 2)}
ALGOS["PYDOE_FF2N"] = {"fam": "ff2n", "seedkw": None, "settings": _none}
ALGOS["PYDOE_PBDESIGN"] = {"fam": "pb", "seedkw": None, "settings": _none}
ALGOS["OATDOE"] = {"fam": "oat", "seedkw": None,
                   "settings": lambda n, d, v: ({"initial_point": np.full(d, 0.5), "step": 0.75 if v % 3 == 2 else 0.25},
                                                0, 1 if v % 3 == 2 else 0)}
ALGOS["CustomDOE"] = {"fam": "custom", "seedkw": None, "settings": None}     # samples built per space


# ------------------------------------------------------------------ design spaces

def build_space(comps, flag0):
    """comps: list of (lb, ub, is_int) with lb, ub multiples of 1/8 (floats)."""
    from gemseo.algos.design_space import DesignSpace

    ds = DesignSpace()
    # consecutive components of the same type form one variable of size <= 2 (sizes > 1 are exercised)
    i = 0
    k = 0
    while i < len(comps):
        j = i + 1
        if j < len(comps) and comps[j][2] == comps[i][2]:
            j += 1
        lb = np.array([c[0] for c in comps[i:j]], dtype=float)
        ub = np.array([c[1] for c in comps[i:j]], dtype=float)
        ds.add_variable(f"v{k}", size=j - i, type_="integer" if comps[i][2] else "float",
                        lower_bound=lb, upper_bound=ub)
        k += 1
        i = j
    if flag0:
        ds.enable_integer_variables_normalization = True
    return ds


def space_json(comps):
    return [{"lb": int(Fraction(c[0]) * S), "ub": int(Fraction(c[1]) * S), "int": bool(c[2])} for c in comps]


def custom_samples(comps, rows, rng):
    """Rows of the design space on the dyadic grid (images of grid points; integers for integer comps)."""
    out = np.empty((rows, len(comps)))
    for r in range(rows):
        for k, (lb, ub, isint) in enumerate(comps):
            if isint:
                out[r, k] = rng.randint(int(lb), int(ub))
            else:
                out[r, k] = float(Fraction(lb) + Fraction(rng.randint(0, 8), 8) * (Fraction(ub) - Fraction(lb)))
    return out


# ------------------------------------------------------------------ numeric logging

def _cmp(a, b):
    return (a > b) - (a < b)


class Interner:
    def __init__(self):
        self.t = {}

    def __call__(self, arr):
        a = np.ascontiguousarray(np.asarray(arr, dtype=float))
        key = (a.shape, a.tobytes())
        return self.t.setdefault(key, len(self.t) + 1)


MAX_GRID_ROWS = 128     # larger matrices are logged as opaque (comparison codes only)
BIG = 4000              # cells: beyond, the codes are computed with vectorised exact double comparisons


def unit_log(u):
    u = np.asarray(u, dtype=float)
    ok = bool(np.isfinite(u).all()) and u.ndim == 2
    ugrid = bool(ok and u.shape[0] <= MAX_GRID_ROWS and np.all(np.abs(u) < 2 ** 20) and np.all(np.mod(u * G, 1.0) == 0.0))
    if u.size and ok:
        # comparisons of doubles with 0 and 1 are exact
        ulo = 1 if u.min() > 0.0 else (0 if u.min() == 0.0 else -1)
        uhi = 1 if u.max() > 1.0 else (0 if u.max() == 1.0 else -1)
    elif u.size:
        ulo, uhi = -1, 1
    else:
        ulo, uhi = 0, 0
    return {"ugrid": ugrid, "u": [[int(v * G) for v in row] for row in u] if ugrid else [],
            "ulo": ulo, "uhi": uhi}


def _image_code(v, uu, lb, ub, isint, tol):
    fx = Fraction(v)
    y = lb + Fraction(uu) * (ub - lb)      # exact image of the unit sample
    dist = abs(fx - y)
    if isint:
        return 0 if (v.is_integer() and 2 * dist <= 1) else (1 if (v.is_integer() and dist <= Fraction(1, 2) + tol) else 2)
    return 0 if dist == 0 else (1 if dist <= tol else 2)


def sample_log(u, x, comps):
    """Per column aggregates <<min cmp(x, lb), max cmp(x, ub), all integral, max image code>> and, when
    representable, the samples as integers in units 1/(S*G)."""
    x = np.asarray(x, dtype=float)
    u = np.asarray(u, dtype=float)
    d = len(comps)
    finite = bool(np.isfinite(x).all())
    xgrid = bool(finite and x.ndim == 2 and x.shape[0] <= MAX_GRID_ROWS and np.all(np.abs(x) < 2 ** 20)
                 and np.all(np.mod(x * U, 1.0) == 0.0))
    cols = []
    shape_ok = x.ndim == 2 and u.ndim == 2 and x.shape == u.shape and x.shape[1] == d
    big = x.size > BIG and finite and shape_ok and bool(np.isfinite(u).all())
    for k in range(x.shape[1] if x.ndim == 2 else 0):
        if k >= d:
            cols.append([0, 0, 0, 2])
            continue
        lb, ub, isint = Fraction(comps[k][0]), Fraction(comps[k][1]), comps[k][2]
        tol = ULP4 * max(abs(lb), abs(ub), 1)
        if big:
            # bounds are dyadic doubles: comparing doubles with them is exact; the image code is computed
            # exactly (Fraction) only for the cells whose double image differs from the sample
            col, ucol = x[:, k], u[:, k]
            flb, fub = float(lb), float(ub)
            lo = 1 if col.min() > flb else (0 if col.min() == flb else -1)
            hi = 1 if col.max() > fub else (0 if col.max() == fub else -1)
            intg = int(bool(np.all(np.mod(col, 1.0) == 0.0)))
            if isint:
                rows = range(len(col))
            else:
                w = fub - flb
                exact_prod = (w == 1.0 and flb == 0.0)      # then flb + ucol * w is exactly the image
                rows = np.nonzero(col != flb + ucol * w)[0] if exact_prod else range(len(col))
            img = 0
            for r in rows:
                img = max(img, _image_code(float(col[r]), float(ucol[r]), lb, ub, isint, tol))
            cols.append([lo, hi, intg, img])
            continue
        lo, hi, intg, img = 1, -1, 1, 0
        for r in range(x.shape[0]):
            v = float(x[r, k])
            if not np.isfinite(v):
                lo, hi, intg, img = -1, 1, 0, 2
                continue
            fx = Fraction(v)
            lo = min(lo, _cmp(fx, lb))
            hi = max(hi, _cmp(fx, ub))
            if not v.is_integer():
                intg = 0
            if not shape_ok or not np.isfinite(u[r, k]):
                img = 2
                continue
            img = max(img, _image_code(v, float(u[r, k]), lb, ub, isint, tol))
        cols.append([lo, hi, intg, img])
    return {"xgrid": xgrid, "x": [[int(v * U) for v in row] for row in x] if xgrid else [],
            "cols": cols, "count": int(x.shape[0]) if x.ndim >= 1 else 0}


# ------------------------------------------------------------------ instrumented library

def make_lib(algo, state):
    """A fresh library instance with the recording seeder and the unit-sample hook."""
    from gemseo.algos.doe.factory import DOELibraryFactory
    from gemseo.utils.seeder import Seeder

    class RecSeeder(Seeder):
        def get_seed(self, seed=None):
            r = super().get_seed(seed)
            state["seeder_log"].append(r)
            return r

    lib = DOELibraryFactory().create(algo)
    lib._seeder = RecSeeder(lib._seeder.default_seed)
    orig = lib._generate_unit_samples

    def hook(design_space, **kw):
        state["reached"] = True
        state["flag_during"] = bool(design_space.enable_integer_variables_normalization)
        u = orig(design_space, **kw)
        state["unit"] = np.array(u, dtype=float, copy=True)
        if state["inj"]:
            raise InjectedFailure("injected sampler failure")
        return u

    lib._generate_unit_samples = hook
    return lib


def _objective(x):
    return float(np.sum(x))


def run_scenario(sc):
    """sc: dict(id, algo, comps, flag0, n, variant, history=[(inst, api, seeded, seed, inj), ...], custom).
    Returns the trace dict for DOETrace (events) and a per-event side table for reporting."""
    from gemseo.algos.optimization_problem import OptimizationProblem
    from gemseo.core.mdo_functions.mdo_function import MDOFunction

    info = ALGOS[sc["algo"]]
    comps = sc["comps"]
    d = len(comps)
    ds = build_space(comps, sc["flag0"])
    state = {"seeder_log": [], "reached": False, "flag_during": False, "unit": None, "inj": False}
    libs = {}
    uid, sid, rid = Interner(), Interner(), Interner()
    events = []
    if info["settings"] is None:
        kwargs, nlog, plog = {"samples": sc["custom"]}, 0, int(len(sc["custom"]))
    else:
        kwargs, nlog, plog = info["settings"](sc["n"], d, sc["variant"])
    for (inst, api, seeded, seed, inj) in sc["history"]:
        if inst not in libs:
            libs[inst] = make_lib(sc["algo"], state)
        lib = libs[inst]
        if info["seedkw"] is None:
            seeded = False
        kw = dict(kwargs)
        if seeded:
            kw[info["seedkw"]] = seed
        state.update(seeder_log=[], reached=False, flag_during=False, unit=None, inj=bool(inj))
        events.append({"ev": "call", "inst": inst, "api": api, "fam": info["fam"], "n": nlog, "p": plog,
                       "seeded": bool(seeded), "seed": int(seed) if seeded else 0, "inj": bool(inj),
                       "flag": bool(ds.enable_integer_variables_normalization), "dflt": int(lib.seed)})
        exc = None
        x = None
        keys = []
        try:
            if api == "compute":
                x = lib.compute_doe(ds, **kw)
            else:
                problem = OptimizationProblem(ds)
                problem.objective = MDOFunction(_objective, "f")
                lib.execute(problem, **kw)
                x = lib.samples
                keys = [np.asarray(k, dtype=float) for k in problem.database.get_x_vect_history()]
        except Exception as ex:  # noqa: BLE001  (every outcome is judged by the specification)
            exc = ex
        calls = len(state["seeder_log"])
        used = int(state["seeder_log"][0]) if calls else 0
        if abs(used) >= 2 ** 30:
            used = 2 ** 30
        if state["unit"] is not None:
            ul = unit_log(state["unit"])
            events.append(dict({"ev": "sample", "calls": calls, "used": used, "flag": state["flag_during"],
                                "cnt": int(state["unit"].shape[0]), "uid": uid(state["unit"])}, **ul))
            if state["inj"] and exc is None:
                exc = InjectedFailure("swallowed")  # never expected: the injected failure must leave the call
            if state["inj"]:
                # the sampler "returned" but the hook raised: for the specification this is SampleFail
                events[-1] = {"ev": "samplefail", "calls": calls, "used": used, "flag": state["flag_during"]}
        elif state["reached"]:
            events.append({"ev": "samplefail", "calls": calls, "used": used, "flag": state["flag_during"]})
        else:
            events.append({"ev": "early"})
        end = {"ev": "end", "ok": exc is None, "flag": bool(ds.enable_integer_variables_normalization),
               "dflt": int(lib.seed), "exc": type(exc).__name__ if exc is not None else ""}
        if exc is None:
            xa = np.asarray(x, dtype=float)
            if xa.ndim != 2:
                xa = xa.reshape((len(xa), -1)) if xa.ndim == 1 else np.zeros((0, d))
            end.update(sample_log(state["unit"], xa, comps))
            end["sid"] = sid(xa)
            # (row identities are only needed for the database order after execute)
            end["rowids"] = [rid(row) for row in xa] if api == "execute" else []
            end["keys"] = [rid(k) for k in keys]
        events.append(end)
    return {"id": sc["id"], "space": space_json(comps), "flag0": bool(sc["flag0"]), "events": events}
