"""C14 recorder: drives the real DOE libraries through call histories and logs, per call, the three
events validated by specs/DOETrace.tla (call / sample|samplefail|early / end).

Only transport: values are read from gemseo at public observation points (return value of
compute_doe, library.samples / unit_samples, library.seed, the design space's flag, database keys)
plus two test doubles on the library instance: a recording Seeder subclass (logs what get_seed
returned) and a wrapper of the unit-sample hook `_generate_unit_samples` (captures the unit samples
the wrapper returned, observes the flag during sampling, injects sampler failures).
Numbers are logged as small integers: grid indices when a value is on the dyadic grid, otherwise
exact three-way comparisons computed with fractions.Fraction on the doubles.
"""
from __future__ import annotations

from fractions import Fraction

import numpy as np

G = 64          # unit grid denominator of the trace configuration
S = 8           # bound scale
U = G * S
ULP4 = Fraction(4, 2 ** 52)


class InjectedFailure(RuntimeError):
    pass


# ------------------------------------------------------------------ algorithm table
# family: count-rule family of DOEPipeline.tla; seedkw: name of the seed setting (None: no seed);
# settings(n, d, variant) -> (kwargs, n logged, p logged[, ux: the user-provided per-component structure as
# logged for the specification, see DOEPipeline.tla "USER-PROVIDED STRUCTURE"])

def _n(n, d, v):
    return {"n_samples": n}, n, 0


def _none(n, d, v):
    return {}, 0, 0


ALGOS: dict[str, dict] = {}
for _a in ("MC", "LHS", "Halton", "Sobol", "OT_MONTE_CARLO", "OT_RANDOM", "OT_LHS", "OT_LHSC", "OT_SOBOL",
           "OT_HALTON", "OT_REVERSE_HALTON", "OT_HASELGROVE", "OT_FAURE"):
    ALGOS[_a] = {"fam": "exact", "seedkw": "seed", "settings": _n}
ALGOS["PYDOE_LHS"] = {"fam": "exact", "seedkw": "random_state", "settings": _n}
ALGOS["OT_OPT_LHS"] = {"fam": "exact2", "seedkw": "seed", "settings": _n}
ALGOS["PoissonDisk"] = {"fam": "atmost", "seedkw": "seed", "settings": _n}
ALGOS["DiagonalDOE"] = {"fam": "diag", "seedkw": None,
                        "settings": lambda n, d, v: ({"n_samples": n, **({"reverse": ["0"]} if v % 2 else {})}, n, 0,
                                                     {"sel": ["0"] if v % 2 else []})}
ALGOS["OT_FULLFACT"] = {"fam": "fullfact", "seedkw": "seed", "settings": _n}
ALGOS["PYDOE_FULLFACT"] = {"fam": "fullfact", "seedkw": None, "settings": _n}
ALGOS["OT_AXIAL"] = {"fam": "axial", "seedkw": "seed", "settings": _n}
ALGOS["OT_FACTORIAL"] = {"fam": "factorial", "seedkw": "seed", "settings": _n}
ALGOS["OT_COMPOSITE"] = {"fam": "composite", "seedkw": "seed", "settings": _n}
# step: default 0.05, 0.25, and 0.75 (> 1/2: cannot be honoured inside the bounds, logged as p = 1)
ALGOS["MorrisDOE"] = {"fam": "morris", "seedkw": None,
                      "settings": lambda n, d, v: ({"n_samples": n, **({} if v % 3 == 0 else {"step": (0.25, 0.75)[v % 3 - 1]})},
                                                   n, 1 if v % 3 == 2 else 0)}
ALGOS["OT_SOBOL_INDICES"] = {"fam": "sobolidx", "seedkw": "seed",
                             "settings": lambda n, d, v: ({"n_samples": n, "eval_second_order": v % 2 == 0}, n,
                                                          1 if v % 2 == 0 else 0)}
ALGOS["PYDOE_BBDESIGN"] = {"fam": "bb", "seedkw": None,
                           "settings": lambda n, d, v: ({"center": 1 + v % 2}, 0, 1 + v % 2)}
# face: the default "circumscribed" design leaves the cube by construction (outside C14's quantifier)
ALGOS["PYDOE_CCDESIGN"] = {"fam": "cc", "seedkw": None,
                           "settings": lambda n, d, v: ({"face": ("faced", "inscribed", "circumscribed")[v % 3],
                                                         "center": (1, 1 + v % 2)}, 0, 2 + v % 2)}
ALGOS["PYDOE_FF2N"] = {"fam": "ff2n", "seedkw": None, "settings": _none}
ALGOS["PYDOE_PBDESIGN"] = {"fam": "pb", "seedkw": None, "settings": _none}
# initial point: distinct, decreasing components (4-k)/8 for even variants (the order of the components matters)
def _oat(n, d, v):
    pv = [G // 2] * d if v % 2 else [(4 - (k % 4)) * G // 8 for k in range(d)]
    return ({"initial_point": np.array(pv, dtype=float) / G, "step": 0.75 if v % 3 == 2 else 0.25},
            0, 1 if v % 3 == 2 else 0, {"pv": pv})


ALGOS["OATDOE"] = {"fam": "oat", "seedkw": None, "settings": _oat}
ALGOS["CustomDOE"] = {"fam": "custom", "seedkw": None, "settings": None}     # samples built per space
# the algorithms of the families parameterised by per-direction levels / centres (scenarios enumerated by TLC)
LFAM_ALGOS = {"fullfactL": ("OT_FULLFACT", "PYDOE_FULLFACT"), "axialL": ("OT_AXIAL",), "factorialL": ("OT_FACTORIAL",),
              "compositeL": ("OT_COMPOSITE",)}
FAM_ALGOS = dict(LFAM_ALGOS, custom=("CustomDOE",), diag=("DiagonalDOE",), oat=("OATDOE",))
NOUX = {"form": "none", "perm": [], "fopt": 0, "pres": [], "sel": [], "pv": [], "scal": False, "lv": []}
WORKDIR = None      # set by the check: where the files of the "file" input form are written
# file input form: fopt -> (delimiter, lines to skip, comment lines inside, extension)
FOPTS = {0: (",", 0, False, ".csv"), 1: (";", 1, False, ".txt"), 2: (" ", 2, False, ".txt"), 3: (",", 0, True, ".csv"),
         4: (";", 2, True, ".csv"), 5: (" ", 0, False, ".csv")}
_file_counter = [0]


def kwargs_from_ux(fam, ux, n):
    """Transport of the user-provided structure (as enumerated by TLC / logged for it) to gemseo settings."""
    if fam == "custom":
        form, pres = ux["form"], ux["pres"]
        if form == "array":
            return {"samples": np.array(pres, dtype=float) / U}
        if form == "rows":
            return {"samples": [{name: np.array(vals, dtype=float) / U for name, vals in row} for row in pres]}
        if form == "cols":
            return {"samples": {name: np.array(mat, dtype=float) / U for name, mat in pres}}
        if form == "file":
            delim, skip, comments, ext = FOPTS[ux["fopt"]]
            _file_counter[0] += 1
            path = WORKDIR / f"doe-{_file_counter[0]}{ext}"
            lines = [f"junk line {i}" for i in range(skip)]
            for i, row in enumerate(pres):
                if comments and i % 2 == 0:
                    lines.append("# a comment line")
                lines.append(delim.join(repr(float(Fraction(v, U))) for v in row))
            path.write_text("\n".join(lines) + "\n")
            return {"doe_file": str(path), "delimiter": delim, "skiprows": skip}
        raise ValueError(form)
    if fam == "diag":
        return {"n_samples": n, **({"reverse": list(ux["sel"])} if ux["sel"] else {})}
    if fam == "fullfactL":
        return {"levels": int(ux["pv"][0]) if ux["scal"] else [int(v) for v in ux["pv"]]}
    if fam in ("axialL", "factorialL", "compositeL"):
        return {"centers": float(Fraction(ux["pv"][0], G)) if ux["scal"] else [float(Fraction(v, G)) for v in ux["pv"]],
                "levels": [float(Fraction(a, b)) for a, b in ux["lv"]]}
    if fam == "oat":
        return {"initial_point": np.array(ux["pv"], dtype=float) / G, "step": 0.25}
    raise ValueError(fam)


# ------------------------------------------------------------------ design spaces

def build_space(raw, prep, flag0):
    """raw: list of (lb, ub, is_int, name) with lb, ub multiples of 1/8 (floats), in the order the variables are
    ADDED (consecutive components with the same name form one variable); prep: DesignSpace operations applied
    afterwards (the specification computes the resulting design-space order: DOEPipeline.tla, Prep)."""
    from gemseo.algos.design_space import DesignSpace

    ds = DesignSpace()
    i = 0
    while i < len(raw):
        j = i + 1
        while j < len(raw) and raw[j][3] == raw[i][3]:
            j += 1
        lb = np.array([c[0] for c in raw[i:j]], dtype=float)
        ub = np.array([c[1] for c in raw[i:j]], dtype=float)
        ds.add_variable(raw[i][3], size=j - i, type_="integer" if raw[i][2] else "float",
                        lower_bound=lb, upper_bound=ub)
        i = j
    for o in prep:
        if o["op"] == "rename":
            ds.rename_variable(o["name"], o["new"])
        elif o["op"] == "remove":
            ds.remove_variable(o["name"])
        elif o["op"] == "keep":
            ds.filter(list(o["names"]))
        elif o["op"] == "dims":
            ds.filter_dimensions(o["name"], list(o["dims"]))
    if flag0:
        ds.enable_integer_variables_normalization = True
    return ds


def _op(op, name="", new="", names=(), dims=()):
    return {"op": op, "name": name, "new": new, "names": list(names), "dims": list(dims)}


def decorate(comps, variant):
    """A way of obtaining the design space `comps` through DesignSpace operations: (raw, prep).  Only an input
    generator: the specification recomputes the final space from (raw, prep), clause HarnessSpace compares."""
    comps = [tuple(c) for c in comps]
    names = []
    for c in comps:
        if c[3] not in names:
            names.append(c[3])
    v = variant % 6
    extra = [(10.0, 11.0, False, "e"), (20.0, 22.0, False, "e")]
    if v == 1:      # the first variable was added under another name (sorted elsewhere), then renamed
        tmp = "zz" + names[0]
        return [c[:3] + (tmp,) if c[3] == names[0] else c for c in comps], [_op("rename", tmp, names[0])]
    if v == 2:      # another variable was added first, then removed
        return extra + comps, [_op("remove", "e")]
    if v == 3:      # another (integer) variable in the middle; filter() with the names in reverse order
        k = max(i for i, c in enumerate(comps) if c[3] == names[0]) + 1
        return comps[:k] + [(0.0, 3.0, True, "m")] + comps[k:], [_op("keep", names=list(reversed(names)))]
    if v == 4:      # the last variable had one more component (the first one), dropped by filter_dimensions
        k = min(i for i, c in enumerate(comps) if c[3] == names[-1])
        size = sum(1 for c in comps if c[3] == names[-1])
        ghost = (5.0, 6.0, comps[k][2], names[-1])
        return comps[:k] + [ghost] + comps[k:], [_op("dims", names[-1], dims=range(1, size + 1))]
    if v == 5:      # renamed last variable + removed trailing variable
        tmp = "a" + names[-1]
        return ([c[:3] + (tmp,) if c[3] == names[-1] else c for c in comps] + extra,
                [_op("remove", "e"), _op("rename", tmp, names[-1])])
    return comps, []


def space_json(comps):
    return [{"var": c[3], "lb": int(Fraction(c[0]) * S), "ub": int(Fraction(c[1]) * S), "int": bool(c[2])} for c in comps]


def layout_of(ds):
    return [[str(n), int(ds.get_size(n))] for n in ds.variable_names]


def custom_samples(comps, rows, rng):
    """Rows of the design space on the dyadic grid (images of grid points; integers for integer comps)."""
    out = np.empty((rows, len(comps)))
    for r in range(rows):
        for k, (lb, ub, isint, *_name) in enumerate(comps):
            if isint:
                out[r, k] = rng.randint(int(lb), int(ub))
            else:
                out[r, k] = float(Fraction(lb) + Fraction(rng.randint(0, 8), 8) * (Fraction(ub) - Fraction(lb)))
    return out


# ------------------------------------------------------------------ numeric logging

def _cmp(a, b):
    return (a > b) - (a < b)


class Interner:
    def __init__(self):
        self.t = {}

    def __call__(self, arr):
        a = np.ascontiguousarray(np.asarray(arr, dtype=float))
        key = (a.shape, a.tobytes())
        return self.t.setdefault(key, len(self.t) + 1)


MAX_GRID_ROWS = 128     # larger matrices are logged as opaque (comparison codes only)
BIG = 4000              # cells: beyond, the codes are computed with vectorised exact double comparisons


def unit_log(u):
    u = np.asarray(u, dtype=float)
    ok = bool(np.isfinite(u).all()) and u.ndim == 2
    ugrid = bool(ok and u.shape[0] <= MAX_GRID_ROWS and np.all(np.abs(u) < 2 ** 20) and np.all(np.mod(u * G, 1.0) == 0.0))
    if u.size and ok:
        # comparisons of doubles with 0 and 1 are exact
        ulo = 1 if u.min() > 0.0 else (0 if u.min() == 0.0 else -1)
        uhi = 1 if u.max() > 1.0 else (0 if u.max() == 1.0 else -1)
    elif u.size:
        ulo, uhi = -1, 1
    else:
        ulo, uhi = 0, 0
    return {"ugrid": ugrid, "u": [[int(v * G) for v in row] for row in u] if ugrid else [],
            "ulo": ulo, "uhi": uhi}


def _image_code(v, uu, lb, ub, isint, tol):
    fx = Fraction(v)
    y = lb + Fraction(uu) * (ub - lb)      # exact image of the unit sample
    dist = abs(fx - y)
    if isint:
        return 0 if (v.is_integer() and 2 * dist <= 1) else (1 if (v.is_integer() and dist <= Fraction(1, 2) + tol) else 2)
    return 0 if dist == 0 else (1 if dist <= tol else 2)


def sample_log(u, x, comps):
    """Per column aggregates <<min cmp(x, lb), max cmp(x, ub), all integral, max image code>> and, when
    representable, the samples as integers in units 1/(S*G)."""
    x = np.asarray(x, dtype=float)
    u = np.asarray(u, dtype=float)
    d = len(comps)
    finite = bool(np.isfinite(x).all())
    xgrid = bool(finite and x.ndim == 2 and x.shape[0] <= MAX_GRID_ROWS and np.all(np.abs(x) < 2 ** 20)
                 and np.all(np.mod(x * U, 1.0) == 0.0))
    cols = []
    shape_ok = x.ndim == 2 and u.ndim == 2 and x.shape == u.shape and x.shape[1] == d
    big = x.size > BIG and finite and shape_ok and bool(np.isfinite(u).all())
    for k in range(x.shape[1] if x.ndim == 2 else 0):
        if k >= d:
            cols.append([0, 0, 0, 2])
            continue
        lb, ub, isint = Fraction(comps[k][0]), Fraction(comps[k][1]), comps[k][2]
        tol = ULP4 * max(abs(lb), abs(ub), 1)
        if big:
            # bounds are dyadic doubles: comparing doubles with them is exact; the image code is computed
            # exactly (Fraction) only for the cells whose double image differs from the sample
            col, ucol = x[:, k], u[:, k]
            flb, fub = float(lb), float(ub)
            lo = 1 if col.min() > flb else (0 if col.min() == flb else -1)
            hi = 1 if col.max() > fub else (0 if col.max() == fub else -1)
            intg = int(bool(np.all(np.mod(col, 1.0) == 0.0)))
            if isint:
                rows = range(len(col))
            else:
                w = fub - flb
                exact_prod = (w == 1.0 and flb == 0.0)      # then flb + ucol * w is exactly the image
                rows = np.nonzero(col != flb + ucol * w)[0] if exact_prod else range(len(col))
            img = 0
            for r in rows:
                img = max(img, _image_code(float(col[r]), float(ucol[r]), lb, ub, isint, tol))
            cols.append([lo, hi, intg, img])
            continue
        lo, hi, intg, img = 1, -1, 1, 0
        for r in range(x.shape[0]):
            v = float(x[r, k])
            if not np.isfinite(v):
                lo, hi, intg, img = -1, 1, 0, 2
                continue
            fx = Fraction(v)
            lo = min(lo, _cmp(fx, lb))
            hi = max(hi, _cmp(fx, ub))
            if not v.is_integer():
                intg = 0
            if not shape_ok or not np.isfinite(u[r, k]):
                img = 2
                continue
            img = max(img, _image_code(v, float(u[r, k]), lb, ub, isint, tol))
        cols.append([lo, hi, intg, img])
    return {"xgrid": xgrid, "x": [[int(v * U) for v in row] for row in x] if xgrid else [],
            "cols": cols, "count": int(x.shape[0]) if x.ndim >= 1 else 0}


# ------------------------------------------------------------------ instrumented library

def make_lib(algo, state):
    """A fresh library instance with the recording seeder and the unit-sample hook."""
    from gemseo.algos.doe.factory import DOELibraryFactory
    from gemseo.utils.seeder import Seeder

    class RecSeeder(Seeder):
        def get_seed(self, seed=None):
            r = super().get_seed(seed)
            state["seeder_log"].append(r)
            return r

    lib = DOELibraryFactory().create(algo)
    lib._seeder = RecSeeder(lib._seeder.default_seed)
    orig = lib._generate_unit_samples

    def hook(design_space, **kw):
        state["reached"] = True
        state["space"] = design_space
        state["flag_during"] = bool(design_space.enable_integer_variables_normalization)
        u = orig(design_space, **kw)
        state["unit"] = np.array(u, dtype=float, copy=True)
        if state["inj"]:
            raise InjectedFailure("injected sampler failure")
        return u

    lib._generate_unit_samples = hook
    return lib


def _objective(x):
    return float(np.sum(x))


def run_scenario(sc):
    """sc: dict(id, algo, comps, flag0, n, variant, history=[(inst, api, seeded, seed, inj[, ux]), ...], custom,
    prepv: how the design space is obtained (decorate), asint: hand the dimension to compute_doe instead of a space).
    Returns the trace dict for DOETrace (events) and a per-event side table for reporting."""
    from gemseo.algos.optimization_problem import OptimizationProblem
    from gemseo.core.mdo_functions.mdo_function import MDOFunction

    info = ALGOS[sc["algo"]]
    comps = sc["comps"]
    d = len(comps)
    asint = int(sc.get("asint", 0))
    raw, prep = decorate(comps, sc.get("prepv", 0))
    ds = None if asint else build_space(raw, prep, sc["flag0"])
    state = {"seeder_log": [], "reached": False, "flag_during": False, "unit": None, "inj": False, "space": None}

    def flag_now():
        # (with a dimension instead of a space, the space compute_doe built is seen at the sampler hook)
        sp_ = ds if ds is not None else state["space"]
        return bool(sp_.enable_integer_variables_normalization) if sp_ is not None else False

    libs = {}
    uid, sid, rid = Interner(), Interner(), Interner()
    events = []
    fam = sc.get("fam", info["fam"])
    if "ux" in sc or any(len(h) > 5 for h in sc["history"]):
        kwargs, nlog, plog, ux0 = None, sc["n"], sc.get("p", 0), sc.get("ux")
    elif info["settings"] is None:
        ux0 = {"form": "array", "pres": [[int(Fraction(v) * U) for v in row] for row in sc["custom"]]}
        kwargs, nlog, plog = {"samples": sc["custom"]}, 0, int(len(sc["custom"]))
    else:
        kwargs, nlog, plog, *rest = info["settings"](sc["n"], d, sc["variant"])
        ux0 = rest[0] if rest else {}
    for (inst, api, seeded, seed, inj, *hux) in sc["history"]:
        if inst not in libs:
            libs[inst] = make_lib(sc["algo"], state)
        lib = libs[inst]
        if info["seedkw"] is None:
            seeded = False
        ux = dict(NOUX, **(hux[0] if hux else (ux0 or {})))
        kw = dict(kwargs) if kwargs is not None else kwargs_from_ux(fam, ux, sc["n"])
        if seeded:
            kw[info["seedkw"]] = seed
        state.update(seeder_log=[], reached=False, flag_during=False, unit=None, inj=bool(inj), space=None)
        events.append({"ev": "call", "inst": inst, "api": api, "fam": fam, "n": nlog, "p": plog,
                       "seeded": bool(seeded), "seed": int(seed) if seeded else 0, "inj": bool(inj),
                       "flag": flag_now(), "dflt": int(lib.seed), "ux": ux,
                       "layout": layout_of(ds) if ds is not None else []})
        exc = None
        x = None
        keys = []
        try:
            if api == "compute":
                x = lib.compute_doe(ds if ds is not None else asint, **kw)
            else:
                problem = OptimizationProblem(ds)
                problem.objective = MDOFunction(_objective, "f")
                lib.execute(problem, **kw)
                x = lib.samples
                keys = [np.asarray(k, dtype=float) for k in problem.database.get_x_vect_history()]
        except Exception as ex:  # noqa: BLE001  (every outcome is judged by the specification)
            exc = ex
        calls = len(state["seeder_log"])
        used = int(state["seeder_log"][0]) if calls else 0
        if abs(used) >= 2 ** 30:
            used = 2 ** 30
        if state["unit"] is not None:
            ul = unit_log(state["unit"])
            events.append(dict({"ev": "sample", "calls": calls, "used": used, "flag": state["flag_during"],
                                "cnt": int(state["unit"].shape[0]), "uid": uid(state["unit"]),
                                "layout": layout_of(state["space"])}, **ul))
            if state["inj"] and exc is None:
                exc = InjectedFailure("swallowed")  # never expected: the injected failure must leave the call
            if state["inj"]:
                # the sampler "returned" but the hook raised: for the specification this is SampleFail
                events[-1] = {"ev": "samplefail", "calls": calls, "used": used, "flag": state["flag_during"]}
        elif state["reached"]:
            events.append({"ev": "samplefail", "calls": calls, "used": used, "flag": state["flag_during"]})
        else:
            events.append({"ev": "early"})
        end = {"ev": "end", "ok": exc is None, "flag": flag_now(),
               "dflt": int(lib.seed), "exc": type(exc).__name__ if exc is not None else ""}
        if exc is None:
            xa = np.asarray(x, dtype=float)
            if xa.ndim != 2:
                xa = xa.reshape((len(xa), -1)) if xa.ndim == 1 else np.zeros((0, d))
            end.update(sample_log(state["unit"], xa, comps))
            end["sid"] = sid(xa)
            # (row identities are only needed for the database order after execute)
            end["rowids"] = [rid(row) for row in xa] if api == "execute" else []
            end["keys"] = [rid(k) for k in keys]
        events.append(end)
    return {"id": sc["id"], "raw": space_json(raw), "prep": prep, "asint": asint, "final": space_json(comps),
            "flag0": bool(sc["flag0"]), "events": events}
