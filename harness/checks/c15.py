"""C15 - grammars stay well-formed under edits and validate exactly their definition.

Grammar.tla (abstract grammar: elements, required names, defaults, namespace maps; one action per public
edit; queries as stuttering actions with "requested since the last edit" flags so that the state graph has
the transitions  fill a lazily built view -> edit -> query again)  is model-checked by TLC (WellFormed,
TypeOK) and its labelled state graph is replayed as a transition tour on the real `JSONGrammar` and
`SimpleGrammar`:

* after every step the projection of the real object (keys, required names, defaults, namespace maps) must
  equal the state TLC computed (WellFormed is then inherited, QueriesPure is the case of the query edges);
* on `Validate` edges the real `validate` is run on the probe data that GrammarProbe.tla generates for the
  state's definition and compared with the verdict of `Accepts` evaluated by TLC (ValidateMeaning);
* on `ToJson` / `Schema` edges the exported schema must be `Export(G)`; the reference `jsonschema` validator
  (python3-vt subprocess) must give the specification's verdicts on `to_json()` (three-way agreement);
* on `ToSimple` edges the converted SimpleGrammar has the same names/required/defaults and accepts what
  `ConversionMustAccept` says;
* every edit that leaves a state in which a lazily built view was requested is followed by the same query
  (staleness paths), and deep random histories from TLC's simulation mode are replayed the same way.  A query met
  again on a later path is still *performed* with a datum the specification accepts, so that the lazily built view
  (compiled validator, rebuilt model) really exists before the next edit;
* `EditRequired(op, S)`: every operation of the live `required_names` set (add, remove, discard, clear, |=, -=, &=)
  keeps the views requested so far: the tours contain  Validate ; EditRequired(op) ; Validate(data lacking the name)
  for every op and every class, and  Validate|Pickle ; Copy ; Validate(copy, wrongly typed data)  and
  Validate ; Copy ; EditRequired(copy) ; Validate(copy)  (counted in the evidence, required by vacuity checks);
* updates that raise (`RejectSchema`, `RejectData` on the grammar, `OtherFails` on another grammar object) leave the
  grammar unchanged and the next edit of any grammar means what it always means (the `fail` flag of the
  specification's state makes "an update fails, then this edit" a transition of its own); schemas with a nested
  object among their properties are applied without merge.
`PydanticGrammar` is driven through the operations whose meaning it shares (elements, merge, rename, delete,
restrict, clear, pickle, copy; an element is required exactly when its field has no default).
GrammarImpl.tla (lazily compiled validator and cached schema of the JSON grammar, what the validator was compiled
from, the rebuild flag and the model of a pydantic grammar and of its copy, the required-names object of a copy) is
checked by TLC with the coherent rules, with the rules of the code as read, and with one variant per catalogued
staleness mechanism; the refuting trace of a variant names a path shape that the tours must have executed.
TLC runs and replays are independent: they run four at a time (threads for TLC, forked processes for the replays),
results are merged in a fixed order.
The JSON grammar files shipped with gemseo are loaded and compared with the reference validator, and with
the specification where their definition is expressible in the type lattice.
"""
from __future__ import annotations

import json
import random
import re
import subprocess
import time

from ..core import Check, Graph, MachineryError, main
from ..tlaval import to_tla
from . import c15_impl as I

EDITS = ["UpdateFromNames", "UpdateFromTypes", "UpdateFromData", "Update", "RestrictTo", "Rename", "Delete",
         "AddNamespace", "Clear", "Pickle", "SetDefault", "DelDefault", "Unrequire", "Require", "EditRequired"]
REQ_OPS = ("add", "remove", "discard", "clear", "ior", "isub", "iand")
FAILING = ("RejectSchema", "RejectData", "OtherFails")
REJECTS = ["RejectDefault", "RejectRequire", "RejectRestrict", "RejectDelete"]
QUERIES_JSON = ["Validate", "Schema", "ToJson", "ToSimple", "Repr"]
QUERIES_SIMPLE = ["Validate", "Repr"]
PYDANTIC_EDITS = ["UpdateFromNames", "UpdateFromTypes", "UpdateFromData", "RestrictTo", "Rename", "Delete", "Clear",
                  "Pickle"]
INVARIANTS = ["TypeOK", "WellFormed"]


def cfg(cls, ops, *, atoms, dkinds=("iarr",), nslots=1, max_elems=2, max_atoms=2, depth=2, probe=False,
        names=("a", "b", "c"), req_ops=REQ_OPS):
    s = (f'CONSTANTS Class = "{cls}"\n Names = {to_tla(set(names))}\n TAtoms = {to_tla(set(atoms))}\n'
         f" DKinds = {to_tla(set(dkinds))}\n Ops = {to_tla(set(ops))}\n NSlots = {nslots}\n"
         f" MaxElems = {max_elems}\n MaxAtoms = {max_atoms}\n MaxDepth = {depth}\n ReqOps = {to_tla(set(req_ops))}\n")
    if probe:
        return s + "INIT PInit\nNEXT PNext\nCHECK_DEADLOCK FALSE\n"
    s += "SPECIFICATION Spec\nCONSTRAINT Bound\nCHECK_DEADLOCK FALSE\n"
    for i in INVARIANTS:
        s += f"INVARIANT {i}\n"
    return s + "PROPERTY QueriesPure\nPROPERTY CopyEqual\n"


def copy_defaults(thorough, queries):
    """Copy; the two grammars diverge (delete / new element / rename / namespace in either of them); a default is
    then written (or must be refused) in either of them: the defaults of a copy follow the elements of the copy.
    Histories of 4 edits are needed (element, [default], copy, diverging edit, default): a small alphabet."""
    ops = ["UpdateFromNames", "Copy", "Delete", "Rename", "AddNamespace", "SetDefault", "RejectDefault"] + queries
    return ("copy-defaults", ops, dict(atoms=["Int"], nslots=2, depth=4, max_elems=2,
                                       names=("a", "b", "c") if thorough else ("a", "b")), ops)


def required_edits(cls, thorough):
    """A lazily built view is filled (validate / schema / pickle), the required names are edited through the live
    `required_names` set, the view is asked again: validation follows the current required names."""
    ops = ["UpdateFromNames", "UpdateFromTypes", "EditRequired", "RejectRequire", "Pickle", "Validate"]
    if cls == "json":
        ops += ["Schema", "ToJson"]
    return ("required", ops, dict(atoms=["Int"], depth=3, max_elems=3 if thorough else 2,
                                  names=("a", "b", "c") if thorough else ("a", "b")), ops)


def copy_clean(cls, thorough):
    """A copy taken from a grammar whose lazily built views are up to date (validated, pickled, unpickled), used
    before any edit of its own, then edited through its own required names."""
    ops = ["UpdateFromTypes", "Copy", "Pickle", "EditRequired", "Validate"] + (["Delete", "Rename"] if thorough else [])
    return ("copy-clean", ops, dict(atoms=["Int", "Str"] if thorough else ["Int"], nslots=2, depth=4 if thorough else 3,
                                    max_elems=2, names=("a", "b"),
                                    req_ops=REQ_OPS if thorough else ("discard", "clear")), ops)


def configs(ck: Check, cls: str):
    """(name, ops, cfg keywords, require_actions).  Several focused alphabets instead of one product."""
    js = cls == "json"
    t = ck.thorough
    if cls == "pydantic":
        # the shared operations: an element is required exactly when its field has no default, i.e. always for
        # the elements these operations create; required_names / defaults edits do not reach the model
        ops = PYDANTIC_EDITS + ["RejectRestrict", "RejectDelete", "Validate", "Repr"]
        cops = ["UpdateFromNames", "UpdateFromTypes", "Copy", "Delete", "Validate"] + (["Rename"] if t else [])
        return [("types", ops, dict(atoms=["Int", "Num", "Str"] if t else ["Int", "Num"], dkinds=("iarr", "str") if t else ("iarr",),
                                    depth=3 if t else 2, max_elems=3 if t else 2), ops),
                ("copy", cops, dict(atoms=["Int"], nslots=2, depth=4 if t else 3, max_elems=2), cops),
                copy_defaults(t, []), required_edits(cls, t), copy_clean(cls, t)]
    q = QUERIES_JSON if js else QUERIES_SIMPLE
    q1 = q if t else [x for x in q if x != "Repr"]
    out = []
    # 1. definition edits x types (merge for JSON), no defaults
    ops = ["UpdateFromNames", "UpdateFromTypes", "UpdateFromData", "RestrictTo", "Rename", "Delete", "Clear",
           "Pickle", "RejectRestrict", "RejectDelete"] + q1 + (["Unrequire", "Require", "RejectRequire"] if t else [])
    if not js:
        ops.append("RejectMerge")
    atoms = ["Int", "Num", "Str", "Arr", "Bool", "Any"] if t else ["Int", "Num", "Arr"]
    out.append(("types", ops, dict(atoms=atoms, dkinds=("iarr", "float", "str") if t else ("iarr",),
                                   depth=3, max_elems=3 if t else 2), ops))
    if t:
        out.append(("types-deep", ops, dict(atoms=["Int", "Num", "Arr"], depth=4, max_elems=2), ops))
    # 2. defaults, update from another grammar, namespaces
    ops = ["UpdateFromTypes", "Update", "SetDefault", "DelDefault", "Rename", "Delete", "RestrictTo",
           "AddNamespace", "Pickle", "Unrequire", "RejectDefault"] + q
    out.append(("defaults", ops, dict(atoms=["Int", "Str"] if t else ["Int"], depth=4 if t else 3, max_elems=2), ops))
    # 3. copies: two grammar objects
    ops = ["UpdateFromNames", "UpdateFromTypes", "Copy", "Unrequire", "Delete", "Validate"]
    if t:
        ops += ["Require", "SetDefault", "Rename"] + (["ToJson"] if js else [])
    out.append(("copy", ops, dict(atoms=["Int"], nslots=2, depth=4 if t else 3, max_elems=2), ops))
    out.append(copy_defaults(t, ["Validate"] if t else []))
    # 3b. edits of the live required-names set around filled views; copies of grammars with filled views
    out.append(required_edits(cls, t))
    out.append(copy_clean(cls, t))
    # 4. schemas and files (JSON only)
    if js:
        ops = ["UpdateFromNames", "UpdateFromTypes", "UpdateFromSchema", "Reload", "Unrequire", "Pickle",
               "Validate", "Schema", "ToJson"]
        out.append(("schema", ops, dict(atoms=["Int"], depth=4 if t else 3, max_elems=2), ops))
        # 5. updates that raise (on this grammar object or on another one), then the next edit
        #    (and schemas with a nested object among their properties: 3 elements)
        ops = ["UpdateFromTypes", "UpdateFromSchema", "RejectSchema", "RejectData", "OtherFails", "Validate", "ToJson"]
        if t:
            ops += ["UpdateFromData", "Delete", "Pickle"]
        out.append(("failed-update", ops, dict(atoms=["Int", "Str"] if t else ["Int"], depth=3, max_elems=3), ops))
    return out


# ------------------------------------------------------------------------------------- oracle run
def gkey(G):
    el = I.fn(G["elems"])
    return (tuple(sorted((n, tuple(sorted(t))) for n, t in el.items())), tuple(sorted(G["req"])))


class Oracle:
    """Probe data + verdicts computed by TLC (GrammarProbe.tla) for grammar definitions."""

    def __init__(self, ck: Check, cls: str):
        self.ck, self.cls = ck, cls
        self.probes = {}  # gkey -> list of (abstract data dict, ok)
        self.must = {}    # gkey -> {name: set of natural kinds}
        self.wf = {}
        self.others = None

    def ensure(self, keys):
        todo = [k for k in keys if k not in self.probes]
        if not todo and self.others is not None:
            return
        recs = [{"id": i + 1, "names": [n for n, _ in k[0]], "types": [list(t) for _, t in k[0]], "req": list(k[1])}
                for i, k in enumerate(todo)]
        f = self.ck.work / f"probe-{self.cls}-{time.time_ns()}.json"
        f.write_text(json.dumps(recs))
        r = self.ck.tlc("GrammarProbe", cfg(self.cls, [], atoms=["Int"], probe=True), workers=1, timeout=600,
                        count=False, coverage=False, env={"PROBE_FILE": str(f)}, tag=f.stem)
        seen = set()
        for v in r.printed():
            if not isinstance(v, tuple) or not v:
                continue
            if v[0] == "OTHERS":
                self.others = v[1]
            elif v[0] == "PROBES":
                k = todo[v[1] - 1]
                seen.add(v[1])
                self.probes[k] = sorted(((I.fn(p["d"]), p["ok"]) for p in v[2]),
                                        key=lambda x: (sorted(x[0].items()), x[1]))
                self.must[k] = {n: set(ks) for n, ks in I.fn(v[3]).items()}
                self.wf[k] = v[4]
        if len(seen) != len(todo) or self.others is None:
            raise MachineryError(f"oracle run: {len(seen)} of {len(todo)} grammar definitions answered")


# ------------------------------------------------------------------------------------- reference validator
REF_SCRIPT = r"""
import json, sys
import jsonschema
from jsonschema.validators import validator_for
jobs = json.load(open(sys.argv[1]))
out = []
for job in jobs:
    schema = job["schema"]
    try:
        cls = validator_for(schema)
        cls.check_schema(schema)
        v = cls(schema)
        out.append([v.is_valid(d) for d in job["data"]])
    except Exception as ex:
        out.append("ERROR " + repr(ex)[:300])
json.dump(out, open(sys.argv[2], "w"))
"""


class Reference:
    """Batch of (schema text, data list, expected verdicts, context) judged by `jsonschema` under python3-vt."""

    def __init__(self, ck: Check):
        self.ck = ck
        self.jobs = {}

    def add(self, schema_text: str, datas, expected, sig, detail):
        key = (schema_text, json.dumps(datas, sort_keys=True))
        if key not in self.jobs:
            self.jobs[key] = (schema_text, datas, expected, sig, detail)

    def flush(self):
        if not self.jobs:
            return 0
        jobs = list(self.jobs.values())
        fin, fout, script = self.ck.work / "ref-in.json", self.ck.work / "ref-out.json", self.ck.work / "ref.py"
        fin.write_text(json.dumps([{"schema": json.loads(s), "data": d} for s, d, _, _, _ in jobs]))
        script.write_text(REF_SCRIPT)
        p = subprocess.run(["timeout", "600", "python3-vt", str(script), str(fin), str(fout)],
                           capture_output=True, text=True)
        if p.returncode != 0 or not fout.exists():
            raise MachineryError(f"reference validator failed: {p.stderr[-1500:]}")
        res = json.loads(fout.read_text())
        n = 0
        for (s, d, exp, sig, detail), got in zip(jobs, res):
            if isinstance(got, str):
                self.ck.violation("ReferenceAgree", dict(sig, kind="schema_rejected_by_reference"),
                                  dict(detail, schema=s, error=got))
                continue
            for dat, e, g_ in zip(d, exp, got):
                n += 1
                if e is not None and e != g_:
                    self.ck.violation("ReferenceAgree", dict(sig, expected=e),
                                      dict(detail, schema=s, data=dat, expected=e, reference=g_))
        self.jobs = {}
        return n


# ------------------------------------------------------------------------------------- replay
def classify(want: frozenset, got):
    if got is None:
        return "absent"
    if got == want:
        return "equal"
    if got > want:
        return "superset"
    if got < want:
        return "subset"
    return "other"


class Tour:
    def __init__(self, ck, cls, name, graph, oracle, ref):
        self.ck, self.cls, self.name, self.gr, self.oracle, self.ref = ck, cls, name, graph, oracle, ref
        self.heavy_done = set()
        self.covered = set()
        self.auto_validate = False
        self.n_steps = 0
        self.n_probes = 0
        self.shapes = {}   # path shapes actually executed on the real objects (vacuity of the staleness paths)
        self.filled = {}   # slot -> "Validate" | "Pickle": how the validator of the slot was last brought up to date
        self.nested_update = False

    def sig(self, clause, action, hist, **kw):
        s = {"clause": clause, "class": self.cls, "op": action,
             "copied": "Copy" in hist, "pickled": "Pickle" in hist}
        s.update(self.history_class(hist))
        s.update(kw)
        return s

    def history_class(self, hist):
        """Signature keys naming the class of the history: an update raised earlier; a schema with a nested object
        among its properties was applied earlier."""
        out = {}
        if any(a in hist for a in FAILING):
            out["failed_update"] = True
        if self.nested_update:
            out["nested_update"] = True
        return out

    def shape(self, action, args, compared):
        """Counts the executed shapes  Validate ; EditRequired(op) ; Validate  and  Validate|Pickle ; Copy ;
        Validate(copy)  (steps on the real objects with no edit of the elements in between; the last Validate is
        one whose verdicts were compared with the specification's)."""
        if action == "Validate":
            s = args[0]
            f = self.filled.get(s)
            if isinstance(f, tuple) and compared:
                self.shapes[f[1]] = self.shapes.get(f[1], 0) + 1
            self.filled[s] = "Validate"
        elif action == "Pickle":
            self.filled[args[0]] = "Pickle"
        elif action == "EditRequired":
            s = args[0]
            f = self.filled.get(s)
            if f in ("Validate", "Pickle") or (isinstance(f, tuple) and f[0] == "copy"):
                self.filled[s] = ("edit", f"{f if isinstance(f, str) else 'Copy'};EditRequired({args[1]});Validate")
            elif not isinstance(f, tuple):
                self.filled.pop(s, None)
        elif action == "Copy":
            f = self.filled.get(1)
            if f in ("Validate", "Pickle"):
                self.filled[2] = ("copy", f"{f};Copy;Validate(copy)")
            else:
                self.filled.pop(2, None)
        elif action not in QUERIES_JSON and action not in REJECTS and action not in FAILING:
            if args and isinstance(args[0], int):
                self.filled.pop(args[0], None)

    def detail(self, path, k, **kw):
        e = self.gr.edges
        d = {"config": self.name, "history": [self.label(j) for j in path[:k + 1]]}
        d.update(kw)
        return d

    def label(self, j):
        _, _, a, args = self.gr.edges[j]
        return f"{a}{_show(args)}"

    def compare_state(self, impl, state, action, args, hist, path, k):
        """projection of every live real grammar == state computed by TLC.  Returns False on divergence."""
        ok = True
        edited = args[0] if args and action != "Copy" else (0 if action == "OtherFails" else 2)
        for s, G in enumerate(state["g"], start=1):
            if not G["live"]:
                continue
            obs = impl.observe(s)
            want = {"elems": frozenset(I.fn(G["elems"])), "req": frozenset(G["req"]), "dflt": I.fn(G["dflt"]),
                    "toNs": I.fn(G["toNs"]), "fromNs": I.fn(G["fromNs"])}
            for field, clause in (("elems", "Keys"), ("req", "Required"), ("dflt", "Defaults"),
                                  ("toNs", "Namespaces"), ("fromNs", "Namespaces")):
                if obs[field] != want[field]:
                    ok = False
                    self.ck.violation(clause, self.sig(clause, action, hist, slot="edited" if s == edited else "other"),
                                      self.detail(path, k, slot=s, field=field, spec=want[field], impl=obs[field]))
                    break
            if "views" in obs:
                ok = False
                self.ck.violation("Keys", self.sig("Keys", action, hist, view="iter/names/len"),
                                  self.detail(path, k, slot=s, views=obs["views"]))
        return ok

    def query(self, impl, state, prev, action, args, hist, path, k):
        s = args[0]
        G = state["g"][s - 1]
        key = gkey(G)
        flags = prev["q"][s - 1]
        if action == "Validate":
            # validate(data, raise_exception=False) never raises and returns nothing (the other convention)
            self.ck.guard("ValidateMeaning", self.sig("ValidateMeaning", action, hist, convention="no_exception"),
                          impl.slots[s].validate, {"zz": None}, raise_exception=False)
            elems = I.fn(G["elems"])
            optional = set(elems) - set(G["req"])
            for d, ok in self.oracle.probes[key]:
                got = impl.accepts(s, I.data_of(d))
                self.n_probes += 1
                if got != ok:
                    # the signature names the class of the datum: it lacks an element that is not required / the
                    # grammar has a nested-object element (transport: both are read off the specification's state)
                    new = self.ck.violation(
                        "ValidateMeaning",
                        self.sig("ValidateMeaning", action, hist, expected=ok, val=flags["val"],
                                 optional_missing=bool(optional - set(d))),
                        self.detail(path, k, slot=s, data=d, spec_accepts=ok, impl_accepts=got,
                                    elems=G["elems"], req=G["req"]))
                    if new:
                        break
        elif action in ("ToJson", "Schema"):
            via = "to_json" if action == "ToJson" else "schema"
            props, req = impl.export(s, via)
            want_p, want_r = frozenset(I.fn(G["elems"])), frozenset(G["req"])
            good = True
            if props != want_p:
                good = False
                self.ck.violation("Export", self.sig("Export", action, hist, field="properties", via=via,
                                                     got=classify(want_p, props), val=flags["val"], sch=flags["sch"]),
                                  self.detail(path, k, slot=s, spec=want_p, impl=props))
            got_r = classify(want_r, req)
            if got_r != "equal" and not (got_r == "absent" and not want_r):
                good = False
                self.ck.violation("Export", self.sig("Export", action, hist, field="required", via=via, got=got_r,
                                                     val=flags["val"], sch=flags["sch"]),
                                  self.detail(path, k, slot=s, spec=want_r, impl=req))
            if good and action == "ToJson":
                # three-way agreement: the reference validator on to_json() gives the specification's verdicts
                pr = self.oracle.probes[key]
                sig = {"class": self.cls, "what": "tour_state", **self.history_class(hist)}
                self.ref.add(impl.to_json(s), [I.jsonable(I.data_of(d)) for d, _ in pr], [ok for _, ok in pr],
                             sig, self.detail(path, k, slot=s))
        elif action == "ToSimple":
            try:
                simple = impl.slots[s].to_simple_grammar()
            except Exception as ex:  # noqa: BLE001 - the conversion is total in the specification
                self.ck.violation("ConversionTotal",
                                  self.sig("ConversionTotal", action, hist, exception=type(ex).__name__),
                                  self.detail(path, k, slot=s, elems=G["elems"], exception=repr(ex)))
                return
            obs = {"elems": I.anames(simple.keys()), "req": I.anames(simple.required_names),
                   "dflt": {I.aname(a): I._DEFAULT_IDS.get(v, repr(v)) for a, v in simple.defaults.items()}}
            want = {"elems": frozenset(I.fn(G["elems"])), "req": frozenset(G["req"]), "dflt": I.fn(G["dflt"])}
            if obs != want:
                self.ck.violation("ConversionSame", self.sig("ConversionSame", action, hist),
                                  self.detail(path, k, slot=s, spec=want, impl=obs))
                return
            # element by element: required names lifted on the converted object (it is the harness's own)
            for n in list(simple.required_names):
                simple.required_names.remove(n)
            for n, kinds in sorted(self.oracle.must[key].items()):
                for kd in sorted(kinds):
                    try:
                        simple.validate({I.cname(n): I.kind_value(kd)})
                    except Exception:  # noqa: BLE001
                        self.ck.violation("ConversionSound",
                                          self.sig("ConversionSound", action, hist, type=sorted(I.fn(G["elems"])[n]), kind=kd),
                                          self.detail(path, k, slot=s, name=n, kind=kd,
                                                      converted_type=repr(simple[I.cname(n)])))
        elif action == "Repr":
            self.ck.guard("QueriesPure", self.sig("QueriesPure", action, hist), repr, impl.slots[s])

    def touch(self, impl, action, args, state):
        """The effect of a query that was already compared on another path: the lazily built view is really built
        (a datum the specification accepts goes through the whole validation, not only the required names)."""
        g = impl.slots[args[0]]
        try:
            if action == "Validate":
                good = next((d for d, ok in self.oracle.probes[gkey(state["g"][args[0] - 1])] if ok), {})
                g.validate(I.data_of(good), raise_exception=False)
            elif action == "Schema":
                g.schema  # noqa: B018
            elif action == "ToJson":
                g.to_json()
        except Exception:  # noqa: BLE001 - reported where the edge is compared
            pass

    def run_path(self, path, full_from=None):
        """Replay one path of the tour.  Returns the number of edges executed before a divergence."""
        gr = self.gr
        impl = I.Impl(self.cls, self.oracle.others, self.ck.work)
        hist = []
        self.filled = {}
        self.nested_update = False
        state = gr.states[gr.init[0]]
        for k, j in enumerate(path):
            src, dst, action, args = gr.edges[j]
            prev, state = gr.states[src], gr.states[dst]
            self.n_steps += 1
            is_query = action in QUERIES_JSON
            compared = False
            if is_query:
                if j not in self.heavy_done or (full_from is not None and k >= full_from):
                    self.query(impl, state, prev, action, args, hist, path, k)
                    self.heavy_done.add(j)
                    compared = True
                else:  # already compared on another path: only the effect of the call (lazily built views)
                    self.touch(impl, action, args, state)
            else:
                try:
                    impl.apply(action, args)
                except I.Rejected as ex:
                    self.ck.violation("Reject", self.sig("Reject", action, hist), self.detail(path, k, problem=str(ex)))
                    return k
                except Exception as ex:  # noqa: BLE001 - raised by gemseo on an operation the specification allows
                    import traceback

                    slot = "edited"
                    self.ck.violation("Exception", self.sig("Exception", action, hist, exception=type(ex).__name__,
                                                            slot=("copy" if args and args[0] == 2 else "original")),
                                      self.detail(path, k, exception=repr(ex), traceback=traceback.format_exc(limit=5)))
                    return k
            hist.append(action)
            if action == "UpdateFromSchema" and any("Obj" in t for t in I.fn(self.oracle.others[args[1] - 1]["elems"]).values()):
                self.nested_update = True
            if not self.compare_state(impl, state, action, args, hist, path, k):
                return k
            self.shape(action, args, compared)
            self.covered.add(j)
            if self.auto_validate and not is_query:
                # Validate is a stuttering step of the specification, enabled in every state; TLC's simulation
                # mode does not take stuttering steps, so the harness takes one after every edit (simple class)
                for s_, G in enumerate(state["g"], start=1):
                    if G["live"]:
                        self.query(impl, state, state, "Validate", (s_,), hist, path, k)
                        self.shape("Validate", (s_,), True)
        return len(path)

    def staleness_paths(self, paths, par):
        """fill a lazily built view -> edit -> query again: every edit edge that leaves a state in which a view
        of the edited grammar was requested is followed, on some path, by the same query (a transition tour alone
        covers the query edge of the target state once, possibly after another edit)."""
        gr = self.gr
        need = {}
        for j, (src, dst, action, args) in enumerate(gr.edges):
            if action in QUERIES_JSON or src not in par or action == "OtherFails":
                continue
            slot = 2 if action == "Copy" else args[0]
            flags = gr.states[src]["q"][(1 if action == "Copy" else slot) - 1]
            want = ({"Validate"} if flags["val"] else set()) | ({"Schema"} if flags["sch"] else set())
            if want:
                need[j] = (slot, want)
        for p in paths:
            for x, y in zip(p, p[1:]):
                if x in need and gr.edges[y][2] in need[x][1] and gr.edges[y][3][0] == need[x][0]:
                    need[x][1].discard(gr.edges[y][2])
        extra = []
        for j, (slot, want) in need.items():
            dst = gr.edges[j][1]
            qs = [k for k in gr.out.get(dst, ()) if gr.edges[k][2] in want and gr.edges[k][3][0] == slot]
            if qs:
                pre = gr.path_to(gr.edges[j][0], par) + [j]
                extra.append((pre + sorted(qs, key=lambda k: gr.edges[k][2], reverse=True), len(pre)))
        return extra

    def run(self, max_len):
        gr = self.gr
        paths = gr.tour(max_len)
        for p in paths:
            self.run_path(p)
        extra = self.staleness_paths(paths, gr.bfs_tree())
        for p, k0 in extra:
            self.run_path(p, full_from=k0)  # the queries after the edit are compared again
        self.n_staleness_paths = len(extra)
        # edges lost behind a divergence (known findings cut a path short): retry each by its shortest path
        par = gr.bfs_tree()
        missed = [j for j in range(len(gr.edges)) if j not in self.covered and gr.edges[j][0] in par]
        lost = 0
        for j in missed:
            if j in self.covered:
                continue
            p = gr.path_to(gr.edges[j][0], par) + [j]
            if self.run_path(p) < len(p):
                lost += 1
        return len(paths) + len(extra), lost


def _show(args):
    def f(x):
        if isinstance(x, (set, frozenset)):
            return "{" + ",".join(sorted(map(str, x))) + "}"
        return str(x)
    return "(" + ",".join(f(a) for a in args) + ")"


def live_keys(gr):
    return {gkey(G) for st in gr.states.values() for G in st["g"] if G["live"]}


def tour_graph(ck: Check, cls, name, ops, kw, require):
    """TLC: model-check the configuration and dump its labelled state graph (own sub-directory: several at a time)."""
    tag = f"{cls}-{name}"
    r = ck.tlc("Grammar", cfg(cls, ops, **kw), workers=1, timeout=900, dump=True, tag=tag, count=False)
    for a in require:  # vacuity: every action of the alphabet is taken (second number = transitions taken)
        if r.coverage.get(a, [0, 0])[1] == 0:
            raise MachineryError(f"vacuity: action {a} of Grammar never taken in {cls}/{name}")
    dot = ck.work / tag / "Grammar.dot"
    gr = Graph(dot)
    dot.unlink()
    if len(gr.init) != 1:
        raise MachineryError("one initial state expected")
    gr.tlc_counts = (r.distinct, r.generated)
    return gr


def tour(ck: Check, cls, name, gr, oracle, ref, req_ops=REQ_OPS):
    """Replay the transition tour of a dumped graph on the real grammars."""
    t0 = time.time()
    t = Tour(ck, cls, name, gr, oracle, ref)
    n_paths, lost = t.run(max_len=40)
    ck.traces += n_paths
    tag = f"{cls}/{name}"
    # vacuity of the staleness paths: the shapes the configuration is there for were executed and compared
    want = []
    if name == "required":
        want = [f"Validate;EditRequired({op});Validate" for op in req_ops]
    elif name == "copy-clean":
        want = ["Validate;Copy;Validate(copy)", "Pickle;Copy;Validate(copy)"] + \
               [f"Copy;EditRequired({op});Validate" for op in req_ops]
    missing = [w for w in want if not t.shapes.get(w)]
    if missing and not ck.violations:
        raise MachineryError(f"vacuity: {tag}: path shapes never executed: {missing}")
    if t.shapes:
        ck.extra.setdefault("path_shapes", {})[tag] = dict(sorted(t.shapes.items()))
    ck.extra.setdefault("tours", {})[tag] = {
        "states": len(gr.states), "edges": len(gr.edges), "paths": n_paths, "steps_replayed": t.n_steps,
        "edges_covered": len(t.covered), "edges_behind_known_findings": lost, "probe_validations": t.n_probes,
        "staleness_paths": t.n_staleness_paths, "grammar_definitions": len(live_keys(gr)), "replay_wall_s": round(time.time() - t0, 1)}
    if gr.edges:
        e = gr.edges[len(gr.edges) // 2]
        ck.sample({"config": tag, "edge": f"{e[2]}{_show(e[3])}", "to_state": gr.states[e[1]]["g"]})
    return t


_SIM_STEP = re.compile(r"\\\* <(\w+)(?:\((.*?)\))? line \d+[^\n]*>\nSTATE_\d+ ==\s*\n((?:.*\n)*?)(?=\n\n|\Z)")


class ChainGraph:
    """Behaviours written by `tlc -simulate file=...` with the interface of core.Graph (one chain per file)."""

    def __init__(self, files):
        from ..tlaval import parse_state, parse_value

        self.states, self.edges, self.init, self.chains = {}, [], [], []
        for fi, f in enumerate(files):
            steps = _SIM_STEP.findall(f.read_text() + "\n\n")
            if not steps or steps[0][0] != "Init":
                raise MachineryError(f"cannot parse simulated behaviour {f}")
            chain = []
            for k, (name, args, body) in enumerate(steps):
                sid = f"{fi}:{k}"
                self.states[sid] = parse_state(body)
                if k == 0:
                    self.init.append(sid)
                else:
                    self.edges.append((f"{fi}:{k - 1}", sid, name, parse_value("<<" + args + ">>") if args else ()))
                    chain.append(len(self.edges) - 1)
            self.chains.append(chain)


def simulate_graph(ck: Check, cls, *, nslots, num, depth):
    """Deep random histories generated by TLC in simulation mode."""
    js = cls == "json"
    if cls == "pydantic":
        ops = PYDANTIC_EDITS + ["EditRequired", "RejectRestrict", "RejectDelete", "Validate", "Repr"]
    else:
        ops = EDITS + REJECTS + (QUERIES_JSON if js else QUERIES_SIMPLE + ["RejectMerge"])
    if nslots == 2:
        ops = ops + ["Copy"]
    simdir = ck.work / f"sim-{cls}-{nslots}"
    simdir.mkdir()
    ck.tlc("Grammar", cfg(cls, ops, atoms=["Int", "Num", "Str", "Arr", "Bool"], dkinds=("iarr", "float", "str"),
                          nslots=nslots, max_elems=3, max_atoms=3, depth=depth),
           workers=1, timeout=600, simulate=f"num={num},file={simdir}/b", depth=2 * depth, seed=ck.seed,
           count=False, coverage=False, tag=f"sim-{cls}-{nslots}-cfg")
    files = sorted(simdir.glob("b_*"), key=lambda p: [int(x) for x in re.findall(r"\d+", p.name)])
    return ChainGraph(files)


def simulate(ck: Check, cls, nslots, gr, oracle, ref):
    """Replay the simulated behaviours step by step."""
    t = Tour(ck, cls, f"simulate{nslots}", gr, oracle, ref)
    t.auto_validate = cls == "simple"
    done = 0
    for chain in gr.chains:
        done += t.run_path(chain)
    ck.traces += len(gr.chains)
    ck.extra.setdefault("simulated", {})[f"{cls}/slots={nslots}"] = {
        "behaviours": len(gr.chains), "steps": sum(map(len, gr.chains)), "steps_replayed_before_divergence": done,
        "probe_validations": t.n_probes}
    if gr.chains:
        ck.sample({"config": f"{cls}/simulate", "history": [t.label(j) for j in gr.chains[0][:12]]})


PARALLEL = 4   # TLC runs (one worker each) / replay processes at a time
_JOBS = []     # replay jobs, inherited by the forked replay processes


def _replay_job(i):
    """One replay (a tour or a set of simulated behaviours) in a forked process: returns what it added to the check."""
    ck, kind, cls, name, gr, oracle, arg = _JOBS[i]
    ck.violations, ck.known_hits, ck.traces, ck.extra, ck.samples = [], {}, 0, {}, []
    ref = Reference(ck)
    complete = True
    if kind == "tour":
        t = tour(ck, cls, name, gr, oracle, ref, arg)
        complete = len(t.covered) == len(t.gr.edges)
    else:
        simulate(ck, cls, arg, gr, oracle, ref)
    return {"violations": ck.violations, "known_hits": ck.known_hits, "traces": ck.traces, "extra": ck.extra,
            "samples": ck.samples, "ref_jobs": ref.jobs, "complete": complete}


def run(ck: Check):
    import multiprocessing
    from concurrent.futures import ThreadPoolExecutor

    import logging

    logging.disable(logging.CRITICAL)  # gemseo logs every rejected datum
    rng = random.Random(ck.seed)  # noqa: F841 - reserved for sampled extensions
    ref = Reference(ck)
    classes = ("json", "simple", "pydantic")
    # 1. TLC: graphs of the focused configurations, simulated deep histories (independent runs, PARALLEL at a time)
    todo = []
    for cls in classes:
        for name, ops, kw, require in configs(ck, cls):
            todo.append(("tour", cls, name, kw.get("req_ops", REQ_OPS),
                         lambda cls=cls, name=name, ops=ops, kw=kw, require=require: tour_graph(ck, cls, name, ops, kw, require)))
        if ck.thorough or cls != "pydantic":
            num, depth = (300, 30) if ck.thorough else (30, 20)
            todo.append(("sim", cls, "simulate1", 1,
                         lambda cls=cls, num=num, depth=depth: simulate_graph(ck, cls, nslots=1, num=num, depth=depth)))
            if ck.thorough:
                todo.append(("sim", cls, "simulate2", 2, lambda cls=cls: simulate_graph(ck, cls, nslots=2, num=100, depth=12)))
    with ThreadPoolExecutor(PARALLEL) as pool:
        graphs = list(pool.map(lambda job: job[4](), todo))
    for gr in graphs:
        d, g = getattr(gr, "tlc_counts", (0, 0))
        ck.states += d
        ck.transitions += g
    # 2. TLC: probe data and verdicts for every grammar definition met (one oracle run per class)
    oracles = {cls: Oracle(ck, cls) for cls in classes}

    def ensure(cls):
        keys = set()
        for job, gr in zip(todo, graphs):
            if job[1] == cls:
                keys |= live_keys(gr)
        oracles[cls].ensure(sorted(keys))

    with ThreadPoolExecutor(PARALLEL) as pool:
        list(pool.map(ensure, classes))
    # 3. replay on the real grammars (independent replays, PARALLEL forked processes; merged in a fixed order)
    for cls in classes:
        I.grammar_class(cls)
    _JOBS[:] = [(ck, kind, cls, name, gr, oracles[cls], arg) for (kind, cls, name, arg, _), gr in zip(todo, graphs)]
    order = sorted(range(len(_JOBS)), key=lambda i: -len(_JOBS[i][4].edges))
    with multiprocessing.get_context("fork").Pool(PARALLEL) as pool:
        results = dict(zip(order, pool.map(_replay_job, order, chunksize=1)))
    _JOBS[:] = []
    complete = True
    for i in range(len(todo)):
        res = results[i]
        ck.violations += res["violations"]
        for k, v in res["known_hits"].items():
            ck.known_hits[k] = ck.known_hits.get(k, 0) + v
        ck.traces += res["traces"]
        for k, v in res["extra"].items():
            ck.extra.setdefault(k, {}).update(v)
        for smp in res["samples"]:
            ck.sample(smp)
        for k, v in res["ref_jobs"].items():
            ref.jobs.setdefault(k, v)
        complete = complete and res["complete"]
    ck.extra["reference_verdicts"] = ref.flush()
    from . import c15_more

    c15_more.run(ck, ref)
    ck.extra["reference_verdicts"] += ref.flush()
    ck.exhaustive = complete
    ck.assumptions += [
        "value kinds of Grammar.tla are represented by one concrete python value each (c15_impl.kind_value); "
        "integral floats are left out (their JSON 'integer' status depends on the schema draft)",
        "merge of an unconstrained array type with an array-of-numbers type and merge with an untyped element are "
        "outside the modelled merge algebra (MergeOK)",
        "renaming onto an existing element is not specified and not exercised",
        "an update that raises (invalid JSON schema, value without JSON type) must raise some exception and leave the "
        "grammar unchanged (DESIGN 2.4); `required_names |= S` with a name that is not an element is half applied in "
        "set-iteration order: not specified and not exercised (add of such a name is: RejectRequire)",
    ]


if __name__ == "__main__":
    main("C15", run)
