"""C10 - function algebra and transformations evaluate and differentiate exactly.

specs/FuncAlgebra.tla enumerates expression trees over gemseo's function algebra together with lattice
points and computes, in exact dyadic arithmetic, the value and the Jacobian of every tree and of every
proper subtree (the observations that evaluating the tree must leave unchanged).  TLC checks the module's
own properties (shapes, five-point-stencil exactness of the Jacobians of polynomial trees, quotient rule
vs product rule, Taylor contact, aggregation relations incl. AggVectorScale (a vector scale, one factor per selected
constraint, is the aggregation of the row-scaled constraints), NoOperandMutation) and prints every instance.

Binding (spec -> code): every printed instance is rebuilt with real gemseo objects (harness/checks/
c10_build.py only *transports* the tree: operator name -> gemseo call) and `evaluate` / `jac` are compared
with the specification's numbers with ==.  A disagreement is attributed to the innermost subtree that
disagrees on its own (or that modifies its operands), whose operator and operand kinds form the signature.
"""
from __future__ import annotations

import concurrent.futures as cf
import json
import multiprocessing as mp
import os
import time
from pathlib import Path

from ..core import Check, MachineryError, TLCResult, main, run_tlc

INVS = ["ShapeOK", "ObsShapeOK", "StencilExact", "QuotientConsistent", "TaylorContact", "AggPosVsSq",
        "AggMaxIsMax", "AggVectorScale", "Normalised"]


def cfg(*, full, maxd, mod, seed, nparts, part, wide, stencil, mod3=None):
    s = (f"CONSTANTS FullDepth = {full}\n MaxDepth = {maxd}\n SampleMod = {mod}\n SampleModDeep = {mod3 or mod}\n"
         f" Seed = {seed}\n"
         f" NParts = {nparts}\n Part = {part}\n Wide = {'TRUE' if wide else 'FALSE'}\n"
         f" CheckStencil = {'TRUE' if stencil else 'FALSE'}\nSPECIFICATION Spec\n")
    for i in INVS:
        s += f"INVARIANT {i}\n"
    s += "PROPERTY NoOperandMutation\nPROPERTY RebuildSame\n"
    return s


def _part(args):
    """One TLC run (its own work directory) + replay of its instances on gemseo.  Runs in a worker process."""
    work, cfg_text, timeout, replay = args
    from . import c10_build

    work = Path(work)
    t0 = time.time()
    os.environ.setdefault("VERIF_TLC_HEAP", "3g")  # several JVMs run side by side; each needs little memory
    for attempt in (1, 2):
        r = run_tlc("FuncAlgebra", cfg_text, work, workers=1, timeout=timeout, coverage=False, deadlock=False)
        if r.rc == 0 or r.violated or r.error or attempt == 2:
            break
        # the JVM died without a TLC diagnostic (killed from outside / out of memory): try once more
    out = {"distinct": r.distinct, "generated": r.generated, "depth": r.depth, "wall_tlc": round(time.time() - t0, 2),
           "error": None, "violated": r.violated, "viol": [], "n_cases": 0, "n_rejects": 0, "n_trees": 0,
           "samples": [], "ops": {}, "n_diag": 0, "vec": {}}
    if r.error or (r.rc != 0 and not r.violated):
        out["error"] = r.error or r.out[-2000:]
        return out
    if r.violated:
        out["error"] = f"specification violates {r.violated}:\n" + r.out[-3000:]
        return out
    if not replay:
        return out
    t1 = time.time()
    vals = r.printed()
    out["wall_parse"] = round(time.time() - t1, 2)
    t1 = time.time()
    rep = c10_build.Replayer([v for v in vals if isinstance(v, tuple) and v and v[0] == "LEAVES"][0][1])
    trees = set()
    for v in vals:
        if not (isinstance(v, tuple) and v):
            continue
        if v[0] == "CASE":
            _, tree, pt, ev, ej, obs = v
            out["n_cases"] += 1
            trees.add(tree)
            out["ops"][tree[0]] = out["ops"].get(tree[0], 0) + 1
            if tree[0] in ("aggmax", "aggsq", "aggpos") and tree[2][0] == 0:
                # vector scale: one factor per selected constraint; counted by whether the number of selected
                # constraints equals the number of inputs (where a mis-broadcast is silent) or not
                m = len(tree[2]) - 2 - tree[2][1]
                key = f"{tree[0]}:{'one' if m == 1 else 'm_eq_n' if m == len(pt) else 'm_ne_n'}"
                out["vec"][key] = out["vec"].get(key, 0) + 1
            if len(out["samples"]) < 2 and len(tree[1]) and out["n_cases"] % 97 == 0:
                out["samples"].append({"tree": c10_build.show(tree), "point": list(pt),
                                       "spec_value": c10_build.vec(ev).tolist(),
                                       "spec_jacobian": c10_build.mat(ej, len(pt)).tolist()})
            out["viol"] += rep.check_case(tree, pt, ev, ej, obs)
        elif v[0] == "REJECT":
            out["n_rejects"] += 1
            out["viol"] += rep.check_reject(v[1])
    # many instances share a signature (same operator / operand kinds at other points): ship each signature
    # once with its number of instances and the detail of the first one
    grouped: dict[str, list] = {}
    for clause, sig, detail in out["viol"]:
        key = json.dumps(sig, sort_keys=True, default=str)
        if key in grouped:
            grouped[key][3] += 1
        else:
            grouped[key] = [clause, sig, detail, 1]
    out["viol"] = list(grouped.values())
    out["n_trees"] = len(trees)
    out["n_diag"] = rep.n_diag
    out["wall_replay"] = round(time.time() - t1, 2)
    return out


def run(ck: Check):
    if ck.thorough:
        # every tree of depth <= 1, every operator over half of them (depth 2) and over a sample of those
        # (depth 3); then the wide parameter variants (more constants, frozen inputs, matrices, a 4x4x4 lattice
        # for 3 inputs) to depth 1 + sample
        plans = [(dict(full=1, maxd=3, mod=2, mod3=401, wide=False), 24), (dict(full=1, maxd=2, mod=11, wide=True), 4)]
        nproc, timeout = 8, 1750
    else:
        plans = [(dict(full=1, maxd=2, mod=37, wide=False), 6)]
        nproc, timeout = 6, 170
    # ---- 1. the specification's own properties incl. the finite-difference self-check of its
    #         differentiation rules (every tree of depth <= 1, wide parameter variants in thorough)
    #         - three TLC runs in the same pool as the enumeration parts (no replay)
    n_self = 3
    jobs = [(str(ck.work / f"selfcheck-part{p}"),
             cfg(full=1, maxd=1, mod=1, seed=ck.seed, nparts=n_self, part=p, wide=ck.thorough, stencil=True), 900, False)
            for p in range(n_self)]
    # ---- 2. enumeration + replay, split over parallel TLC runs / worker processes
    for k, (plan, nparts) in enumerate(plans):
        for p in range(nparts):
            c = cfg(seed=ck.seed, nparts=nparts, part=p, stencil=False, **plan)
            jobs.append((str(ck.work / f"plan{k}-part{p}"), c, timeout, True))
    nproc = int(os.environ.get("VERIF_C10_NPROC") or nproc)  # fewer side-by-side runs on a shared machine
    ctx = mp.get_context("fork")
    with cf.ProcessPoolExecutor(max_workers=nproc, mp_context=ctx) as ex:
        results = list(ex.map(_part, jobs))
    n_cases = n_rej = n_trees = n_diag = n_stencil = 0
    ops: dict[str, int] = {}
    vec: dict[str, int] = {}
    for p, o in enumerate(results):
        ck.tlc_runs.append({"module": "FuncAlgebra", "run": Path(jobs[p][0]).name, "distinct": o["distinct"],
                            "generated": o["generated"], "depth": o["depth"], "wall_s": o["wall_tlc"],
                            "replay_s": o.get("wall_replay")})
        if o["error"]:
            raise MachineryError(f"TLC failed on FuncAlgebra {Path(jobs[p][0]).name}: {o['error']}")
        ck.states += o["distinct"]
        ck.transitions += o["generated"]
        if p < n_self:
            # operands -> done -> rebuilt: three states per instance (Reject instances, two, are in part 0)
            n_stencil += (o["distinct"] - (48 if p == 0 else 0)) // 3
            continue
        if o["distinct"] < 3 * o["n_cases"]:
            raise MachineryError("vacuity: fewer than three states (operands, done, rebuilt) per instance")
        n_cases += o["n_cases"]
        n_rej += o["n_rejects"]
        n_trees += o["n_trees"]
        n_diag += o["n_diag"]
        for k, v in o["ops"].items():
            ops[k] = ops.get(k, 0) + v
        for k, v in o["vec"].items():
            vec[k] = vec.get(k, 0) + v
        for s in o["samples"]:
            ck.sample(s)
        for clause, sig, detail, count in o["viol"]:
            for _ in range(count):
                ck.violation(clause, sig, dict(detail, instances_with_this_signature_in_part=count))
    if n_cases == 0 or n_rej == 0:
        raise MachineryError("vacuity: no CASE / REJECT instance printed by TLC")
    from . import c10_build
    missing = sorted(set(c10_build.ALL_OPS) - set(ops))
    if missing:
        raise MachineryError(f"vacuity: operators never at the root of a replayed instance: {missing}")
    missing = sorted({f"{o}:{c}" for o in ("aggmax", "aggsq", "aggpos") for c in ("one", "m_eq_n", "m_ne_n")} - set(vec))
    if missing:
        raise MachineryError(f"vacuity: aggregations with a vector scale never replayed: {missing}")
    ck.traces = n_cases + n_rej
    ck.extra.update({"stencil_checked_instances": n_stencil, "trees": n_trees, "instances": n_cases, "reject_instances": n_rej,
                     "instances_per_root_operator": dict(sorted(ops.items())), "diagnosed_instances": n_diag,
                     "vector_scale_aggregation_instances": dict(sorted(vec.items())),
                     "plans": [dict(pl, nparts=n) for pl, n in plans]})
    ck.exhaustive = True  # every instance of the bounded model printed by TLC is replayed
    ck.assumptions += [
        "exact-arithmetic slice: integer lattice points, dyadic coefficients, divisors +-2^j, so that == is a legitimate oracle",
        "KS / IKS / lower-/upper-bound KS aggregations (exponentials) are not modelled and not claimed",
        "ill-typed trees (array operand of another dimension than the function, operands with different input "
        "dimensions) are not generated; function-function operations mixing expects_normalized_inputs are Reject instances",
        "aggregate_max is compared only where the maximum of the scaled constraints is attained once (differentiable points)",
        "aggregations: `scale` is a number (1, 2) or a vector of positive integers with one factor per SELECTED constraint "
        "(gemseo applies it after `indices`); negative factors and vectors of another length are not enumerated",
        "convex linearisation: gemseo's own definition (reciprocal in the step x - xhat), points with a step +-2^j",
        "second-order Taylor polynomial: symmetric Hessian approximations only",
        "functions with a sparse Jacobian (MDOLinearFunction on scipy CSR coefficients: leaves Lc, Mc) are enumerated only "
        "under MDOLinearFunction's own methods (negation, offset, restrict, normalize) and number operands; the generic "
        "operator makers on sparse Jacobians are not claimed (Mc*M raises NotImplementedError, Mc*array returns an object array)",
        "restrictions freeze one input, or two inputs of a 3-input function given in increasing and in decreasing index "
        "order; negative indices are not documented by the API and not enumerated",
    ]


if __name__ == "__main__":
    main("C10", run)
