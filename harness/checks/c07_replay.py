"""C07 replay: instances and request histories printed by TLC (CoupledDeriv.tla) -> real gemseo MDAs.

Only transport: build harness disciplines with the constant integer Jacobians of the instance (in the
representation chosen by the specification: float64 / int64 arrays, CSR matrices, matrix-free
operators, one per block; a discipline in residual form when the instance has one), drive
``MDA.linearize`` / ``JacobianAssembly.total_derivatives`` through the request history, return the
blocks (or the exception) for comparison with the blocks computed by the specification.
Runs in worker processes (pure function of its arguments).
"""
from __future__ import annotations

import logging
import traceback
import warnings

import numpy as np

TOL = 1e-9


def _quiet():
    logging.disable(logging.CRITICAL)
    warnings.filterwarnings("ignore")


_CLS = {}


def represent(matrix, rep):
    """The integer matrix of the specification in representation ``rep`` (RepSeq of CoupledDeriv.tla)."""
    if rep == "dense_f64":
        return np.array(matrix, dtype=np.float64)
    if rep == "dense_i64":
        return np.array(matrix, dtype=np.int64)
    if rep in ("sparse_f64", "sparse_i64"):
        from scipy.sparse import csr_array

        return csr_array(np.array(matrix, dtype=np.float64 if rep == "sparse_f64" else np.int64))
    if rep == "operator":
        return _operator(np.array(matrix, dtype=np.float64))
    raise ValueError(rep)


def lin_class():
    """The harness discipline: out = sum_in J[out][in] . in, constant Jacobians.

    With ``res = {residual: state}`` the discipline is in residual form and solves its state equation:
    the state it returns is J[state][.] . inputs (the specification gives the Jacobian of the solved
    state), its other outputs (the residual among them) are computed with that state."""
    if "Lin" in _CLS:
        return _CLS["Lin"]
    from gemseo.core.discipline import Discipline

    class Lin(Discipline):
        def __init__(self, name, ins, outs, mats, sizes, rep="dense_f64", mixed=None, res=None):
            super().__init__(name)
            self.h_ins = list(ins)
            self.h_outs = list(outs)
            self.h_mats = {o: {i: np.array(mats[o][i], dtype=float) for i in ins} for o in outs}
            self.h_rep = {o: {i: (mixed[o][i] if rep == "mixed" else rep) for i in ins} for o in outs}
            self.h_res = dict(res or {})
            self.input_grammar.update_from_names(self.h_ins)
            self.output_grammar.update_from_names(self.h_outs)
            self.default_input_data = {n: np.zeros(sizes[n]) for n in self.h_ins}
            if self.h_res:
                self.io.residual_to_state_variable = dict(self.h_res)
                self.io.state_equations_are_solved = True

        def _run(self, input_data):
            data = dict(input_data)
            out = {}
            for s in self.h_res.values():
                out[s] = data[s] = sum(self.h_mats[s][i] @ input_data[i] for i in self.h_ins)
            for o in self.h_outs:
                if o not in out:
                    out[o] = sum(self.h_mats[o][i] @ data[i] for i in self.h_ins)
            return out

        def _compute_jacobian(self, input_names=(), output_names=()):
            # only what is asked for (gemseo trims the rest anyway)
            ins = list(input_names) or self.h_ins
            outs = list(output_names) or self.h_outs
            self.jac = {o: {i: represent(self.h_mats[o][i], self.h_rep[o][i]) for i in ins if i in self.h_ins}
                        for o in outs if o in self.h_outs}

    _CLS["Lin"] = Lin
    return Lin


def _operator(matrix):
    """The constant Jacobian as a matrix-free gemseo JacobianOperator (as LinearDiscipline does)."""
    from gemseo.core.derivatives.jacobian_operator import JacobianOperator

    op = JacobianOperator(shape=matrix.shape, dtype=matrix.dtype)
    op._matvec = lambda x, m=matrix: m @ x
    op._rmatvec = lambda x, m=matrix: m.T @ x
    return op


def build_disciplines(inst, rep="dense_f64"):
    Lin = lin_class()
    out = []
    for k, d in enumerate(inst["S"]):
        ins, outs = sorted(d["ins"]), sorted(d["outs"])
        res = {r: s for r, s in inst.get("res", ()) if r in d["outs"]}
        out.append(Lin(f"D{k + 1}", ins, outs, inst["J"], inst["size"], rep, inst.get("mixed"), res))
    return out


def make_mda(inst, conf):
    from gemseo.mda.factory import MDAFactory

    discs = build_disciplines(inst, conf.get("jac", "dense_f64"))
    kw = dict(tolerance=1e-13, max_mda_iter=conf.get("max_iter", 40), linear_solver_tolerance=1e-13,
              use_lu_fact=bool(conf.get("lu", False)), linear_solver=conf.get("solver", "DEFAULT"))
    cls = conf["cls"]
    if cls == "MDAChain":
        if conf.get("inner"):
            kw["inner_mda_name"] = conf["inner"]
        if conf.get("chain_linearize"):
            kw["chain_linearize"] = True
    mda = MDAFactory().create(cls, discs, **kw)
    mda.matrix_type = conf.get("matrix_type", "matrix")
    return mda


def dense(m):
    if hasattr(m, "toarray"):
        return np.asarray(m.toarray(), dtype=float)
    if hasattr(m, "todense"):
        return np.asarray(m.todense(), dtype=float)
    if not isinstance(m, np.ndarray) and hasattr(m, "matvec") and hasattr(m, "shape"):
        # a (composed) JacobianOperator: its matrix is its action on the identity
        return np.asarray(m.dot(np.eye(m.shape[1])), dtype=float)
    return np.asarray(m, dtype=float)


def input_point(inst):
    x = {}
    for d in inst["S"]:
        for n in d["ins"]:
            if not any(n in e["outs"] for e in inst["S"]):
                x[n] = np.arange(1.0, inst["size"][n] + 1.0)
    return x


def run_history(inst, hist, conf):
    """Returns one entry per request of the history: {"blocks": {f: {x: list}}} or {"exc": ...}."""
    _quiet()
    res = []
    try:
        mda = make_mda(inst, conf)
    except Exception as ex:  # noqa: BLE001
        return [{"exc": type(ex).__name__, "msg": str(ex)[:300], "tb": traceback.format_exc(limit=4), "where": "create"}]
    x = input_point(inst)
    api = conf["api"]
    if api == "assembly":
        try:
            mda.execute(x)
        except Exception as ex:  # noqa: BLE001
            return [{"exc": type(ex).__name__, "msg": str(ex)[:300], "tb": traceback.format_exc(limit=4), "where": "execute"}]
        # as BaseMDA._compute_jacobian calls the assembly: the residuals and the states of the
        # residual-form disciplines are not couplings, they are given by residual_variables
        resvars = {r: s for r, s in inst.get("res", ())}
        cpl = sorted(set(mda.coupling_structure.all_couplings) - set(resvars) - set(resvars.values()))
    for ri, ro, mode in hist:
        # the order of the names in a request is free: sorted or reversed
        ri, ro = sorted(ri, reverse=bool(conf.get("rev"))), sorted(ro, reverse=bool(conf.get("rev")))
        try:
            if api == "assembly":
                j = mda.assembly.total_derivatives(
                    mda.io.data, ro, ri, cpl, linear_solver=conf.get("solver", "DEFAULT"), mode=mode,
                    matrix_type=conf.get("matrix_type", "matrix"), use_lu_fact=bool(conf.get("lu", False)),
                    residual_variables=resvars, rtol=1e-13)
            else:
                mda.linearization_mode = mode
                mda.add_differentiated_inputs(ri)
                mda.add_differentiated_outputs(ro)
                j = mda.linearize(x)
            blocks = {}
            for f in ro:
                blocks[f] = {}
                for v in ri:
                    try:
                        blocks[f][v] = dense(j[f][v]).tolist()
                    except KeyError:
                        blocks[f][v] = None
            r = {"blocks": blocks}
            if api != "assembly":
                r["resid"] = float(getattr(mda, "normed_residual", 0.0))
            res.append(r)
        except Exception as ex:  # noqa: BLE001
            res.append({"exc": type(ex).__name__, "msg": str(ex)[:300], "tb": traceback.format_exc(limit=5),
                        "where": "linearize"})
            if api != "assembly":
                break  # the MDA object may be left inconsistent
    return res


def compare_blocks(expected, got, ri, ro):
    """expected: spec result {"d": denominator, "b": {f: {x: numerator block}}}; got: {f: {x: list|None}}
    -> list of bad (f, x, why)."""
    bad = []
    den = float(expected["d"])
    for f in sorted(ro):
        for v in sorted(ri):
            e = np.array(expected["b"][f][v], dtype=float) / den
            g = got.get(f, {}).get(v)
            if g is None:
                bad.append((f, v, "missing"))
                continue
            g = np.array(g, dtype=float)
            if g.shape != e.shape:
                bad.append((f, v, f"shape {g.shape} != {e.shape}"))
            elif not np.all(np.isfinite(g)) or np.abs(g - e).max() > TOL:
                bad.append((f, v, "value"))
    return bad


def same_blocks(a, b, ri, ro):
    """Two results of the specification are equal on the blocks (ro, ri), as rationals (integers only)."""
    for f in ro:
        for v in ri:
            na, nb = a["b"][f][v], b["b"][f][v]
            if len(na) != len(nb) or any(len(ra) != len(rb) for ra, rb in zip(na, nb)):
                return False
            if any(x * b["d"] != y * a["d"] for ra, rb in zip(na, nb) for x, y in zip(ra, rb)):
                return False
    return True


def job(args):
    inst, hist, conf = args
    return run_history(inst, hist, conf)
