"""Stand-alone driver of the growth module G03 (not a listed property)."""
from ..core import main
from ..growth.g03_process_grammar import run

if __name__ == "__main__":
    main("G03", run)
