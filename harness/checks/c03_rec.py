"""C03 recorder: runs real gemseo drivers and logs the events DriverTrace.tla validates.

Observation points (public API only):
  * OrigCall  - from inside the wrapped user callables (value and Jacobian of every function),
  * Store     - a store listener registered on the database BEFORE the driver registers anything,
  * NewIter   - a new-iteration listener registered before the driver's own,
  * counter / len(database) snapshots in every event,
  * after execute(): the returned result, its message class, the listeners left on the database
    (Database.clear_listeners() returns them; they are put back).
Points are interned to small integers (0 = a vector containing NaN).  Python does not judge anything
here: it only transports what happened to TLC.
"""
from __future__ import annotations

import math
import signal

import numpy as np
from numpy import array

CAUSES = (
    ("Maximum number of iterations reached", "MaxIter"),
    ("Function value or gradient or constraint is NaN", "FunctionIsNan"),
    ("Design variables are NaN", "DesvarIsNan"),
    ("Successive iterates of the design variables", "Xtol"),
    ("Successive iterates of the objective function", "Ftol"),
    ("Maximum time reached", "MaxTime"),
    ("The KKT residual norm", "Kkt"),
)
GEMSEO_STOP = "GEMSEO stopped the driver."


class Boom(ValueError):
    """The exception raised by the 'raising' user functions (a ValueError: a DOE skips the sample)."""


class Runaway(BaseException):
    """Raised from the observation points when one execution has produced far more events than any
    budget of the plan allows: the run is aborted and reported (it would not stop by itself)."""


MAX_EVENTS = 4000
MAX_SECONDS = 8.0


class Rec:
    def __init__(self):
        self.start = 0
        self.fd = False   # Jacobians by finite differences: the probe calls are collapsed (see on_store)
        self.events = []
        self.pids = {}
        self.coords = []
        self.pending = []  # indices of orig events not yet followed by a store
        self.names_at = {}
        self.problem = None
        self.fnames = []

    # -- points
    def pid(self, x):
        v = np.asarray(x).real.ravel()
        if np.isnan(v).any():
            return 0
        k = self._key(v)
        if k not in self.pids:
            self.pids[k] = len(self.pids) + 1
            self.coords.append(tuple(float(t) for t in v))
        return self.pids[k]

    @staticmethod
    def _key(v):
        # the database hashes the bytes of the array: -0.0 and 0.0 are two keys
        return tuple((float(t), math.copysign(1.0, float(t))) for t in v)

    def pid_near(self, x, tol=1e-9):
        """pid of a generated sample: the recorded point it coincides with up to the round-off of a
        normalisation round trip, else a new id."""
        v = np.asarray(x).real.ravel()
        if np.isnan(v).any():
            return 0
        k = self._key(v)
        if k in self.pids:
            return self.pids[k]
        k = tuple(float(t) for t in v)
        for i, c in enumerate(self.coords):
            if len(c) == len(k) and all(abs(a - b) <= tol * (1.0 + abs(a)) for a, b in zip(c, k)):
                return i + 1
        return self.pid(x)

    # -- snapshots
    def snap(self):
        if len(self.events) - self.start > MAX_EVENTS:
            raise Runaway
        p = self.problem
        return {"cur": int(p.evaluation_counter.current), "len": len(p.database)}

    # -- user callables
    def wrap(self, fn, kind, body):
        rec = self

        def wrapped(x):
            p = rec.pid(x)
            if not rec.fd:
                rec.pending = []  # one original call per request
            try:
                y = body(np.asarray(x))
            except BaseException:
                rec.events.append(dict(ev="orig", fn=fn, kind=kind, p=p, a=p, out="raise", **rec.snap()))
                rec.pending.append(len(rec.events) - 1)
                raise
            out = "nan" if np.isnan(np.asarray(y, dtype=complex)).any() else "ok"
            rec.events.append(dict(ev="orig", fn=fn, kind=kind, p=p, a=p, out=out, **rec.snap()))
            rec.pending.append(len(rec.events) - 1)
            return y

        return wrapped

    # -- database listeners
    def names(self, x):
        db = self.problem.database
        vals = db.get(db.get_hashable_ndarray(np.asarray(x))) or {}
        out = []
        for f in self.fnames:
            if f in vals:
                out.append([f, "val"])
            if db.get_gradient_name(f) in vals:
                out.append([f, "jac"])
        return out

    def on_store(self, x):
        p = self.pid(x)
        names = self.names(x)
        old = self.names_at.get(p, [])
        extra = names == old and bool(names)
        new = [n for n in names if n not in old]
        self.names_at[p] = names
        if self.fd and self.pending and new and new[0][1] == "jac":
            # the gradient approximator called the original function at probe points (excepted by the
            # property) and nothing else was logged meanwhile: one "Jacobian computed at p" event instead
            first = self.events[self.pending[0]]
            del self.events[self.pending[0]:]
            self.events.append(dict(ev="orig", fn=new[0][0], kind="jac", p=p, a=p, out="ok", fd=True,
                                    cur=first["cur"], len=first["len"]))
            self.pending = []
        if not extra:
            # the request that computed this value: its orig events get the database key
            for i in self.pending:
                self.events[i]["p"] = p
            self.pending = []
        self.events.append(dict(ev="store", p=p, names=names, extra=extra, **self.snap()))

    def on_new_iter(self, x):
        self.events.append(dict(ev="newiter", p=self.pid(x), **self.snap()))

    def attach(self, problem, fnames):
        if self.problem is not None:
            # the driver instance goes on with another, fresh problem
            self.events.append(dict(ev="switch"))
            self.names_at = {}
            self.pending = []
        self.problem = problem
        self.fnames = list(fnames)
        problem.database.add_store_listener(self.on_store)
        problem.database.add_new_iter_listener(self.on_new_iter)


# ----------------------------------------------------------------------------- problems

def ms_f(x):
    """Module-level (picklable) objective for the runs whose sub-optimizations are in other processes."""
    return (x[0] - 0.5) ** 2 + (x[1] + 0.25) ** 2


def ms_df(x):
    return array([2 * (x[0] - 0.5), 2 * (x[1] + 0.25)])


def obs_o(x):
    return array([x[0] + x[1]])


def obs_do(x):
    return array([[1.0, 1.0]])


def build_problem(kind: str, rec: Rec, linear=False, observable=False):
    """kind: unc | ineq | eq | nan | nanc | raise | int | plain (unwrapped, picklable objective);
    observable: add a new-iteration observable.  Returns the problem (an OptimizationProblem)."""
    from gemseo.algos.design_space import DesignSpace
    from gemseo.algos.optimization_problem import OptimizationProblem
    from gemseo.core.mdo_functions.mdo_function import MDOFunction
    from gemseo.core.mdo_functions.mdo_linear_function import MDOLinearFunction

    ds = DesignSpace()
    if kind == "int":
        ds.add_variable("k", 1, type_="integer", lower_bound=-2, upper_bound=2, value=array([1]))
        ds.add_variable("y", 1, lower_bound=-2.0, upper_bound=2.0, value=array([1.0]))
    else:
        ds.add_variable("x", 2, lower_bound=-2.0, upper_bound=2.0, value=array([1.0, 1.0]))
    problem = OptimizationProblem(ds)
    fnames = ["f"]
    if linear:
        problem.objective = MDOLinearFunction(array([1.0, 2.0]), "f", value_at_zero=array([0.25]))
        if kind == "ineq":
            problem.add_constraint(MDOLinearFunction(array([[-1.0, -1.0]]), "c", value_at_zero=array([-1.0])),
                                   constraint_type="ineq")
            fnames.append("c")
        if kind == "eq":
            problem.add_constraint(MDOLinearFunction(array([[1.0, -1.0]]), "h"), constraint_type="eq")
            fnames.append("h")
        if observable:
            problem.add_observable(MDOFunction(obs_o, "o", jac=obs_do))
        rec.attach(problem, fnames)
        return problem

    if kind == "plain":
        problem.objective = MDOFunction(ms_f, "f", jac=ms_df)
        rec.attach(problem, fnames)
        return problem

    def f(x):
        if kind == "nan" and x[0] < 0.75:
            return float("nan")
        if kind == "raise" and x[0] > 1.5:
            raise Boom("boom")
        return (x[0] - 0.5) ** 2 + (x[1] + 0.25) ** 2

    def df(x):
        return array([2 * (x[0] - 0.5), 2 * (x[1] + 0.25)])

    def c(x):
        if kind == "nanc" and x[1] < 0.25:
            return array([float("nan")])
        return array([x[0] + x[1] - 0.1])

    def h(x):
        return array([x[0] - x[1]])

    problem.objective = MDOFunction(rec.wrap("f", "val", f), "f", jac=rec.wrap("f", "jac", df))
    if kind in ("ineq", "nanc"):
        problem.add_constraint(
            MDOFunction(rec.wrap("c", "val", c), "c", jac=rec.wrap("c", "jac", lambda x: array([[1.0, 1.0]]))),
            constraint_type="ineq")
        fnames.append("c")
    if kind == "eq":
        problem.add_constraint(
            MDOFunction(rec.wrap("h", "val", h), "h", jac=rec.wrap("h", "jac", lambda x: array([[1.0, -1.0]]))),
            constraint_type="eq")
        fnames.append("h")
    if observable:
        problem.add_observable(MDOFunction(obs_o, "o", jac=obs_do))
    rec.attach(problem, fnames)
    return problem


# ----------------------------------------------------------------------------- one execution

def classify(message):
    if not isinstance(message, str):
        return "Normal"
    for prefix, cause in CAUSES:
        if message.startswith(prefix):
            return cause
    if message.strip() == GEMSEO_STOP:
        return "Other"
    return "Normal"


REFUSAL = "the sum of the maximum number of iterations"     # MultiStart._run's documented ValueError


def execute(rec: Rec, lib, kind: str, settings: dict, *, grad: bool, nx: int = 3, kkt=False, composite=False,
            sub=0):
    """Run lib.execute(problem, **settings) and append the exec / ... / end events."""
    problem = rec.problem
    db = problem.database
    head = dict(ev="exec", kind=kind, N=int(settings.get("max_iter", 0)),
                reset=bool(settings.get("reset_iteration_counters", True)), grad=bool(grad),
                useDb=bool(settings.get("use_database", True)), storeJac=bool(settings.get("store_jacobian", True)),
                stopIfNan=bool(problem.stop_if_nan) if kind == "opt" else False,
                maxTime=bool(settings.get("max_time", 0)), kkt=bool(kkt), nx=int(nx), samples=[],
                composite=bool(composite), obs=bool(len(problem.new_iter_observables)), sub=int(sub),
                **rec.snap())
    rec.events.append(head)
    start = rec.start = len(rec.events)
    rec.pending = []
    res, exc = None, None

    fired = []

    def on_alarm(signum, frame):
        fired.append(1)
        raise Runaway

    # the watchdog counts the CPU time of THIS process (ITIMER_PROF), not wall-clock time: on a loaded machine
    # a healthy run may take many wall-clock seconds, and an exception injected into it by a wall-clock alarm
    # (possibly swallowed by a C callback wrapper) would make the recorded trace meaningless
    old = signal.signal(signal.SIGPROF, on_alarm)
    signal.setitimer(signal.ITIMER_PROF, MAX_SECONDS, 2.0)   # re-armed: a firing inside a finalizer is swallowed
    try:
        res = lib.execute(problem, **settings)
    except BaseException as ex:  # noqa: BLE001
        exc = ex
    finally:
        signal.setitimer(signal.ITIMER_PROF, 0)
        signal.signal(signal.SIGPROF, old)
    if fired and not isinstance(exc, Runaway):
        # the alarm fired but the exception was swallowed somewhere: the run was disturbed by the harness,
        # it is reported as a run that did not stop, never validated as if it were an undisturbed run
        res, exc = None, Runaway()
    if kind == "doe":
        smp = getattr(lib, "samples", None)
        if smp is not None and len(np.shape(smp)) == 2:
            head["samples"] = [rec.pid_near(s) for s in smp]
            head["N"] = len(head["samples"])
    # listeners left on the database (returned by the public clear_listeners, then put back)
    ni, st = db.clear_listeners()
    ours_ni = [x for x in ni if x == rec.on_new_iter]
    ours_st = [x for x in st if x == rec.on_store]
    db.add_store_listener(rec.on_store)
    db.add_new_iter_listener(rec.on_new_iter)
    for x in ni:
        if x != rec.on_new_iter:
            db.add_new_iter_listener(x)
    for x in st:
        if x != rec.on_store:
            db.add_store_listener(x)
    xopt = 0
    has = res is not None
    if has and getattr(res, "x_opt", None) is not None and np.size(res.x_opt):
        xopt = rec.pid_near(res.x_opt)
    cause = classify(getattr(res, "message", None)) if has else "Normal"
    if isinstance(exc, Runaway):
        del rec.events[start + 60:]          # keep the beginning only
        cause = "Runaway"
    # the exception that escaped is that of a user function (libraries may re-wrap it)
    user_raise = exc is not None and any(e["ev"] == "orig" and e["out"] == "raise" for e in rec.events[start:])
    rec.events.append(dict(ev="end", cause=cause, result=bool(has), xopt=int(xopt), crashed=exc is not None,
                           refused=isinstance(exc, ValueError) and REFUSAL in str(exc),
                           userRaise=bool(user_raise), exc=type(exc).__name__ if exc is not None else "",
                           excmsg=repr(exc)[:60].encode("ascii", "replace").decode() if exc is not None else "",
                           nni=len(ni) + (0 if ours_ni else 1), nsl=len(st) + (0 if ours_st else 1),
                           **rec.snap()))
    rec.pending = []
    return res, exc


# ----------------------------------------------------------------------------- isolation of one recorded case

HARD_SECONDS = 10.0


def _cpu_of(pid: int) -> float:
    """CPU seconds (user + system) consumed so far by a live process and its reaped children."""
    import os

    try:
        with open(f"/proc/{pid}/stat") as f:
            fields = f.read().rsplit(")", 1)[1].split()
        return sum(int(fields[i]) for i in (11, 12, 13, 14)) / os.sysconf("SC_CLK_TCK")
    except (OSError, IndexError, ValueError):
        return 0.0


def isolated(fn, limit: float = HARD_SECONDS):
    """Run fn() in a forked child and return ("ok", value) | ("error", text) | ("killed", cpu seconds) |
    ("died", wait status).  The in-process watchdog of `execute` is a Python signal handler: it cannot run
    while a compiled library loops without calling back into Python (NLopt's NEWUOA after a forced stop may
    do so for minutes, or for ever).  The child is killed, with its own children, once it has consumed
    `limit` seconds of CPU time (CPU time, not wall-clock time: the machine may be loaded); value must be
    JSON-serialisable."""
    import json
    import os
    import select

    r, w = os.pipe()
    pid = os.fork()
    if pid == 0:
        code = 0
        try:
            os.close(r)
            os.setsid()
            try:
                payload = ("ok", fn())
            except Exception as ex:  # noqa: BLE001
                payload = ("error", f"{type(ex).__name__}: {str(ex)[:80]}")
            with os.fdopen(w, "wb") as f:
                f.write(json.dumps(payload).encode())
        except BaseException:  # noqa: BLE001
            code = 3
        finally:
            os._exit(code)
    os.close(w)
    chunks, verdict, status = [], None, None
    try:
        while True:
            ready, _, _ = select.select([r], [], [], 0.2)
            if ready:
                b = os.read(r, 1 << 16)
                if not b:
                    break
                chunks.append(b)
                continue
            if status is not None:
                break                       # the child is gone and the pipe is drained
            done, st = os.waitpid(pid, os.WNOHANG)
            if done:
                # a process left behind by the child (pool worker) may still hold the pipe: no end of file
                status = st
                continue
            used = _cpu_of(pid)
            if used > limit:
                verdict = ("killed", round(used, 1))
                break
    finally:
        os.close(r)
        for kill, target in ((os.killpg, pid), (os.kill, pid)):     # the child and whatever it left behind
            try:
                kill(target, 9)
            except OSError:
                pass
        if status is None:
            _, status = os.waitpid(pid, 0)
    if verdict is not None:
        return verdict
    if not chunks:
        return ("died", status)
    kind, value = json.loads(b"".join(chunks).decode())
    return (kind, value)


def unreturned_trace(tid: int, meta: dict, kind: str, exc: str, msg: str):
    """The trace of an execution that never returned (killed by `isolated`) or took the process down: the
    settings and the fact that execute() neither returned a result nor raised a user exception."""
    head = dict(ev="exec", kind=kind, N=int(meta["N"]), reset=True, grad=False, useDb=True, storeJac=True,
                stopIfNan=kind == "opt", maxTime=False, kkt=False, nx=3, samples=[], composite=False, obs=False,
                sub=0, cur=0, len=0)
    end = dict(ev="end", cause="Runaway", result=False, xopt=0, crashed=True, refused=False, userRaise=False,
               exc=exc, excmsg=msg[:60], nni=1, nsl=1, cur=0, len=0)
    return {"id": tid, "funcs": ["f"], "npts": 0, "events": [head, end], "meta": meta, "noorig": False}


def trace_of(rec: Rec, tid: int, meta: dict):
    return {"id": tid, "funcs": list(rec.fnames), "npts": len(rec.coords), "events": rec.events, "meta": meta}
