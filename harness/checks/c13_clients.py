"""C13 clients: parallel DOE (ParallelDOE.tla, forced completion orders on the process back-end), parallel
chains whose members share output names (ParallelChain.tla, forced completion orders of the members, repeated
calls, failing members), shared caches (SharedCache.tla), DiscParallelExecution / DiscParallelLinearization
reused over consecutive executions, parallel Jacobi MDA after a failed point, the sequential/parallel
front-end `gemseo.utils.multiprocessing.execution.execute`, and finite differences - all compared with
their sequential counterparts and with the specification."""
from __future__ import annotations

import contextlib
import io
import multiprocessing as mp
import threading
import time

import numpy as np

from ..core import MachineryError
from ..tlaval import seq


def _b(x):
    return "TRUE" if x else "FALSE"


def _num(mapping, name):
    """The first component of mapping[name] as a float; None when it is missing or not a number."""
    try:
        return float(np.ravel(mapping[name])[0])
    except Exception:  # noqa: BLE001
        return None


def doe_cfg(n, points, nw, *, eval_jac=True, stages=(0, 1, 2, 3, 4), drop_partial=False, worker_jac=False,
            cases=False, verify=True):
    s = (f"CONSTANTS N = {n}\n Points = {{{', '.join(map(str, points))}}}\n NWorkers = {nw}\n EvalJac = {_b(eval_jac)}\n"
         f" FailStages = {{{', '.join(map(str, stages))}}}\n DropPartial = {_b(drop_partial)}\n WorkerJacobian = {_b(worker_jac)}\n")
    s += "SPECIFICATION Spec\nINVARIANT SameAsSequential\nINVARIANT OrderFixed\n"
    if cases:
        s += "INVARIANT Cases\n"
    elif verify:
        s += "VIEW View\nPROPERTY Live\n"
    return s


PT = {1: (0.0, 0.0), 2: (1.0, 0.5), 3: (-1.0, 0.25)}
EVALS = ("f", "c", "@f", "@c")
SCALE = 4.0  # upper bound - lower bound of the design space: Jacobian w.r.t. normalized variables = SCALE * Jacobian


def f_val(p):
    x = PT[p]
    return (x[0] - 0.5) ** 2 + (x[1] + 0.25) ** 2


def jac_u(name, p):
    x = PT[p]
    return [2 * (x[0] - 0.5), 2 * (x[1] + 0.25)] if name == "@f" else [1.0, 1.0]


def make_problem(fail_at=None):
    """fail_at: point -> number of the evaluation (1..4 in the order f, c, @f, @c) that raises ValueError."""
    from gemseo.algos.design_space import DesignSpace
    from gemseo.algos.optimization_problem import OptimizationProblem
    from gemseo.core.mdo_functions.mdo_function import MDOFunction

    fail_at = fail_at or {}
    ds = DesignSpace()
    ds.add_variable("x", 2, lower_bound=-2.0, upper_bound=2.0, value=np.array([1.0, 1.0]))
    problem = OptimizationProblem(ds)
    inv = {v: k for k, v in PT.items()}

    def guard(stage, x):
        p = inv[(float(x[0]), float(x[1]))]
        if fail_at.get(p, 0) == stage:
            raise ValueError(f"boom {p} at {EVALS[stage - 1]}")

    def f(x):
        guard(1, x)
        return (x[0] - 0.5) ** 2 + (x[1] + 0.25) ** 2

    def df(x):
        guard(3, x)
        return np.array([2 * (x[0] - 0.5), 2 * (x[1] + 0.25)])

    def c(x):
        guard(2, x)
        return np.array([x[0] + x[1] - 0.125])

    def dc(x):
        guard(4, x)
        return np.array([[1.0, 1.0]])

    problem.objective = MDOFunction(f, "f", jac=df)
    problem.add_constraint(MDOFunction(c, "c", jac=dc), constraint_type="ineq")
    return problem


def dump_db(problem):
    out = []
    for k, d in problem.database.items():
        out.append((tuple(float(v) for v in k.wrapped_array),
                    {n: np.round(np.ravel(v), 12).tolist() for n, v in sorted(d.items())}))
    return out


def run_doe_forced(samples, fail_at, normalize, order, nw):
    """samples: list of point ids (1-based positions in `order`)."""
    from gemseo.algos.doe.factory import DOELibraryFactory

    from .c13 import patience

    ctx = mp.get_context("fork")
    wait = patience()
    occ_of = {}
    seen = {}
    for i, p in enumerate(samples, 1):
        occ_of[i] = (p, seen.get(p, 0))
        seen[p] = seen.get(p, 0) + 1
    keys = list(occ_of.values())
    gates = {k: ctx.Event() for k in keys}
    started = {k: ctx.Event() for k in keys}
    finished = {k: ctx.Event() for k in keys}
    tickets = {p: ctx.Value("i", 0) for p in set(samples)}
    problem = make_problem(fail_at)
    inv = {v: k for k, v in PT.items()}
    arr = np.array([PT[p] for p in samples])
    problems = []
    over = threading.Event()

    def controller():
        for i in order:
            k = occ_of[i]
            while not started[k].wait(0.05):
                if over.is_set():
                    return
            gates[k].set()
            finished[k].wait(wait)
            time.sleep(0.01)
        for g in gates.values():
            g.set()

    th = threading.Thread(target=controller, daemon=True)
    res = {}
    with contextlib.redirect_stderr(io.StringIO()):
        th.start()
        try:
            lib = DOELibraryFactory().create("CustomDOE")
            inner = lib._worker

            # test double at task level (one call per task, whatever the sub-process database memoizes):
            # report the start, wait for the gate, run the real worker, report the end
            def gated_worker(x):
                p = inv[(float(x[0]), float(x[1]))]
                with tickets[p].get_lock():
                    occ = tickets[p].value
                    tickets[p].value += 1
                started[(p, occ)].set()
                gates[(p, occ)].wait(600)
                try:
                    return inner(x)
                finally:
                    finished[(p, occ)].set()

            lib._worker = gated_worker
            lib.execute(problem, samples=arr, n_processes=nw, eval_jac=True, normalize_design_space=normalize)
        except BaseException as e:  # noqa: BLE001
            res["error"] = e
        over.set()
        for g in gates.values():
            g.set()
        th.join(wait)
    return problem, res, problems


def run_doe_seq(samples, fail_at, normalize):
    from gemseo.algos.doe.factory import DOELibraryFactory

    problem = make_problem(fail_at)
    arr = np.array([PT[p] for p in samples])
    with contextlib.redirect_stderr(io.StringIO()):
        DOELibraryFactory().execute(problem, algo_name="CustomDOE", samples=arr, eval_jac=True,
                                    normalize_design_space=normalize)
    return problem


def _jspace(entry, p):
    """In which variables the stored Jacobians are expressed: "u" (design variables), "n" (normalized), "-" (none)."""
    tags = set()
    for name in ("@f", "@c"):
        if name in entry:
            u = jac_u(name, p)
            got = entry[name]
            if np.allclose(got, u, rtol=0, atol=1e-12):
                tags.add("u")
            elif np.allclose(got, [SCALE * v for v in u], rtol=0, atol=1e-12):
                tags.add("n")
            else:
                tags.add("other")
    return "-" if not tags else (tags.pop() if len(tags) == 1 else "mixed")


def _doe(ck, rng):
    from .c13 import tlc_many

    n = 4 if ck.thorough else 3
    pts = [1, 2, 3]
    stages_q = (0, 1, 3)   # none, total failure, failure after the outputs
    jobs = [("ParallelDOE", doe_cfg(n, pts, 2, stages=(0, 1, 2, 3, 4) if ck.thorough else stages_q),
             dict(workers=4, deadlock=False, timeout=1500, require_actions=("PreSeed", "Start", "Complete", "RemoveEmpty"))),
            ("ParallelDOE", doe_cfg(3, pts, 2, eval_jac=False, stages=(0, 1, 2)), dict(workers=2, deadlock=False)),
            ("ParallelDOE", doe_cfg(3, [1, 2], 2, stages=(0, 1, 2, 3, 4)), dict(workers=2, deadlock=False))]
    if ck.thorough:
        jobs.append(("ParallelDOE", doe_cfg(4, pts, 3, stages=stages_q), dict(workers=4, deadlock=False, timeout=1500)))
    n_ver = len(jobs)
    # the two designs of the code as found are refuted by TLC
    jobs.append(("ParallelDOE", doe_cfg(2, [1, 2], 2, drop_partial=True, verify=False),
                 dict(workers=1, deadlock=False, expect_ok=False, count=False, coverage=False)))
    jobs.append(("ParallelDOE", doe_cfg(2, [1, 2], 2, worker_jac=True, verify=False),
                 dict(workers=1, deadlock=False, expect_ok=False, count=False, coverage=False)))
    # cases to replay: random behaviours of the model, whole-sample failures (where the completion order matters
    # most) and failures at every stage
    for stages, num in (((0, 1), 3000 if ck.thorough else 1000), ((0, 1, 2, 3, 4), 2000 if ck.thorough else 500)):
        jobs.append(("ParallelDOE", doe_cfg(3, pts, 2, stages=stages, cases=True),
                     dict(workers=1, deadlock=False, count=False, coverage=False, simulate=f"num={num}",
                          depth=30, seed=ck.seed + 5)))
    res = tlc_many(ck, jobs)
    for r in res[n_ver:n_ver + 2]:
        if r.violated != "SameAsSequential":
            raise MachineryError("a DOE design that is not equivalent to the sequential loop is not refuted")
    cases = {}
    for v in res[-2].printed() + res[-1].printed():
        if isinstance(v, tuple) and v and v[0] == "DOE":
            _, samples, fail_at, normalize, order, db = v
            fa = tuple(sorted((int(p), int(s)) for p, s in dict(fail_at).items())) if isinstance(fail_at, dict) \
                else tuple((i + 1, int(s)) for i, s in enumerate(seq(fail_at)))
            expect = tuple((e["pt"], tuple(sorted(e["names"])), e["jspace"]) for e in seq(db))
            cases[(tuple(seq(samples)), fa, bool(normalize), tuple(seq(order)))] = expect
    if not cases:
        raise MachineryError("ParallelDOE printed no case")
    items = sorted(cases.items(), key=lambda kv: (kv[0][0], kv[0][1], kv[0][2], kv[0][3]))

    def partial(it):
        (samples, fa, _, _), _ = it
        return any(dict(fa)[p] >= 2 for p in samples)

    def naive(it):
        # storing in completion order, without the pre-seeded entries
        (samples, fa, _, order), expect = it
        stored = {e[0] for e in expect}
        out = []
        for i in order:
            p = samples[i - 1]
            if p in stored and p not in out:
                out.append(p)
        return tuple(out)

    sensitive = [it for it in items if naive(it) != tuple(e[0] for e in it[1]) and not partial(it)]
    partials = [it for it in items if partial(it)]
    ck.extra["parallel_doe_order_sensitive_cases_in_model"] = len(sensitive)
    ck.extra["parallel_doe_partial_failure_cases_in_model"] = len(partials)
    if not sensitive or not partials:
        raise MachineryError("vacuity: the simulated DOE cases contain no order-sensitive / partially failing case")
    k = 60 if ck.thorough else 15
    chosen = rng.sample(sensitive, min(k - k // 3, len(sensitive)))
    chosen += rng.sample(partials, min(k // 5, len(partials)))
    rest = [it for it in items if it not in chosen and not partial(it)]
    chosen += rng.sample(rest, min(k // 3 - k // 5, len(rest)))
    ck.extra["parallel_doe_cases_in_model"] = len(items)
    ck.extra["parallel_doe_cases_replayed"] = len(chosen)
    seq_cache = {}
    n_ok = 0
    for (samples, fa, normalize, order), expect in chosen:
        fail_at = dict(fa)
        case = {"samples": list(samples), "fail_at": {str(p): s for p, s in fa if s}, "normalize_design_space": normalize,
                "completion_order": list(order), "expected_entries": [list(e) for e in expect]}
        ck.sample(case, limit=8)
        sig = {"what": "parallel_doe", "partial_failure": any(fail_at[p] >= 2 for p in samples)}
        problem, res, problems = run_doe_forced(list(samples), fail_at, normalize, list(order), 2)
        if "error" in res:
            ck.violation("DoeTerminates", dict(sig, exception=type(res["error"]).__name__), dict(case, error=repr(res["error"])))
            continue
        got = dump_db(problem)
        want_keys = [PT[e[0]] for e in expect]
        if [g[0] for g in got] != want_keys:
            ck.violation("SameAsSequential", dict(sig, part="keys"), dict(case, impl_keys=[g[0] for g in got], spec_keys=want_keys))
            continue
        bad = [(g[0], sorted(g[1]), list(e[1])) for g, e in zip(got, expect) if sorted(g[1]) != sorted(e[1])]
        if bad:
            ck.violation("SameAsSequential", dict(sig, part="names"), dict(case, entries_impl_vs_spec=bad))
            continue
        bad = [(g[0], _jspace(g[1], e[0]), e[2]) for g, e in zip(got, expect) if _jspace(g[1], e[0]) != e[2]]
        if bad:
            ck.violation("SameAsSequential", dict(sig, part="jacobian_space", normalize=normalize),
                         dict(case, jacobian_space_impl_vs_spec=bad))
            continue
        bad = [g for g, e in zip(got, expect) if "f" in g[1] and abs(g[1]["f"][0] - f_val(e[0])) > 1e-12]
        if bad:
            ck.violation("SameAsSequential", dict(sig, part="values"), dict(case, impl=bad))
            continue
        key = (samples, fa, normalize)
        if key not in seq_cache:
            seq_cache[key] = dump_db(run_doe_seq(list(samples), fail_at, normalize))
        if got != seq_cache[key]:
            ck.violation("SameAsSequential", dict(sig, part="vs_sequential_run"), dict(case, parallel=got, sequential=seq_cache[key]))
            continue
        n_ok += 1
        ck.traces += 1
    ck.extra["parallel_doe_cases_conforming"] = n_ok


def run(ck, rng, records):
    _doe(ck, rng)
    _shared_cache(ck, rng)
    # ---- parallel chain / linearization / finite differences / Jacobi vs sequential
    _chains(ck, rng)
    _chain_members(ck, rng)
    _disc_parallel(ck, rng, records)
    _jacobi(ck, rng)
    _front_end(ck, rng, records)
    _deep_copy_chain(ck, rng)
    _fd(ck, rng)


def _disc(name, ins, outs, coef):
    from gemseo.core.discipline import Discipline

    class L(Discipline):
        def __init__(self):
            super().__init__(name=name)
            self.io.input_grammar.update_from_names(ins)
            self.io.output_grammar.update_from_names(outs)
            self.io.input_grammar.defaults.update({i: np.array([1.0, 2.0]) for i in ins})

        def _run(self, input_data):
            s = sum(input_data[i] for i in ins)
            return {o: coef * (k + 1) * s + k for k, o in enumerate(outs)}

        def _compute_jacobian(self, input_names=(), output_names=()):
            self.jac = {o: {i: coef * (k + 1) * np.eye(2) for i in ins} for k, o in enumerate(outs)}

    return L()


def _chains(ck, rng):
    from gemseo.core.chains.parallel_chain import MDOParallelChain

    n = 0
    for use_threading in (True, False):
        for trial in range(3 if ck.thorough else 1):
            specs = [("A", ["x"], ["ya", "za"], 2.0), ("B", ["x", "u"], ["yb"], -3.0), ("C", ["u"], ["yc"], 0.5),
                     ("D", ["x"], ["yd"], 4.0)]
            rng.shuffle(specs)
            data = {"x": np.array([rng.randint(-3, 3), 1.0]), "u": np.array([0.5, rng.randint(-2, 2)])}
            case = {"client": "MDOParallelChain", "threads": use_threading, "order": [s[0] for s in specs]}
            sig = {"what": "parallel_chain", "threads": use_threading}
            par = MDOParallelChain([_disc(*s) for s in specs], use_threading=use_threading, n_processes=3)
            ok, out = ck.guard("ChainEquivalent", sig, par.execute, data)
            if not ok:
                continue
            want = {}
            wjac = {}
            for s in specs:
                d = _disc(*s)
                want.update({k: v for k, v in d.execute(data).items() if k in s[2]})
                j = d.linearize(data, compute_all_jacobians=True)
                wjac.update(j)
            bad = [k for k in want if k not in out or not np.array_equal(np.asarray(out[k]), np.asarray(want[k]))]
            if bad:
                ck.violation("ChainEquivalent", sig, dict(case, differing_outputs=bad))
                continue
            par.add_differentiated_inputs(["x", "u"])
            par.add_differentiated_outputs(list(want))
            ok, jac = ck.guard("ChainEquivalent", dict(sig, part="linearize"), par.linearize, data)
            if not ok:
                continue
            badj = []
            for o in want:
                for i in ("x", "u"):
                    w = wjac[o].get(i)
                    g = jac.get(o, {}).get(i)
                    if w is None:
                        if g is not None and np.any(np.asarray(g.toarray() if hasattr(g, "toarray") else g) != 0):
                            badj.append((o, i))
                        continue
                    if g is None or not np.array_equal(np.asarray(g.toarray() if hasattr(g, "toarray") else g), w):
                        badj.append((o, i))
            if badj:
                ck.violation("ChainEquivalent", dict(sig, part="jacobian"), dict(case, differing_blocks=badj))
                continue
            n += 1
            ck.traces += 1
    ck.extra["parallel_chain_runs"] = n


def _fd(ck, rng):
    from gemseo.utils.derivatives.finite_differences import FirstOrderFD

    def f(x):
        return np.array([x[0] ** 2 + 3 * x[1], x[0] * x[1] - x[2], 2.0 * x[2] ** 2])

    n = 0
    for trial in range(4 if ck.thorough else 2):
        x = np.array([rng.randint(-4, 4) / 2, rng.randint(-4, 4) / 2, rng.randint(-4, 4) / 2])
        serial = FirstOrderFD(f, step=2.0 ** -8).f_gradient(x)
        sig = {"what": "parallel_fd", "threads": False}
        ok, par = ck.guard("FDEquivalent", sig, lambda: FirstOrderFD(f, step=2.0 ** -8, parallel=True, n_processes=3).f_gradient(x))
        if not ok:
            continue
        if not np.array_equal(np.asarray(par), np.asarray(serial)):
            ck.violation("FDEquivalent", sig, {"x": x.tolist(), "serial": np.asarray(serial).tolist(), "parallel": np.asarray(par).tolist()})
            continue
        n += 1
        ck.traces += 1
    ck.extra["parallel_fd_runs"] = n


def sc_cfg(nw, inputs, *, sched=False):
    s = f"CONSTANTS NWorkers = {nw}\n Inputs = {{{', '.join(map(str, inputs))}}}\nSPECIFICATION Spec\n"
    for i in ("EntriesOwnData", "GetOwnData", "SameAsSequential", "NoDuplicates"):
        s += f"INVARIANT {i}\n"
    s += "INVARIANT Schedules\n" if sched else "VIEW View\nPROPERTY Live\n"
    return s


def _shared_cache(ck, rng):
    """SharedCache.tla: every interleaving of the cache calls of workers sharing one full cache.  Each
    public cache method is atomic (cache lock), so performing the calls in the model's order on the
    real cache object IS the schedule."""
    from gemseo.caches.hdf5_cache import HDF5Cache
    from gemseo.caches.memory_full_cache import MemoryFullCache

    ck.tlc("SharedCache", sc_cfg(2, [1, 2]), workers=2, deadlock=False,
           require_actions=("Get", "CacheOutputs", "CacheJacobian"))
    ck.tlc("SharedCache", sc_cfg(3, [1, 2]), workers=4, deadlock=False, timeout=900)
    r = ck.tlc("SharedCache", sc_cfg(2, [1, 2], sched=True), workers=1, deadlock=False, count=False, coverage=False)
    scheds = []
    for v in r.printed():
        if isinstance(v, tuple) and v and v[0] == "SCHED":
            scheds.append((tuple(seq(v[1])), tuple(v[2]), tuple((e["in"], e["out"], e["jac"]) for e in seq(v[3]))))
    scheds = sorted(set(scheds))
    if not scheds:
        raise MachineryError("SharedCache printed no schedule")
    inp = lambda v: {"a": np.array([float(v), 1.0]), "b": np.array([2.0 * v])}  # noqa: E731
    out = lambda v: {"y": np.array([10.0 * v, 1.0 + v])}  # noqa: E731
    jac = lambda v: {"y": {"a": np.array([[1.0 * v, 0.0], [0.0, 2.0 * v]]), "b": np.array([[3.0 * v], [4.0]])}}  # noqa: E731

    def own(entry, v):
        """0 if the group is absent, v if it is v's data, -1 otherwise."""
        o = entry.outputs
        j = entry.jacobian
        ro = 0 if not o else (v if np.array_equal(o["y"], out(v)["y"]) else -1)
        rj = 0 if not j else (v if all(np.array_equal(np.asarray(j["y"][k]), jac(v)["y"][k]) for k in ("a", "b")) else -1)
        return ro, rj

    n = 0
    kinds = [("MemoryFullCache", lambda: MemoryFullCache()), ("MemoryFullCacheLocal", lambda: MemoryFullCache(is_memory_shared=False))]
    for kind, mk in kinds + [("HDF5Cache", None)]:
        if mk is None:
            todo = rng.sample(scheds, min(len(scheds), 120 if ck.thorough else 25))
        elif kind.endswith("Local") and not ck.thorough:
            todo = rng.sample(scheds, min(len(scheds), 250))
        else:
            todo = scheds
        for xs, sched, entries in todo:
            if mk is None:
                n_h5 = len(list(ck.work.glob("sc*.h5")))
                cache = HDF5Cache(hdf_file_path=str(ck.work / f"sc{n_h5}.h5"), hdf_node_path="node")
            else:
                cache = mk()
            sig = {"what": "shared_cache", "cache": kind}
            case = {"cache": kind, "inputs": list(xs), "schedule": [list(s) for s in sched]}
            if n < 2:
                ck.sample(case, limit=12)
            bad = None
            try:
                for w, op in sched:
                    v = xs[w - 1]
                    if op == "out":
                        cache.cache_outputs(inp(v), out(v))
                    elif op == "jac":
                        cache.cache_jacobian(inp(v), jac(v))
                    else:
                        ro, rj = own(cache[inp(v)], v)
                        if ro not in (0, v) or rj not in (0, v):
                            bad = f"worker {w} (input {v}) was served another input's data: outputs {ro}, jacobian {rj}"
                            break
                if bad is None:
                    got = []
                    for e in cache.get_all_entries():
                        v = int(e.inputs["a"][0])
                        got.append((v,) + own(e, v))
                    want = list(entries)
                    if sorted(got) != sorted(want):
                        bad = f"final entries impl {sorted(got)} spec {sorted(want)}"
            except Exception as ex:  # noqa: BLE001
                bad = f"exception {ex!r}"
                sig["exception"] = type(ex).__name__
            if bad:
                ck.violation("SharedCacheSameAsSequential", sig, dict(case, problem=bad))
            else:
                n += 1
                ck.traces += 1
    ck.extra["shared_cache_schedules_in_model"] = len(scheds)
    ck.extra["shared_cache_schedules_replayed"] = n
    _shared_cache_processes(ck, rng, scheds, inp, out, jac, own)


def _shared_cache_processes(ck, rng, scheds, inp, out, jac, own):
    """The same schedules with the workers in SEPARATE PROCESSES (fork) that inherited one cache object
    (shared-memory MemoryFullCache, HDF5Cache): worker w performs its own calls, in the model's global
    order (a controller sends one command at a time over a pipe and waits for the acknowledgement)."""
    from gemseo.caches.hdf5_cache import HDF5Cache
    from gemseo.caches.memory_full_cache import MemoryFullCache

    ctx = mp.get_context("fork")

    def worker(conn, cache, v):
        import logging
        logging.disable(logging.CRITICAL)
        while True:
            op = conn.recv()
            try:
                if op == "stop":
                    conn.send("bye")
                    return
                if op == "out":
                    cache.cache_outputs(inp(v), out(v))
                    conn.send(("ok", None))
                elif op == "jac":
                    cache.cache_jacobian(inp(v), jac(v))
                    conn.send(("ok", None))
                else:
                    conn.send(("ok", own(cache[inp(v)], v)))
            except Exception as ex:  # noqa: BLE001
                conn.send(("exc", repr(ex)))

    n = 0
    plan = [("MemoryFullCache", 40 if ck.thorough else 10), ("HDF5Cache", 40 if ck.thorough else 10)]
    for kind, k in plan:
        for xs, sched, entries in rng.sample(scheds, min(k, len(scheds))):
            if kind == "HDF5Cache":
                n_h5 = len(list(ck.work.glob("scp*.h5")))
                cache = HDF5Cache(hdf_file_path=str(ck.work / f"scp{n_h5}.h5"), hdf_node_path="node")
            else:
                cache = MemoryFullCache()
            sig = {"what": "shared_cache_processes", "cache": kind}
            case = {"cache": kind, "backend": "processes", "inputs": list(xs), "schedule": [list(s) for s in sched]}
            pipes, procs = {}, []
            for w, v in enumerate(xs, 1):
                a, b = ctx.Pipe()
                pr = ctx.Process(target=worker, args=(b, cache, v), daemon=True)
                pr.start()
                pipes[w] = a
                procs.append(pr)
            bad = None
            for w, op in sched:
                pipes[w].send(op)
                if not pipes[w].poll(30):
                    bad = f"worker {w} did not answer to {op}"
                    break
                status, val = pipes[w].recv()
                if status == "exc":
                    bad = f"worker {w} {op}: {val}"
                    sig["exception"] = val.split("(")[0]
                    break
                if op == "get" and (val[0] not in (0, xs[w - 1]) or val[1] not in (0, xs[w - 1])):
                    bad = f"worker {w} (input {xs[w - 1]}) was served another input's data: {val}"
                    break
            for w in pipes:
                try:
                    pipes[w].send("stop")
                except Exception:  # noqa: BLE001
                    pass
            for pr in procs:
                pr.join(10)
                if pr.is_alive():
                    pr.kill()
            if bad is None:
                try:
                    got = []
                    for e in cache.get_all_entries():
                        v = int(e.inputs["a"][0])
                        got.append((v,) + own(e, v))
                    if sorted(got) != sorted(entries):
                        bad = f"final entries impl {sorted(got)} spec {sorted(entries)}"
                except Exception as ex:  # noqa: BLE001
                    bad = f"exception reading the cache in the parent: {ex!r}"
                    sig["exception"] = type(ex).__name__
            if bad:
                ck.violation("SharedCacheSameAsSequential", sig, dict(case, problem=bad))
            else:
                n += 1
                ck.traces += 1
    ck.extra["shared_cache_process_schedules_replayed"] = n


# ------------------------------------------------------------------ observation of the pool inside a client

class PoolObserver:
    """Counts the results put on the output queue of ANY executor created while it is active (thread
    back-end: logging queue double; process back-end: wrapped managed queues), so that a controller can
    release gated members one at a time and know that each result is in the queue before the next."""

    def __init__(self, threads):
        self.threads = threads

    def __enter__(self):
        import gemseo.core.parallel_execution.callable_parallel_execution as mod

        from . import c13

        self._mod = mod
        if self.threads:
            self._rec = c13.Recorder()
            self._saved = mod.queue
            mod.queue = c13.make_queue_ns(self._rec)
        else:
            self._cm = c13.observed_processes()
            self._nput = self._cm.__enter__()
        return self

    def __exit__(self, *a):
        if self.threads:
            self._mod.queue = self._saved
        else:
            self._cm.__exit__(*a)

    def n_put(self):
        return self._rec.count("out_put") if self.threads else self._nput.value


def call_gated(fn, release, alive_wait):
    """Run fn() in a thread while release(ended_event) opens the gates; returns (result | None, exception | None)."""
    box = {}
    ended = threading.Event()

    def target():
        try:
            box["out"] = fn()
        except BaseException as e:  # noqa: BLE001
            box["exc"] = e
        ended.set()

    th = threading.Thread(target=target, daemon=True)
    th.start()
    release(ended)
    if not ended.wait(alive_wait):
        return None, TimeoutError("the call did not return")
    return box.get("out"), box.get("exc")


# ------------------------------------------------------------------ parallel chains whose members share outputs

def chain_cfg(nm, names, nw, ncalls, additive, *, gather=False, swallow=False, max_failing=1, cases=False, invs=None,
              verify=True):
    s = (f"CONSTANTS NMembers = {nm}\n Names = {{{', '.join(chr(34) + n + chr(34) for n in names)}}}\n NWorkers = {nw}\n"
         f" NCalls = {ncalls}\n Additive = {_b(additive)}\n GatherAsCompleted = {_b(gather)}\n SwallowFailures = {_b(swallow)}\n"
         f" MaxFailing = {max_failing}\nSPECIFICATION Spec\n")
    for i in (invs or ("SameAsSequential", "FailurePropagates", "NoStaleData")):
        s += f"INVARIANT {i}\n"
    if cases:
        s += "INVARIANT Cases\n"
    elif verify:
        s += "VIEW View\nPROPERTY Live\n"
    return s


CH_NAMES = ("a", "b")
CH_W = {1: 1.0, 2: 2.0, 3: 4.0}       # weight of member m: sums of weights identify the contributing members
CH_J = {"a": 1.0, "b": 2.0}


def ch_x(k):
    return 16.0 * k + 0.5


def ch_value(contribs, name):
    """The number a symbolic value of the specification stands for."""
    return sum(CH_W[m] * (ch_x(kk) + CH_J[name]) for kk, m in contribs)


def ch_decode(v, name, k):
    """Which contributions (call, member) a number is made of, for the report."""
    for kk in range(k, 0, -1):
        w = v / (ch_x(kk) + CH_J[name])
        if w == int(w) and 1 <= w <= 7:
            return sorted((kk, m) for m in CH_W if int(w) & int(CH_W[m]))
    return f"undecodable {v}"


class ChainControl:
    def __init__(self, calls, nm):
        ctx = mp.get_context("fork")
        self.round = ctx.Value("i", 0)   # 1: the members are being executed, 2: linearized
        self.call = ctx.Value("i", 0)
        self.failing = {k: set(c["failing"]) for k, c in enumerate(calls, 1)}
        keys = [(k, r, m) for k in range(1, len(calls) + 1) for r in (1, 2) for m in range(1, nm + 1)]
        self.gates = {key: ctx.Event() for key in keys}
        self.started = {key: ctx.Event() for key in keys}

    def enter(self, r, m):
        if self.round.value != r:
            return
        key = (self.call.value, r, m)
        self.started[key].set()
        self.gates[key].wait(600)

    def open_all(self):
        for g in self.gates.values():
            g.set()


def _member(m, outs, ctl):
    from gemseo.core.discipline import Discipline

    class Member(Discipline):
        def __init__(self):
            super().__init__(name=f"M{m}")
            self.io.input_grammar.update_from_names(["x"])
            self.io.output_grammar.update_from_names(sorted(outs))
            self.io.input_grammar.defaults["x"] = np.array([1.0])

        def _run(self, input_data):
            ctl.enter(1, m)
            if ctl.round.value == 1 and m in ctl.failing[ctl.call.value]:
                raise RuntimeError(f"member {m} fails")
            x = input_data["x"]
            return {n: CH_W[m] * (x + CH_J[n]) for n in outs}

        def _compute_jacobian(self, input_names=(), output_names=()):
            ctl.enter(2, m)
            self.jac = {n: {"x": np.array([[CH_W[m]]])} for n in outs}

    return Member()


def _chain_members(ck, rng):
    """ParallelChain.tla: members sharing output names, every admissible completion order of the members
    (execution and linearization), repeated calls, failing members - on MDOParallelChain and MDOAdditiveChain,
    threads and processes."""
    from gemseo.core.chains.additive_chain import MDOAdditiveChain
    from gemseo.core.chains.parallel_chain import MDOParallelChain

    from .c13 import patience, tlc_many

    nm = 3
    ncalls = 3 if ck.thorough else 2
    acts = ("StartCall", "Start", "Complete", "Assemble")
    jobs = [("ParallelChain", chain_cfg(nm, CH_NAMES, 2, 2, False, max_failing=3), dict(workers=2, deadlock=False, require_actions=acts)),
            ("ParallelChain", chain_cfg(nm, CH_NAMES, 3, 1, True, max_failing=3), dict(workers=2, deadlock=False, require_actions=acts))]
    if ck.thorough:
        jobs.append(("ParallelChain", chain_cfg(nm, CH_NAMES, 2, 2, True, max_failing=3), dict(workers=4, deadlock=False, timeout=1500)))
        jobs.append(("ParallelChain", chain_cfg(nm, CH_NAMES, 3, 3, False, max_failing=1), dict(workers=4, deadlock=False, timeout=1500)))
    n_ver = len(jobs)
    refute = [(dict(gather=True), "SameAsSequential"), (dict(swallow=True), "FailurePropagates"), (dict(swallow=True), "NoStaleData")]
    for kw, inv in refute:
        jobs.append(("ParallelChain", chain_cfg(nm, CH_NAMES, 2, 2, False, invs=[inv], verify=False, **kw),
                     dict(workers=1, deadlock=False, expect_ok=False, count=False, coverage=False)))
    n_sim = 1500 if ck.thorough else 500
    for additive in (False, True):
        jobs.append(("ParallelChain", chain_cfg(nm, CH_NAMES, 2, ncalls, additive, cases=True),
                     dict(workers=1, deadlock=False, count=False, coverage=False, simulate=f"num={n_sim}", depth=80,
                          seed=ck.seed + 7 + additive)))
    res = tlc_many(ck, jobs)
    for (kw, inv), r in zip(refute, res[n_ver:n_ver + len(refute)]):
        if r.violated != inv:
            raise MachineryError(f"ParallelChain: the design {kw} is not refuted on {inv} (TLC: {r.violated})")
    ck.extra["parallel_chain_designs_refuted"] = [f"{list(kw)[0]}:{inv}" for kw, inv in refute]
    stats = {"threads": 0, "processes": 0, "order_sensitive": 0, "with_failing_member": 0}
    for additive, r in zip((False, True), res[-2:]):
        cases = []
        seen = set()
        for v in r.printed():
            if isinstance(v, tuple) and v and v[0] == "CHAIN":
                outs = [set(o) for o in seq(v[1])]
                calls = [dict(c) for c in seq(v[3])]
                key = repr((sorted(map(sorted, outs)), sorted(v[2]), [(sorted(c["failing"]), c["eorder"], c["lorder"]) for c in calls]))
                if key not in seen:
                    seen.add(key)
                    cases.append((outs, set(v[2]), calls))
        if not cases:
            raise MachineryError("ParallelChain printed no case")

        def sensitive(case):
            # a call in which a member defining a shared, not summed, name completes after the last definer
            outs, to_sum, calls = case
            for n in CH_NAMES:
                defs = [m for m in range(1, nm + 1) if n in outs[m - 1]]
                if len(defs) < 2 or n in to_sum:
                    continue
                for c in calls:
                    if not c["raised"] and list(c["eorder"]).index(defs[-1]) < max(list(c["eorder"]).index(m) for m in defs[:-1]):
                        return True
            return False

        def ok_then_failing(case):
            calls = case[2]
            return any(not calls[i]["raised"] and calls[i + 1]["raised"] for i in range(len(calls) - 1))

        sens = [c for c in cases if sensitive(c)]
        failing = [c for c in cases if ok_then_failing(c) and c not in sens]
        rest = [c for c in cases if c not in sens and c not in failing]
        ck.extra[f"parallel_chain_cases_in_model_additive_{additive}"] = len(cases)
        ck.extra[f"parallel_chain_order_sensitive_cases_in_model_additive_{additive}"] = len(sens)
        if not sens or not failing:
            raise MachineryError("vacuity: no order-sensitive / ok-then-failing chain case in the simulated behaviours")
        plan = {True: rng.sample(sens, min(len(sens), 24 if ck.thorough else 7)) + rng.sample(failing, min(len(failing), 6 if ck.thorough else 2))
                      + rng.sample(rest, min(len(rest), 6 if ck.thorough else 1)),
                False: rng.sample(sens, min(len(sens), 8 if ck.thorough else 2)) + rng.sample(failing, min(len(failing), 3 if ck.thorough else 1))}
        for threads, chosen in plan.items():
            for outs, to_sum, calls in chosen:
                backend = "threads" if threads else "processes"
                sig = {"what": "parallel_chain_members", "backend": backend, "additive": additive}
                case = {"chain": "MDOAdditiveChain" if additive else "MDOParallelChain", "backend": backend,
                        "member_outputs": [sorted(o) for o in outs], "outputs_to_sum": sorted(to_sum),
                        "calls": [{"failing": sorted(c["failing"]), "execution_order": list(c["eorder"]),
                                   "linearization_order": list(c["lorder"])} for c in calls]}
                if stats[backend] < 1:
                    ck.sample(case, limit=14)
                stats[backend] += 1
                stats["order_sensitive"] += sensitive((outs, to_sum, calls))
                stats["with_failing_member"] += any(c["raised"] for c in calls)
                if _replay_chain(ck, sig, case, additive, threads, outs, to_sum, calls, nm, patience()):
                    ck.traces += 1
    ck.extra["parallel_chain_member_cases_replayed"] = stats


def _replay_chain(ck, sig, case, additive, threads, outs, to_sum, calls, nm, wait):
    from gemseo.core.chains.additive_chain import MDOAdditiveChain
    from gemseo.core.chains.parallel_chain import MDOParallelChain

    ctl = ChainControl(calls, nm)
    members = [_member(m, outs[m - 1], ctl) for m in range(1, nm + 1)]
    if additive:
        # (a name to sum that no member defines is not an output of the chain)
        chain = MDOAdditiveChain(members, sorted(set(to_sum) & set().union(*outs)), use_threading=threads, n_processes=2)
    else:
        chain = MDOParallelChain(members, use_threading=threads, n_processes=2)
    names = sorted(set().union(*outs))
    chain.add_differentiated_inputs(["x"])
    chain.add_differentiated_outputs(names)
    ok = True
    with PoolObserver(threads) as obs, contextlib.redirect_stderr(io.StringIO()):
        try:
            for k, c in enumerate(calls, 1):
                x = {"x": np.array([ch_x(k)])}
                ctl.call.value = k
                # a new evaluation after a failed one: the caller resets the statuses (as DisciplineAdapter does)
                for d in [chain, *members]:
                    d.execution_status.value = d.execution_status.Status.DONE
                for r, order, what in ((1, list(c["eorder"]), "data"), (2, list(c["lorder"]), "jac")):
                    ctl.round.value = r

                    def release(ended, r=r, order=order, k=k):
                        for m in order:
                            while not ctl.started[(k, r, m)].wait(0.05):
                                if ended.is_set():
                                    return
                            n0 = obs.n_put()
                            ctl.gates[(k, r, m)].set()
                            deadline = time.time() + wait
                            while obs.n_put() <= n0 and time.time() < deadline and not ended.is_set():
                                time.sleep(0.0005)
                        for key, g in ctl.gates.items():
                            if key[0] == k and key[1] == r:
                                g.set()

                    fn = (lambda: chain.execute(x)) if r == 1 else (lambda: chain.linearize(x))
                    out, exc = call_gated(fn, release, 6 * wait)
                    for key, g in ctl.gates.items():
                        if key[0] == k and key[1] == r:
                            g.set()
                    ctl.round.value = 0
                    if isinstance(exc, TimeoutError):
                        ck.violation("ChainTerminates", sig, dict(case, call=k, round=what))
                        return False
                    if c["raised"]:
                        # the sequential chain raises at a failing member: so must the parallel chain
                        if exc is None:
                            stale = {n: ch_decode(_num(out, n), n, k) for n in names if _num(out, n) is not None}
                            ck.violation("FailurePropagates", dict(sig, part="failing_member"),
                                         dict(case, call=k, returned_instead_of_raising=stale))
                            ok = False
                        break
                    if exc is not None:
                        ck.violation("ChainEquivalent", dict(sig, part=what, exception=type(exc).__name__),
                                     dict(case, call=k, exception=repr(exc)))
                        return False
                    spec = c["data"] if r == 1 else c["jac"]
                    bad = {}
                    for n in names:
                        contribs = sorted(tuple(t) for t in spec[n])
                        if r == 1:
                            want = ch_value(contribs, n)
                            got = _num(out, n)
                            if got != want:
                                bad[n] = {"spec": contribs, "impl": "missing" if got is None else ch_decode(got, n, k)}
                        else:
                            want = sum(CH_W[m] for _, m in contribs)
                            blk = out.get(n, {}).get("x")
                            got = None if blk is None else float(np.ravel(blk.toarray() if hasattr(blk, "toarray") else blk)[0])
                            if got != want:
                                bad[n] = {"spec_members": [m for _, m in contribs], "impl_sum_of_weights": got}
                    if bad:
                        ck.violation("ChainSameAsSequential", dict(sig, part=what), dict(case, call=k, differing=bad))
                        ok = False
                        break
        finally:
            ctl.open_all()
    return ok


# ------------------------------------------------------------------ DiscParallelExecution / Linearization reused

def _disc_parallel(ck, rng, records):
    """DiscParallelExecution / DiscParallelLinearization with one discipline per input, REUSED over two
    consecutive executions: for every subset of failing disciplines of each execution (the `fails` sets of
    ParallelExec.tla) the returned list is positionally matched (None in a failed slot only) and EACH
    DISCIPLINE holds its own outputs afterwards - the state a sequential loop over the disciplines leaves."""
    import itertools

    from gemseo.core.discipline import Discipline
    from gemseo.core.parallel_execution.disc_parallel_execution import DiscParallelExecution
    from gemseo.core.parallel_execution.disc_parallel_linearization import DiscParallelLinearization

    def mk(k, gate=None):
        class D(Discipline):
            def __init__(self):
                super().__init__(name=f"D{k}")
                self.io.input_grammar.update_from_names(["x", "bad", "hold"])
                self.io.output_grammar.update_from_names([f"y{k}"])
                self.io.input_grammar.defaults.update({"x": np.array([0.0]), "bad": np.array([0.0]), "hold": np.array([0.0])})

            def _run(self, input_data):
                if gate is not None and input_data["hold"][0] > 0:
                    gate.wait(600)
                if input_data["bad"][0] > 0:
                    raise ValueError(f"D{k} fails")
                return {f"y{k}": input_data["x"] * (k + 2)}

            def _compute_jacobian(self, input_names=(), output_names=()):
                self.jac = {f"y{k}": {"x": np.array([[k + 2.0]]), "bad": np.array([[0.0]]), "hold": np.array([[0.0]])}}

        return D()

    n = {"DiscParallelExecution": 0, "DiscParallelLinearization": 0}
    nd = 3
    # the specification's terminal states for nd tasks, no re-raised type: slot i holds its value iff i is not in fails
    recs = [h for (_, h) in records[2].values() if h["n"] == nd and not h["reraise"]]
    fail_sets = sorted({tuple(sorted(h["fails"])) for h in recs})
    if len(fail_sets) != 2 ** nd:
        raise MachineryError("the specification's records do not cover every set of failing tasks")
    pairs = list(itertools.product(fail_sets, fail_sets))
    for kind, cls in (("DiscParallelExecution", DiscParallelExecution), ("DiscParallelLinearization", DiscParallelLinearization)):
        for use_threading in (True, False):
            todo = pairs if ck.thorough else [((), ())] + rng.sample(pairs, 9 if use_threading else 2)
            for hist in todo:
                discs = [mk(k) for k in range(nd)]
                if kind == "DiscParallelLinearization":
                    for d in discs:
                        d.add_differentiated_inputs(["x"])
                        d.add_differentiated_outputs()
                sig = {"what": "disc_parallel", "kind": kind, "threads": use_threading}
                case = {"client": kind, "threads": use_threading, "failing_per_execution": [list(f) for f in hist]}
                with contextlib.redirect_stderr(io.StringIO()):
                    ok, ex = ck.guard("DiscParallelSlotIsolation", sig, lambda: cls(discs, n_processes=2, use_threading=use_threading))
                if not ok:
                    continue
                bad = []
                for e, fails in enumerate(hist, 1):
                    fails = {i - 1 for i in fails}
                    inputs = [{"x": np.array([10.0 * e + k]), "bad": np.array([1.0 if k in fails else 0.0])} for k in range(nd)]
                    # a new execution after a failed one: the caller resets the statuses (as DisciplineAdapter does)
                    for d in discs:
                        d.execution_status.value = d.execution_status.Status.DONE
                    with contextlib.redirect_stderr(io.StringIO()):
                        ok, out = ck.guard("DiscParallelSlotIsolation", dict(sig, execution=e), lambda: ex.execute(inputs))
                    if not ok:
                        bad = None
                        break
                    if len(out) != nd:
                        bad.append(f"execution {e}: {len(out)} results for {nd} inputs (the specification keeps None in a failed slot)")
                        break
                    for k in range(nd):
                        y = (10.0 * e + k) * (k + 2)
                        got = out[k]
                        if k in fails:
                            if got is not None:
                                bad.append(f"execution {e} slot {k}: expected None (failed), got data")
                            continue
                        if kind == "DiscParallelExecution":
                            if got is None or _num(got, f"y{k}") != y:
                                bad.append(f"execution {e} slot {k}: returned {None if got is None else dict(got)}")
                        else:
                            blk = None if got is None else _num(got.get(f"y{k}", {}), "x")
                            if blk != k + 2.0:
                                bad.append(f"execution {e} slot {k}: Jacobian {None if got is None else dict(got)}")
                        held = discs[k].io.data
                        if _num(held, f"y{k}") != y or _num(held, "x") != 10.0 * e + k:
                            bad.append(f"execution {e}: discipline D{k} holds { {a: np.asarray(b).tolist() for a, b in held.items()} } instead of its own outputs")
                    if bad:
                        break
                if bad is None:
                    continue
                if bad:
                    ck.violation("DiscParallelSlotIsolation", dict(sig, failing=bool(any(hist))), dict(case, problems=bad))
                else:
                    n[kind] += 1
                    ck.traces += 1
    ck.extra["disc_parallel_runs"] = n
    _disc_parallel_reraise(ck, rng, records, mk, nd)


def _disc_parallel_reraise(ck, rng, records, mk, nd):
    """A DiscParallelExecution that re-raises ValueError (as MDAJacobi's), reused: an execution with failing
    disciplines stops early while the other disciplines are still running (they complete AFTER the failure
    reached the output queue: the terminal state of ParallelExec.tla with results left behind); the next
    execution on the same object is positionally matched all the same (ExecutionsIndependent)."""
    import itertools

    from gemseo.core.parallel_execution.disc_parallel_execution import DiscParallelExecution

    from .c13 import patience

    # the specification's records for nd tasks whose failures are all of a re-raised type
    recs = [h for (_, h) in records[2].values() if h["n"] == nd and h["fails"] == h["reraise"]]
    spec_raised = {tuple(sorted(h["fails"])): h["raised"] for h in recs}
    fail_sets = sorted(spec_raised)
    # an execution stopped early, then a failure-free one (whose slots are all comparable), then any
    pairs = [(a, (), b) for a, b in itertools.product(fail_sets, fail_sets) if a and len(a) < nd]
    ctx = mp.get_context("fork")
    wait = patience()
    n = 0
    for use_threading in (True, False):
        for hist in (pairs if ck.thorough else rng.sample(pairs, 4 if use_threading else 2)):
            gate = ctx.Event()
            discs = [mk(k, gate) for k in range(nd)]
            sig = {"what": "disc_parallel_reraise", "threads": use_threading}
            case = {"client": "DiscParallelExecution(exceptions_to_re_raise=(ValueError,))", "threads": use_threading,
                    "failing_per_execution": [list(f) for f in hist]}
            bad = []
            with PoolObserver(use_threading) as obs, contextlib.redirect_stderr(io.StringIO()):
                ex = DiscParallelExecution(discs, n_processes=nd, use_threading=use_threading, exceptions_to_re_raise=(ValueError,))
                for e, fails in enumerate(hist, 1):
                    fails = {i - 1 for i in fails}
                    gate.clear()
                    inputs = [{"x": np.array([10.0 * e + k]), "bad": np.array([1.0 if k in fails else 0.0]),
                               "hold": np.array([1.0 if fails and k not in fails else 0.0])} for k in range(nd)]
                    for d in discs:
                        d.execution_status.value = d.execution_status.Status.DONE

                    def release(ended, fails=fails):
                        if fails:
                            n0 = obs.n_put()
                            deadline = time.time() + wait
                            while obs.n_put() <= n0 and time.time() < deadline and not ended.is_set():
                                time.sleep(0.001)
                        gate.set()

                    out, exc = call_gated(lambda: ex.execute(inputs), release, 6 * wait)
                    gate.set()
                    want_raise = spec_raised[tuple(sorted(i + 1 for i in fails))]
                    if want_raise != isinstance(exc, ValueError) or (exc is not None and not isinstance(exc, ValueError)):
                        bad.append(f"execution {e}: specification raises={want_raise}, implementation: {exc!r}")
                        break
                    if want_raise:
                        continue
                    if out is None or len(out) != nd:
                        bad.append(f"execution {e}: returned {out!r} for {nd} inputs")
                        break
                    for k in range(nd):
                        y = (10.0 * e + k) * (k + 2)
                        if out[k] is None or _num(out[k], f"y{k}") != y:
                            bad.append(f"execution {e} slot {k}: returned {None if out[k] is None else dict(out[k])}, expected y{k} = {y}")
                        held = discs[k].io.data
                        if _num(held, f"y{k}") != y:
                            bad.append(f"execution {e}: discipline D{k} holds { {a: np.asarray(b).tolist() for a, b in held.items()} }")
                    if bad:
                        break
            if bad:
                ck.violation("ExecutionsIndependent", sig, dict(case, problems=bad))
            else:
                n += 1
                ck.traces += 1
    ck.extra["disc_parallel_reraise_histories"] = n


# ------------------------------------------------------------------ parallel Jacobi MDA over a history of points

def _jacobi(ck, rng):
    """MDAJacobi (a DiscParallelExecution kept for the life of the MDA, ValueError re-raised) over a history of
    points some of which make a discipline fail: at every point the parallel MDA does what the sequential one
    does (same exception or same data and residual history).  At a failing point the other discipline
    completes AFTER the failure reached the output queue (the early-stop terminal state of ParallelExec.tla
    with a result left behind), forced through the pool observer."""
    from gemseo.core.discipline import Discipline
    from gemseo.mda.jacobi import MDAJacobi

    from .c13 import patience

    ctx = mp.get_context("fork")

    def build(gate, waiting):
        class A(Discipline):
            def __init__(self):
                super().__init__(name="A")
                self.io.input_grammar.update_from_names(["x", "y2"])
                self.io.output_grammar.update_from_names(["y1"])
                self.io.input_grammar.defaults.update({"x": np.array([1.0]), "y2": np.array([0.0])})

            def _run(self, input_data):
                if input_data["x"][0] < 0:
                    raise ValueError("x < 0")
                return {"y1": input_data["x"] + 0.5 * input_data["y2"]}

        class B(Discipline):
            def __init__(self):
                super().__init__(name="B")
                self.io.input_grammar.update_from_names(["x", "y1"])
                self.io.output_grammar.update_from_names(["y2"])
                self.io.input_grammar.defaults.update({"x": np.array([1.0]), "y1": np.array([0.0])})

            def _run(self, input_data):
                if input_data["x"][0] < 0 and gate is not None:
                    waiting.set()
                    gate.wait(600)
                return {"y2": 2 * input_data["x"] + 0.125 * input_data["y1"]}

        return [A(), B()]

    def history(points, n_processes, threads, obs, wait):
        gate, waiting = (ctx.Event(), ctx.Event()) if n_processes > 1 else (None, None)
        mda = MDAJacobi(build(gate, waiting), n_processes=n_processes, use_threading=threads, max_mda_iter=4,
                        tolerance=1e-14, acceleration_method="NoTransformation")
        out = []
        for x in points:
            for d in [mda, *mda.disciplines]:
                d.execution_status.value = d.execution_status.Status.DONE
            if gate is not None:
                gate.clear()
                waiting.clear()

            def release(ended):
                if gate is None or x >= 0:
                    return
                n0 = obs.n_put()
                deadline = time.time() + wait
                # B is released once A's failure is in the output queue
                while obs.n_put() <= n0 and time.time() < deadline and not ended.is_set():
                    time.sleep(0.001)
                gate.set()

            data, exc = call_gated(lambda: mda.execute({"x": np.array([x])}), release, 6 * wait)
            if gate is not None:
                gate.set()
            if exc is not None:
                out.append(("raises", type(exc).__name__))
            else:
                out.append(("data", _num(data, "y1"), _num(data, "y2"), [float(r) for r in mda.residual_history]))
        return out

    n = 0
    hists = [[-1.0, 1.0], [1.0, -1.0, 2.0], [-1.0, -2.0, 1.0, 3.0]]
    if not ck.thorough:
        hists = hists[:2]
    for points in hists:
        with contextlib.redirect_stderr(io.StringIO()):
            want = history(points, 1, True, None, patience())
        for threads in (True, False):
            sig = {"what": "parallel_jacobi", "threads": threads}
            case = {"client": "MDAJacobi", "threads": threads, "points_x": points}
            with PoolObserver(threads) as obs, contextlib.redirect_stderr(io.StringIO()):
                ok, got = ck.guard("JacobiEquivalent", sig, history, points, 2, threads, obs, patience())
            if not ok:
                continue
            diff = [i for i, (a, b) in enumerate(zip(want, got)) if a != b]
            if diff:
                ck.violation("JacobiEquivalent", dict(sig, after_failed_point=any(p < 0 for p in points[:diff[0]])),
                             dict(case, first_differing_point=diff[0], sequential=want[diff[0]], parallel=got[diff[0]]))
            else:
                n += 1
                ck.traces += 1
    ck.extra["parallel_jacobi_histories"] = n


# ------------------------------------------------------------------ front-end and callback forms

def _double(x):
    return 100 + x


def _front_end(ck, rng, records):
    """(a) `gemseo.utils.multiprocessing.execution.execute` (used by multi-start and mNBI) for ANY number of
    workers, one included: results positional, each callback once per task with the matching index;
    (b) the forms of `exec_callback` the executor's signature accepts (a callable, a list, a tuple, a one-shot
    iterable).  Expected values: the specification's records of a failure-free execution."""
    from gemseo.core.parallel_execution.callable_parallel_execution import CallableParallelExecution
    from gemseo.utils.multiprocessing.execution import execute

    nt = 3
    n = 0
    for nw in (1, 2, 3):
        recs = [h for (_, h) in records[nw].values() if h["n"] == nt and not h["fails"]]
        if not recs:
            raise MachineryError("no failure-free record in the specification's output")
        want_out = list(recs[0]["ordered"])
        want_cb = sorted(tuple(c) for c in recs[0]["cb"])
        sig = {"what": "front_end_execute", "n_processes": nw}
        calls = []
        with contextlib.redirect_stderr(io.StringIO()):
            ok, out = ck.guard("Positional", sig, execute, _double, [lambda i, o: calls.append((i + 1, o))], nw, [1, 2, 3])
        if not ok:
            continue
        if list(out) != want_out:
            ck.violation("Positional", sig, {"spec": want_out, "impl": list(out)})
        elif sorted(calls) != want_cb:
            ck.violation("CallbackMatches", sig, {"spec": want_cb, "impl": sorted(calls), "n_processes": nw})
        else:
            n += 1
            ck.traces += 1
    recs = [h for (_, h) in records[2].values() if h["n"] == nt and not h["fails"]]
    want_cb = sorted(tuple(c) for c in recs[0]["cb"])
    for form in ("callable", "list", "tuple", "iterator", "generator"):
        for threads in (True, False):
            calls = []

            def cb(i, o):
                calls.append((i + 1, o))

            arg = {"callable": cb, "list": [cb], "tuple": (cb,), "iterator": iter([cb]), "generator": (c for c in [cb])}[form]
            sig = {"what": "callback_form", "form": form, "threads": threads}
            with contextlib.redirect_stderr(io.StringIO()):
                ok, out = ck.guard("CallbackAll", sig, lambda: CallableParallelExecution(
                    [_double], n_processes=2, use_threading=threads).execute([1, 2, 3], exec_callback=arg))
            if not ok:
                continue
            if sorted(calls) != want_cb:
                ck.violation("CallbackAll", sig, {"spec": want_cb, "impl": sorted(calls)})
            else:
                n += 1
                ck.traces += 1
    ck.extra["front_end_runs"] = n


def _deep_copy_chain(ck, rng):
    """MDOParallelChain(use_deep_copy=True, threads): every discipline works on ITS OWN copy of the input
    data, so a discipline that updates an input array in place cannot change what a sibling reads, for
    either completion order (both orders are forced with events)."""
    from gemseo.core.chains.parallel_chain import MDOParallelChain
    from gemseo.core.discipline import Discipline

    n = 0
    for first in ("inplace", "reader"):
        inplace_done = threading.Event()
        reader_done = threading.Event()

        class InPlace(Discipline):
            def __init__(self):
                super().__init__(name="InPlace")
                self.io.input_grammar.update_from_names(["x"])
                self.io.output_grammar.update_from_names(["y1"])
                self.io.input_grammar.defaults.update({"x": np.array([1.0, 2.0])})

            def _run(self, input_data):
                if first == "reader":
                    reader_done.wait(10)
                x = input_data["x"]
                x *= 2.0  # legitimate with use_deep_copy=True: the array is this discipline's own copy
                inplace_done.set()
                return {"y1": x + 1.0}

        class Reader(Discipline):
            def __init__(self):
                super().__init__(name="Reader")
                self.io.input_grammar.update_from_names(["x"])
                self.io.output_grammar.update_from_names(["y2"])
                self.io.input_grammar.defaults.update({"x": np.array([1.0, 2.0])})

            def _run(self, input_data):
                if first == "inplace":
                    inplace_done.wait(10)
                out = {"y2": input_data["x"] * 2.0}
                reader_done.set()
                return out

        sig = {"what": "parallel_chain_deep_copy", "first": first}
        chain = MDOParallelChain([InPlace(), Reader()], use_threading=True, n_processes=2, use_deep_copy=True)
        with contextlib.redirect_stderr(io.StringIO()):
            ok, out = ck.guard("ChainEquivalent", sig, chain.execute, {"x": np.array([1.0, 2.0])})
        if not ok:
            continue
        # sequential semantics: each discipline sees the chain input x = [1, 2]
        if not (np.array_equal(out["y1"], [3.0, 5.0]) and np.array_equal(out["y2"], [2.0, 4.0])):
            ck.violation("ChainEquivalent", sig, {"client": "MDOParallelChain(use_deep_copy=True)", "completes_first": first,
                                                  "y1": np.asarray(out["y1"]).tolist(), "y2": np.asarray(out["y2"]).tolist(),
                                                  "sequential": {"y1": [3.0, 5.0], "y2": [2.0, 4.0]}})
        else:
            n += 1
            ck.traces += 1
    ck.extra["parallel_chain_deep_copy_orders"] = n
