"""C13 clients: parallel DOE (ParallelDOE.tla, forced completion orders on the process back-end) and
parallel chain / linearization / finite differences compared with their sequential counterparts."""
from __future__ import annotations

import contextlib
import io
import multiprocessing as mp
import threading
import time

import numpy as np

from ..core import MachineryError
from ..tlaval import seq


def doe_cfg(n, points, nw, *, cases=False):
    s = f"CONSTANTS N = {n}\n Points = {{{', '.join(map(str, points))}}}\n NWorkers = {nw}\n"
    s += "SPECIFICATION Spec\nINVARIANT SameAsSequential\nINVARIANT OrderFixed\n"
    if cases:
        s += "INVARIANT Cases\n"
    else:
        s += "VIEW View\nPROPERTY Live\n"
    return s


PT = {1: (0.0, 0.0), 2: (1.0, 0.5), 3: (-1.0, 0.25)}


def f_val(p):
    x = PT[p]
    return (x[0] - 0.5) ** 2 + (x[1] + 0.25) ** 2


def make_problem(fail_pts=()):
    from gemseo.algos.design_space import DesignSpace
    from gemseo.algos.optimization_problem import OptimizationProblem
    from gemseo.core.mdo_functions.mdo_function import MDOFunction

    ds = DesignSpace()
    ds.add_variable("x", 2, lower_bound=-2.0, upper_bound=2.0, value=np.array([1.0, 1.0]))
    problem = OptimizationProblem(ds)
    inv = {v: k for k, v in PT.items()}

    def f(x):
        p = inv[(float(x[0]), float(x[1]))]
        if p in fail_pts:
            raise ValueError(f"boom {p}")
        return (x[0] - 0.5) ** 2 + (x[1] + 0.25) ** 2

    problem.objective = MDOFunction(f, "f", jac=lambda x: np.array([2 * (x[0] - 0.5), 2 * (x[1] + 0.25)]))
    problem.add_constraint(
        MDOFunction(lambda x: np.array([x[0] + x[1] - 0.125]), "c", jac=lambda x: np.array([[1.0, 1.0]])),
        constraint_type="ineq")
    return problem


def dump_db(problem):
    out = []
    for k, d in problem.database.items():
        out.append((tuple(float(v) for v in k.wrapped_array),
                    {n: np.round(np.ravel(v), 12).tolist() for n, v in sorted(d.items())}))
    return out


def run_doe_forced(samples, fail_pts, order, nw, step_timeout=10.0):
    """samples: list of point ids (1-based positions in `order`)."""
    from gemseo.algos.doe.factory import DOELibraryFactory

    ctx = mp.get_context("fork")
    occ_of = {}
    seen = {}
    for i, p in enumerate(samples, 1):
        occ_of[i] = (p, seen.get(p, 0))
        seen[p] = seen.get(p, 0) + 1
    keys = list(occ_of.values())
    gates = {k: ctx.Event() for k in keys}
    started = {k: ctx.Event() for k in keys}
    finished = {k: ctx.Event() for k in keys}
    tickets = {p: ctx.Value("i", 0) for p in set(samples)}
    problem = make_problem(fail_pts)
    inv = {v: k for k, v in PT.items()}
    arr = np.array([PT[p] for p in samples])
    problems = []

    def controller():
        for i in order:
            k = occ_of[i]
            if not started[k].wait(step_timeout):
                problems.append(f"task {i} (point {k[0]}) never started although the specification allows it to complete now")
                break
            gates[k].set()
            finished[k].wait(step_timeout)
            time.sleep(0.01)
        for g in gates.values():
            g.set()

    th = threading.Thread(target=controller, daemon=True)
    res = {}
    with contextlib.redirect_stderr(io.StringIO()):
        th.start()
        try:
            lib = DOELibraryFactory().create("CustomDOE")
            inner = lib._worker

            # test double at task level (one call per task, whatever the sub-process database memoizes):
            # report the start, wait for the gate, run the real worker, report the end
            def gated_worker(x):
                p = inv[(float(x[0]), float(x[1]))]
                with tickets[p].get_lock():
                    occ = tickets[p].value
                    tickets[p].value += 1
                started[(p, occ)].set()
                gates[(p, occ)].wait(30)
                try:
                    return inner(x)
                finally:
                    finished[(p, occ)].set()

            lib._worker = gated_worker
            lib.execute(problem, samples=arr, n_processes=nw, eval_jac=True)
        except BaseException as e:  # noqa: BLE001
            res["error"] = e
        for g in gates.values():
            g.set()
        th.join(30)
    return problem, res, problems


def run_doe_seq(samples, fail_pts):
    from gemseo.algos.doe.factory import DOELibraryFactory

    problem = make_problem(fail_pts=fail_pts)
    arr = np.array([PT[p] for p in samples])
    with contextlib.redirect_stderr(io.StringIO()):
        DOELibraryFactory().execute(problem, algo_name="CustomDOE", samples=arr, eval_jac=True)
    return problem


def run(ck, rng):
    # ---- ParallelDOE: model checking + forced completion orders on the real parallel DOE
    n = 4 if ck.thorough else 3
    pts = [1, 2, 3]
    ck.tlc("ParallelDOE", doe_cfg(n, pts, 2), workers=4, deadlock=False,
           require_actions=("PreSeed", "Start", "Complete", "RemoveEmpty"))
    if ck.thorough:
        ck.tlc("ParallelDOE", doe_cfg(4, pts, 3), workers=8, deadlock=False)
    r = ck.tlc("ParallelDOE", doe_cfg(3, pts, 2, cases=True), workers=1, deadlock=False, count=False, coverage=False)
    cases = {}
    for v in r.printed():
        if isinstance(v, tuple) and v and v[0] == "DOE":
            _, samples, fail_pts, order, expect = v
            cases[(tuple(seq(samples)), fail_pts, tuple(order))] = tuple(seq(expect))
    if not cases:
        raise MachineryError("ParallelDOE printed no case")
    items = sorted(cases.items(), key=lambda kv: (kv[0][0], sorted(kv[0][1]), kv[0][2]))
    # non-trivial cases: a completion order different from the identity, or a failing/duplicated sample
    nontrivial = [it for it in items if it[0][2] != tuple(sorted(it[0][2])) or it[0][1] or len(set(it[0][0])) < len(it[0][0])]
    k = 60 if ck.thorough else 14

    def naive(it):
        (samples, fail_pts, order), expect = it
        out = []
        for i in order:
            p = samples[i - 1]
            if p not in fail_pts and p not in out:
                out.append(p)
        return tuple(out)

    # order-sensitive: storing in completion order would give another database than the sequential one
    sensitive = [it for it in nontrivial if naive(it) != it[1]]
    ck.extra["parallel_doe_order_sensitive_cases_in_model"] = len(sensitive)
    chosen = rng.sample(sensitive, min(k - k // 4, len(sensitive)))
    rest = [it for it in nontrivial if it not in chosen]
    chosen += rng.sample(rest, min(k // 4, len(rest)))
    ck.extra["parallel_doe_cases_in_model"] = len(items)
    ck.extra["parallel_doe_cases_replayed"] = len(chosen)
    seq_cache = {}
    for (samples, fail_pts, order), expect in chosen:
        case = {"samples": list(samples), "fail_points": sorted(fail_pts), "completion_order": list(order),
                "expected_keys": list(expect)}
        ck.sample(case, limit=8)
        sig = {"what": "parallel_doe"}
        problem, res, problems = run_doe_forced(list(samples), set(fail_pts), list(order), 2)
        if "error" in res:
            ck.violation("DoeTerminates", dict(sig, exception=type(res["error"]).__name__), dict(case, error=repr(res["error"])))
            continue
        if problems:
            ck.violation("ScheduleAdmissible", sig, dict(case, problems=problems))
            continue
        got = dump_db(problem)
        want_keys = [PT[p] for p in expect]
        if [g[0] for g in got] != want_keys:
            ck.violation("SameAsSequential", sig, dict(case, impl_keys=[g[0] for g in got], spec_keys=want_keys))
            continue
        bad = [g for g, p in zip(got, expect) if abs(g[1]["f"][0] - f_val(p)) > 1e-12 or "@f" not in g[1] or "c" not in g[1]]
        if bad:
            ck.violation("SameAsSequential", dict(sig, part="values"), dict(case, impl=bad))
            continue
        key = (samples, fail_pts)
        if key not in seq_cache:
            seq_cache[key] = dump_db(run_doe_seq(list(samples), set(fail_pts)))
        if got != seq_cache[key]:
            ck.violation("SameAsSequential", dict(sig, part="vs_sequential_run"), dict(case, parallel=got, sequential=seq_cache[key]))
            continue
        ck.traces += 1
    _shared_cache(ck, rng)
    # ---- parallel chain / linearization / finite differences vs sequential
    _chains(ck, rng)
    _disc_parallel(ck, rng)
    _deep_copy_chain(ck, rng)
    _fd(ck, rng)


def _disc(name, ins, outs, coef):
    from gemseo.core.discipline import Discipline

    class L(Discipline):
        def __init__(self):
            super().__init__(name=name)
            self.io.input_grammar.update_from_names(ins)
            self.io.output_grammar.update_from_names(outs)
            self.io.input_grammar.defaults.update({i: np.array([1.0, 2.0]) for i in ins})

        def _run(self, input_data):
            s = sum(input_data[i] for i in ins)
            return {o: coef * (k + 1) * s + k for k, o in enumerate(outs)}

        def _compute_jacobian(self, input_names=(), output_names=()):
            self.jac = {o: {i: coef * (k + 1) * np.eye(2) for i in ins} for k, o in enumerate(outs)}

    return L()


def _chains(ck, rng):
    from gemseo.core.chains.parallel_chain import MDOParallelChain

    n = 0
    for use_threading in (True, False):
        for trial in range(3 if ck.thorough else 1):
            specs = [("A", ["x"], ["ya", "za"], 2.0), ("B", ["x", "u"], ["yb"], -3.0), ("C", ["u"], ["yc"], 0.5),
                     ("D", ["x"], ["yd"], 4.0)]
            rng.shuffle(specs)
            data = {"x": np.array([rng.randint(-3, 3), 1.0]), "u": np.array([0.5, rng.randint(-2, 2)])}
            case = {"client": "MDOParallelChain", "threads": use_threading, "order": [s[0] for s in specs]}
            sig = {"what": "parallel_chain", "threads": use_threading}
            par = MDOParallelChain([_disc(*s) for s in specs], use_threading=use_threading, n_processes=3)
            ok, out = ck.guard("ChainEquivalent", sig, par.execute, data)
            if not ok:
                continue
            want = {}
            wjac = {}
            for s in specs:
                d = _disc(*s)
                want.update({k: v for k, v in d.execute(data).items() if k in s[2]})
                j = d.linearize(data, compute_all_jacobians=True)
                wjac.update(j)
            bad = [k for k in want if not np.array_equal(np.asarray(out[k]), np.asarray(want[k]))]
            if bad:
                ck.violation("ChainEquivalent", sig, dict(case, differing_outputs=bad))
                continue
            par.add_differentiated_inputs(["x", "u"])
            par.add_differentiated_outputs(list(want))
            ok, jac = ck.guard("ChainEquivalent", dict(sig, part="linearize"), par.linearize, data)
            if not ok:
                continue
            badj = []
            for o in want:
                for i in ("x", "u"):
                    w = wjac[o].get(i)
                    g = jac.get(o, {}).get(i)
                    if w is None:
                        if g is not None and np.any(np.asarray(g.toarray() if hasattr(g, "toarray") else g) != 0):
                            badj.append((o, i))
                        continue
                    if g is None or not np.array_equal(np.asarray(g.toarray() if hasattr(g, "toarray") else g), w):
                        badj.append((o, i))
            if badj:
                ck.violation("ChainEquivalent", dict(sig, part="jacobian"), dict(case, differing_blocks=badj))
                continue
            n += 1
            ck.traces += 1
    ck.extra["parallel_chain_runs"] = n


def _fd(ck, rng):
    from gemseo.utils.derivatives.finite_differences import FirstOrderFD

    def f(x):
        return np.array([x[0] ** 2 + 3 * x[1], x[0] * x[1] - x[2], 2.0 * x[2] ** 2])

    n = 0
    for trial in range(4 if ck.thorough else 2):
        x = np.array([rng.randint(-4, 4) / 2, rng.randint(-4, 4) / 2, rng.randint(-4, 4) / 2])
        serial = FirstOrderFD(f, step=2.0 ** -8).f_gradient(x)
        sig = {"what": "parallel_fd", "threads": False}
        ok, par = ck.guard("FDEquivalent", sig, lambda: FirstOrderFD(f, step=2.0 ** -8, parallel=True, n_processes=3).f_gradient(x))
        if not ok:
            continue
        if not np.array_equal(np.asarray(par), np.asarray(serial)):
            ck.violation("FDEquivalent", sig, {"x": x.tolist(), "serial": np.asarray(serial).tolist(), "parallel": np.asarray(par).tolist()})
            continue
        n += 1
        ck.traces += 1
    ck.extra["parallel_fd_runs"] = n


def sc_cfg(nw, inputs, *, sched=False):
    s = f"CONSTANTS NWorkers = {nw}\n Inputs = {{{', '.join(map(str, inputs))}}}\nSPECIFICATION Spec\n"
    for i in ("EntriesOwnData", "GetOwnData", "SameAsSequential", "NoDuplicates"):
        s += f"INVARIANT {i}\n"
    s += "INVARIANT Schedules\n" if sched else "VIEW View\nPROPERTY Live\n"
    return s


def _shared_cache(ck, rng):
    """SharedCache.tla: every interleaving of the cache calls of workers sharing one full cache.  Each
    public cache method is atomic (cache lock), so performing the calls in the model's order on the
    real cache object IS the schedule."""
    from gemseo.caches.hdf5_cache import HDF5Cache
    from gemseo.caches.memory_full_cache import MemoryFullCache

    ck.tlc("SharedCache", sc_cfg(2, [1, 2]), workers=2, deadlock=False,
           require_actions=("Get", "CacheOutputs", "CacheJacobian"))
    ck.tlc("SharedCache", sc_cfg(3, [1, 2]), workers=4, deadlock=False, timeout=900)
    r = ck.tlc("SharedCache", sc_cfg(2, [1, 2], sched=True), workers=1, deadlock=False, count=False, coverage=False)
    scheds = []
    for v in r.printed():
        if isinstance(v, tuple) and v and v[0] == "SCHED":
            scheds.append((tuple(seq(v[1])), tuple(v[2]), tuple((e["in"], e["out"], e["jac"]) for e in seq(v[3]))))
    scheds = sorted(set(scheds))
    if not scheds:
        raise MachineryError("SharedCache printed no schedule")
    inp = lambda v: {"a": np.array([float(v), 1.0]), "b": np.array([2.0 * v])}  # noqa: E731
    out = lambda v: {"y": np.array([10.0 * v, 1.0 + v])}  # noqa: E731
    jac = lambda v: {"y": {"a": np.array([[1.0 * v, 0.0], [0.0, 2.0 * v]]), "b": np.array([[3.0 * v], [4.0]])}}  # noqa: E731

    def own(entry, v):
        """0 if the group is absent, v if it is v's data, -1 otherwise."""
        o = entry.outputs
        j = entry.jacobian
        ro = 0 if not o else (v if np.array_equal(o["y"], out(v)["y"]) else -1)
        rj = 0 if not j else (v if all(np.array_equal(np.asarray(j["y"][k]), jac(v)["y"][k]) for k in ("a", "b")) else -1)
        return ro, rj

    n = 0
    kinds = [("MemoryFullCache", lambda: MemoryFullCache()), ("MemoryFullCacheLocal", lambda: MemoryFullCache(is_memory_shared=False))]
    for kind, mk in kinds + [("HDF5Cache", None)]:
        if mk is None:
            todo = rng.sample(scheds, min(len(scheds), 120 if ck.thorough else 25))
        elif kind.endswith("Local") and not ck.thorough:
            todo = rng.sample(scheds, min(len(scheds), 250))
        else:
            todo = scheds
        for xs, sched, entries in todo:
            if mk is None:
                n_h5 = len(list(ck.work.glob("sc*.h5")))
                cache = HDF5Cache(hdf_file_path=str(ck.work / f"sc{n_h5}.h5"), hdf_node_path="node")
            else:
                cache = mk()
            sig = {"what": "shared_cache", "cache": kind}
            case = {"cache": kind, "inputs": list(xs), "schedule": [list(s) for s in sched]}
            if n < 2:
                ck.sample(case, limit=12)
            bad = None
            try:
                for w, op in sched:
                    v = xs[w - 1]
                    if op == "out":
                        cache.cache_outputs(inp(v), out(v))
                    elif op == "jac":
                        cache.cache_jacobian(inp(v), jac(v))
                    else:
                        ro, rj = own(cache[inp(v)], v)
                        if ro not in (0, v) or rj not in (0, v):
                            bad = f"worker {w} (input {v}) was served another input's data: outputs {ro}, jacobian {rj}"
                            break
                if bad is None:
                    got = []
                    for e in cache.get_all_entries():
                        v = int(e.inputs["a"][0])
                        got.append((v,) + own(e, v))
                    want = list(entries)
                    if sorted(got) != sorted(want):
                        bad = f"final entries impl {sorted(got)} spec {sorted(want)}"
            except Exception as ex:  # noqa: BLE001
                bad = f"exception {ex!r}"
                sig["exception"] = type(ex).__name__
            if bad:
                ck.violation("SharedCacheSameAsSequential", sig, dict(case, problem=bad))
            else:
                n += 1
                ck.traces += 1
    ck.extra["shared_cache_schedules_in_model"] = len(scheds)
    ck.extra["shared_cache_schedules_replayed"] = n
    _shared_cache_processes(ck, rng, scheds, inp, out, jac, own)


def _shared_cache_processes(ck, rng, scheds, inp, out, jac, own):
    """The same schedules with the workers in SEPARATE PROCESSES (fork) that inherited one cache object
    (shared-memory MemoryFullCache, HDF5Cache): worker w performs its own calls, in the model's global
    order (a controller sends one command at a time over a pipe and waits for the acknowledgement)."""
    from gemseo.caches.hdf5_cache import HDF5Cache
    from gemseo.caches.memory_full_cache import MemoryFullCache

    ctx = mp.get_context("fork")

    def worker(conn, cache, v):
        import logging
        logging.disable(logging.CRITICAL)
        while True:
            op = conn.recv()
            try:
                if op == "stop":
                    conn.send("bye")
                    return
                if op == "out":
                    cache.cache_outputs(inp(v), out(v))
                    conn.send(("ok", None))
                elif op == "jac":
                    cache.cache_jacobian(inp(v), jac(v))
                    conn.send(("ok", None))
                else:
                    conn.send(("ok", own(cache[inp(v)], v)))
            except Exception as ex:  # noqa: BLE001
                conn.send(("exc", repr(ex)))

    n = 0
    plan = [("MemoryFullCache", 40 if ck.thorough else 10), ("HDF5Cache", 40 if ck.thorough else 10)]
    for kind, k in plan:
        for xs, sched, entries in rng.sample(scheds, min(k, len(scheds))):
            if kind == "HDF5Cache":
                n_h5 = len(list(ck.work.glob("scp*.h5")))
                cache = HDF5Cache(hdf_file_path=str(ck.work / f"scp{n_h5}.h5"), hdf_node_path="node")
            else:
                cache = MemoryFullCache()
            sig = {"what": "shared_cache_processes", "cache": kind}
            case = {"cache": kind, "backend": "processes", "inputs": list(xs), "schedule": [list(s) for s in sched]}
            pipes, procs = {}, []
            for w, v in enumerate(xs, 1):
                a, b = ctx.Pipe()
                pr = ctx.Process(target=worker, args=(b, cache, v), daemon=True)
                pr.start()
                pipes[w] = a
                procs.append(pr)
            bad = None
            for w, op in sched:
                pipes[w].send(op)
                if not pipes[w].poll(30):
                    bad = f"worker {w} did not answer to {op}"
                    break
                status, val = pipes[w].recv()
                if status == "exc":
                    bad = f"worker {w} {op}: {val}"
                    sig["exception"] = val.split("(")[0]
                    break
                if op == "get" and (val[0] not in (0, xs[w - 1]) or val[1] not in (0, xs[w - 1])):
                    bad = f"worker {w} (input {xs[w - 1]}) was served another input's data: {val}"
                    break
            for w in pipes:
                try:
                    pipes[w].send("stop")
                except Exception:  # noqa: BLE001
                    pass
            for pr in procs:
                pr.join(10)
                if pr.is_alive():
                    pr.kill()
            if bad is None:
                try:
                    got = []
                    for e in cache.get_all_entries():
                        v = int(e.inputs["a"][0])
                        got.append((v,) + own(e, v))
                    if sorted(got) != sorted(entries):
                        bad = f"final entries impl {sorted(got)} spec {sorted(entries)}"
                except Exception as ex:  # noqa: BLE001
                    bad = f"exception reading the cache in the parent: {ex!r}"
                    sig["exception"] = type(ex).__name__
            if bad:
                ck.violation("SharedCacheSameAsSequential", sig, dict(case, problem=bad))
            else:
                n += 1
                ck.traces += 1
    ck.extra["shared_cache_process_schedules_replayed"] = n


def _disc_parallel(ck, rng):
    """DiscParallelExecution / DiscParallelLinearization with one discipline per input: for every subset
    of failing disciplines (the `fails` sets of ParallelExec.tla) the returned list is positionally
    matched and EACH DISCIPLINE holds its own outputs afterwards (a failure affects only its own slot) -
    the state a sequential loop over the disciplines leaves."""
    import itertools

    from gemseo.core.discipline import Discipline
    from gemseo.core.parallel_execution.disc_parallel_execution import DiscParallelExecution

    def mk(k, fail):
        class D(Discipline):
            def __init__(self):
                super().__init__(name=f"D{k}")
                self.io.input_grammar.update_from_names(["x"])
                self.io.output_grammar.update_from_names([f"y{k}"])
                self.io.input_grammar.defaults.update({"x": np.array([0.0])})

            def _run(self, input_data):
                if fail:
                    raise ValueError(f"D{k} fails")
                return {f"y{k}": input_data["x"] * (k + 2)}

        return D()

    n = 0
    nd = 3
    subsets = [set(c) for r in range(nd + 1) for c in itertools.combinations(range(nd), r)]
    for use_threading in (True, False):
        todo = subsets if (ck.thorough or use_threading) else rng.sample(subsets, 3)
        for fails in todo:
            discs = [mk(k, k in fails) for k in range(nd)]
            inputs = [{"x": np.array([10.0 + k])} for k in range(nd)]
            sig = {"what": "disc_parallel_execution", "threads": use_threading}
            case = {"client": "DiscParallelExecution", "threads": use_threading, "failing": sorted(fails)}
            with contextlib.redirect_stderr(io.StringIO()):
                ok, out = ck.guard("DiscParallelSlotIsolation", sig,
                                   lambda: DiscParallelExecution(discs, n_processes=2, use_threading=use_threading).execute(inputs))
            if not ok:
                continue
            bad = []
            for k in range(nd):
                want = None if k in fails else {"x": 10.0 + k, f"y{k}": (10.0 + k) * (k + 2)}
                got = out[k]
                if want is None:
                    if got is not None:
                        bad.append(f"slot {k}: expected None (failed), got data")
                    continue
                if got is None or float(got[f"y{k}"][0]) != want[f"y{k}"]:
                    bad.append(f"slot {k}: returned {None if got is None else dict(got)}")
                held = discs[k].io.data
                if f"y{k}" not in held or float(held[f"y{k}"][0]) != want[f"y{k}"] or float(held["x"][0]) != want["x"]:
                    bad.append(f"discipline D{k} holds { {a: np.asarray(b).tolist() for a, b in held.items()} } instead of its own outputs")
            if bad:
                ck.violation("DiscParallelSlotIsolation", sig, dict(case, problems=bad))
            else:
                n += 1
                ck.traces += 1
    ck.extra["disc_parallel_execution_runs"] = n


def _deep_copy_chain(ck, rng):
    """MDOParallelChain(use_deep_copy=True, threads): every discipline works on ITS OWN copy of the input
    data, so a discipline that updates an input array in place cannot change what a sibling reads, for
    either completion order (both orders are forced with events)."""
    from gemseo.core.chains.parallel_chain import MDOParallelChain
    from gemseo.core.discipline import Discipline

    n = 0
    for first in ("inplace", "reader"):
        inplace_done = threading.Event()
        reader_done = threading.Event()

        class InPlace(Discipline):
            def __init__(self):
                super().__init__(name="InPlace")
                self.io.input_grammar.update_from_names(["x"])
                self.io.output_grammar.update_from_names(["y1"])
                self.io.input_grammar.defaults.update({"x": np.array([1.0, 2.0])})

            def _run(self, input_data):
                if first == "reader":
                    reader_done.wait(10)
                x = input_data["x"]
                x *= 2.0  # legitimate with use_deep_copy=True: the array is this discipline's own copy
                inplace_done.set()
                return {"y1": x + 1.0}

        class Reader(Discipline):
            def __init__(self):
                super().__init__(name="Reader")
                self.io.input_grammar.update_from_names(["x"])
                self.io.output_grammar.update_from_names(["y2"])
                self.io.input_grammar.defaults.update({"x": np.array([1.0, 2.0])})

            def _run(self, input_data):
                if first == "inplace":
                    inplace_done.wait(10)
                out = {"y2": input_data["x"] * 2.0}
                reader_done.set()
                return out

        sig = {"what": "parallel_chain_deep_copy", "first": first}
        chain = MDOParallelChain([InPlace(), Reader()], use_threading=True, n_processes=2, use_deep_copy=True)
        with contextlib.redirect_stderr(io.StringIO()):
            ok, out = ck.guard("ChainEquivalent", sig, chain.execute, {"x": np.array([1.0, 2.0])})
        if not ok:
            continue
        # sequential semantics: each discipline sees the chain input x = [1, 2]
        if not (np.array_equal(out["y1"], [3.0, 5.0]) and np.array_equal(out["y2"], [2.0, 4.0])):
            ck.violation("ChainEquivalent", sig, {"client": "MDOParallelChain(use_deep_copy=True)", "completes_first": first,
                                                  "y1": np.asarray(out["y1"]).tolist(), "y2": np.asarray(out["y2"]).tolist(),
                                                  "sequential": {"y1": [3.0, 5.0], "y2": [2.0, 4.0]}})
        else:
            n += 1
            ck.traces += 1
    ck.extra["parallel_chain_deep_copy_orders"] = n
