"""Clients of the parallel executor compared with their sequential counterparts (filled in below)."""


def run(ck, rng):
    return
