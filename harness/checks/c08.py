"""C08 - execution sequences respect data dependencies; composition is exact.

DepGraph.tla enumerates the systems (all directed dependency graphs on <= 3 disciplines with self-loops,
isolated nodes, every listing order, with/without private variables, duplicated names; n = 4 exhaustively
or sampled; name-set systems over a small universe), checks the code-shaped construction "peel the leaves
of the condensation, reverse" against the relation ValidSequence and the composition theorems, and prints
every instance with the simultaneous solution it computed.  Each instance becomes real gemseo disciplines;
what CouplingStructure / DependencyGraph / MDAChain / MDOChain / MDOParallelChain / MDOInitializationChain
return is fed back to TLC (DepGraphReport.tla) which evaluates the relation, the documented coupling sets
and the exactness of the executed data and prints the set of failed clauses per instance.

MDAChain options (kind "mdaopt"): DepGraph.tla defines which groups of a valid sequence get an inner MDA
(NeedsMDA), whose structure the k-th user-provided sub coupling structure is (UserStructures, InnerMDAPlan),
the option space of MDAChain_Settings (MDAOptionSpace: inner MDA class, sub_coupling_structures,
coupling_structure, mdachain_parallelize_tasks, chain_linearize, initialize_defaults with complete / partial
defaults, n_processes) and the evaluation of the chain under the semantic options (MDAChainEval, theorem
MDAChainOptionsTheorem: always Mono).  TLC selects a pseudo-random part of the option space per instance
(SelectedOptions, printed in the CASE record); each selected record is one more MDAChain construction and
execution, judged by OptClauses of DepGraphReport.tla (Exact, ExecutionOrder, InnerMDAs, InnerMDAOrder,
InnerStructures; Applicable / UserStructures check the harness itself).
"""
from __future__ import annotations

import json
import multiprocessing as mp
import os
from concurrent.futures import ThreadPoolExecutor

from ..core import Check, MachineryError, main, run_tlc
from . import c08_impl as impl

THEOREMS = ["SCCPartition", "CondensationAcyclic", "PeelInv", "ConstructionValid", "ScheduleRespectsDependencies",
            "NoEmptyStage",
            "CouplingFacts", "Nilpotent", "CompositionTheorem", "InitChainTheorem",
            "MDAGroupsTheorem", "InitDefaultsTheorem", "MDAChainOptionsTheorem"]
ACTIONS = ("Build", "Condense", "Peel", "Reverse")
# the models are small: a 2 GB heap is plenty (other checks run on the same machine); deeper thread stacks for
# the recursive operators evaluated under -coverage
JVM = {"JAVA_TOOL_OPTIONS": "-XX:+UseParallelGC -Xmx2g -Xss16m"}


def consts(fam="E", nmin=1, nmax=3, order="all", loops="all", privs=(True, False), dups=(False,), uk=2,
           mod=1, key=0, pick=0, emit=False, ninner=5, optmod=0):
    b = lambda xs: "{" + ", ".join("TRUE" if x else "FALSE" for x in xs) + "}"  # noqa: E731
    return (f'CONSTANTS\n Fam = "{fam}"\n NMin = {nmin}\n NMax = {nmax}\n OrderMode = "{order}"\n'
            f' LoopMode = "{loops}"\n Privs = {b(privs)}\n Dups = {b(dups)}\n UK = {uk}\n'
            f' SampleMod = {mod}\n SampleKey = {key}\n Pick = {pick}\n Emit = {"TRUE" if emit else "FALSE"}\n'
            f' NInner = {ninner}\n OptMod = {optmod}\n')


def cfg(theorems=True, **kw):
    s = consts(**kw) + "SPECIFICATION Spec\nCONSTRAINT Depth\nCHECK_DEADLOCK FALSE\n"
    if theorems:
        s += "".join(f"INVARIANT {i}\n" for i in THEOREMS)
    return s


def report_cfg():
    return consts() + "INIT RInit\nNEXT RNext\nINVARIANT Verdict\nCHECK_DEADLOCK FALSE\n"


def plan(ck: Check):
    """The instance sets of this tier: (label, constants, emit?, kinds of execution)."""
    key = ck.seed % 1009
    full = ("mdachain", "chain", "parchain", "initchain")
    runs = []
    if not ck.thorough:
        # every graph on <= 3 disciplines, self-loops, all listing orders, private x_d / y_d
        runs.append(("E<=3", dict(nmin=1, nmax=3, privs=(True,), optmod=479), True, ("mdachain", "chain", "initchain")))
        # the same graphs without private variables (empty grammars, isolated disciplines without data)
        runs.append(("E<=3 bare", dict(nmin=1, nmax=3, privs=(False,), order="id"), True, full))
        # duplicated discipline names (sample)
        runs.append(("E<=3 dup", dict(nmin=2, nmax=3, privs=(True,), dups=(True,), mod=7, key=key), True, ("mdachain",)))
        # n = 4: sampled with self-loops, rotations of the listing order
        runs.append(("E4 sample", dict(nmin=4, nmax=4, order="rot", privs=(True,), mod=401, key=key, optmod=157), True,
                     ("mdachain", "chain", "initchain")))
        # name sets over {a, b}: shared variables, fan-out, several producers
        runs.append(("N<=2x2", dict(fam="N", nmin=1, nmax=2, uk=2), True, full))
        runs.append(("N3x2 sample", dict(fam="N", nmin=3, nmax=3, uk=2, mod=5, key=key, optmod=239), True, full))
        # beyond the exhaustive sizes: 5 disciplines, codes spread over the 2^25 graphs
        runs.append(("E5 sample", dict(nmin=5, nmax=5, order="id", privs=(True,), pick=150, key=key, optmod=79), True,
                     ("mdachain", "initchain")))
        # theorems only (no replay, checked while the real code runs): every edge set on 4 disciplines
        runs.append(("E4 theorems", dict(nmin=4, nmax=4, order="id", loops="none", privs=(True,)), False, ()))
    else:
        runs.append(("E<=3", dict(nmin=1, nmax=3, optmod=157), True, full + ("mdachain_gs", "mdachain_par")))
        runs.append(("E<=3 dup", dict(nmin=2, nmax=3, privs=(True,), dups=(True,)), True, ("mdachain", "chain")))
        runs.append(("E4 no self-loop", dict(nmin=4, nmax=4, order="rot", loops="none", privs=(True,), optmod=479), True,
                     ("mdachain", "chain", "parchain", "initchain")))
        runs.append(("E4 self-loops sample", dict(nmin=4, nmax=4, order="rot", mod=53, key=key, optmod=157),
                     True, ("mdachain", "chain", "initchain")))
        runs.append(("N<=2x3", dict(fam="N", nmin=1, nmax=2, uk=3, optmod=157), True, full))
        runs.append(("N3x2", dict(fam="N", nmin=3, nmax=3, uk=2, optmod=157), True, full))
        runs.append(("N3x3 sample", dict(fam="N", nmin=3, nmax=3, uk=3, mod=41, key=key, optmod=157), True, full))
        # theorems only (no replay): every one of the 65 536 graphs with self-loops on 4 disciplines
        runs.append(("E4 theorems", dict(nmin=4, nmax=4, order="id", privs=(True,)), False, ()))
        runs.append(("E5 sample", dict(nmin=5, nmax=5, order="rot", privs=(True,), pick=600, key=key, optmod=97), True,
                     ("mdachain", "chain", "initchain")))
        runs.append(("N3x4 sample", dict(fam="N", nmin=3, nmax=3, uk=4, pick=3000, key=key), True, full))
    only = os.environ.get("VERIF_C08_ONLY")
    if only:
        runs = [r for r in runs if r[0] in only.split(",")]
    return runs


def sig_of(case, tag, clause):
    return {"what": tag, "clause": clause, "fam": case["code"]["fam"], "n": case["n"]}


def run(ck: Check):
    n_proc = min(12 if ck.thorough else 8, os.cpu_count() or 2)
    n_proc = int(os.environ.get("VERIF_C08_PROCS") or n_proc)
    tw = 2 if os.environ.get("VERIF_C08_PROCS") else 4      # TLC workers (fewer when a builder shares the machine)
    cases: list = []      # (case, kinds)
    sets = ck.extra.setdefault("instance_sets", {})
    # worker processes for the real code: forked now, before any thread exists, with gemseo already imported
    impl.warm_up()
    pool = mp.get_context("fork").Pool(n_proc)

    def theorems_only(label, kw):
        # same bookkeeping as Check.tlc, in a work directory of its own (it runs beside the other TLC runs)
        r = run_tlc("DepGraph", cfg(**kw), ck.work / "theorems", workers=2 if os.environ.get("VERIF_C08_PROCS") else 8,
                    timeout=1700, env=JVM)
        ck.tlc_runs.append({"module": "DepGraph", "distinct": r.distinct, "generated": r.generated, "depth": r.depth,
                            "wall_s": round(r.wall, 2), "coverage": {k: v[0] for k, v in r.coverage.items()},
                            "set": label})
        if r.error or r.rc != 0 or r.violated:
            raise MachineryError(f"TLC failed on DepGraph ({label}): {r.violated or r.error or r.out[-2000:]}")
        for a in ACTIONS:
            if r.coverage.get(a, [0, 0])[0] == 0:
                raise MachineryError(f"vacuity: action {a} of DepGraph never taken ({label})")
        ck.states += r.distinct
        ck.transitions += r.generated
        sets[label] = {"instances": _count_init(r), "replayed": 0}

    # the theorem-only sets do not feed the replay: TLC checks them while the real code is being run
    background = ThreadPoolExecutor(max_workers=1)
    pending = [background.submit(theorems_only, label, kw) for label, kw, emit, _ in plan(ck) if not emit]
    for label, kw, emit, kinds in plan(ck):
        if not emit:
            continue
        r = ck.tlc("DepGraph", cfg(emit=True, **kw), workers=tw, timeout=1500, require_actions=ACTIONS + ("EmitCase",),
                   env=JVM)
        got = [impl.case_from_tlc(v) for v in r.printed() if isinstance(v, tuple) and v and v[0] == "CASE"]
        n_init = _count_init(r)
        if not got or len(got) != n_init:
            raise MachineryError(f"{label}: {len(got)} CASE records parsed for {n_init} instances")
        sets[label] = {"instances": n_init, "replayed": len(got)}
        got.sort(key=lambda c: json.dumps(c["code"], sort_keys=True))   # TLC's workers print in any order
        for c in got:
            ks = [k for k in kinds if c["consistent"] and (k not in ("chain", "parchain") or c["singletons"])]
            # MDAChain under the option records TLC selected for this instance (SelectedOptions)
            ks += [("mdaopt", o, j + 1) for j, o in enumerate(c["opts"])]
            c["sel"] = [kw.get("optmod", 0), kw.get("ninner", 5), kw.get("key", 0)]
            cases.append((c, ks))
    # ---- the real code, in worker processes
    jobs = [(i + 1, c, ks) for i, (c, ks) in enumerate(cases)]
    chunk = 64
    chunks = [jobs[i:i + chunk] for i in range(0, len(jobs), chunk)]
    with pool:
        reports = [rep for part in pool.map(impl.observe_many, chunks) for rep in part]
    # ---- the specification decides
    by_id = {rep["id"]: rep for rep in reports}
    n_runs = 0
    batch = 4000
    for b0 in range(0, len(reports), batch):
        part = reports[b0:b0 + batch]
        f = ck.work / f"reports-{b0}.json"
        f.write_text(json.dumps([dict({k: v for k, v in rep.items() if k != "errors"},
                                      sel=cases[rep["id"] - 1][0]["sel"]) for rep in part]))
        r = ck.tlc("DepGraphReport", report_cfg(), workers=tw, timeout=1500, env=dict(JVM, REPORT_FILE=str(f)),
                   coverage=False, count=False)
        ck.states += r.distinct
        ck.transitions += r.generated
        verdicts = {v[1]: v[2] for v in r.printed() if isinstance(v, tuple) and v and v[0] == "VERDICT"}
        for rep in part:
            if rep["id"] not in verdicts:
                raise MachineryError(f"no verdict for report {rep['id']}")
            case = cases[rep["id"] - 1][0]
            failed = sorted(tuple(x) for x in verdicts[rep["id"]])
            ck.traces += 1
            n_runs += len(rep["runs"])
            for tag, clause in failed:
                if clause in ("Applicable", "UnknownKind"):
                    raise MachineryError(f"the harness requested {tag} on an instance outside its scope: {case['code']}")
                detail = {"code": case["code"], "names": case["name"], "ins": case["ins"], "outs": case["outs"],
                          "failed_clauses": [list(x) for x in failed]}
                if tag in ("sequence", "dgsequence", "couplings", "structure"):
                    detail["reported"] = {k: rep[k] for k in ("status", "seq", "dgseq", "strong", "weak", "all", "scd",
                                                              "wcd", "sgroups")}
                    if "structure" in rep["errors"]:
                        detail["traceback"] = rep["errors"]["structure"]
                else:
                    run_ = next(x for x in rep["runs"] if x.get("tag", x["kind"]) == tag)
                    detail["run"] = run_
                    detail["expected_data"] = case["mono"]
                    detail["sequence"] = rep["seq"]
                    detail["weights"] = case["w"]
                    detail["constants"] = case["c"]
                    detail["defaults"] = case["x0"]
                    if tag in rep["errors"]:
                        detail["traceback"] = rep["errors"][tag]
                sig = sig_of(case, tag.split("#")[0], clause)
                if tag.startswith("mdaopt"):
                    if clause in ("UserStructures",):
                        raise MachineryError(f"the harness did not pass the sub coupling structures the specification "
                                             f"names: {case['code']} {run_['opt']} {run_['user']}")
                    sig.update({k: run_["opt"][k] for k in ("inner", "sub", "par", "init")})
                if clause == "Runs" or clause == "Constructs":
                    st = (rep["status"] if tag == "structure" else run_["status"])
                    sig["exception"] = st.split(":", 1)[-1]
                ck.violation(f"{tag.split('#')[0]}:{clause}", sig, detail)
    for fut in pending:
        fut.result()          # a failure of a theorem-only run is raised here
    background.shutdown()
    for i in list(range(0, len(cases), max(1, len(cases) // 5)))[:6]:
        c, ks = cases[i]
        ck.sample({"code": c["code"], "ins": c["ins"], "outs": c["outs"], "expected_data": c["mono"],
                   "executions": ks, "reported_sequence": by_id[i + 1]["seq"]})
    ck.extra["executions_of_chains"] = n_runs
    # vacuity of the option dimension: what ran
    oruns = [x for rep in reports for x in rep["runs"] if x["kind"] == "mdaopt"]
    by = lambda f: {str(k): sum(1 for x in oruns if f(x) == k) for k in sorted({f(x) for x in oruns}, key=str)}  # noqa: E731
    several = [x for x in oruns if x["opt"]["sub"] == "user" and len(x["user"]) >= 2]
    shifted = [x for x in several if any(len(u) == 1 for u in x["user"][:-1]) and any(len(u) > 1 for u in x["user"][1:])]
    ck.extra["mdachain_option_runs"] = {
        "runs": len(oruns), "by_inner_mda": by(lambda x: x["opt"]["inner"]), "by_sub": by(lambda x: x["opt"]["sub"]),
        "by_init": by(lambda x: x["opt"]["init"]), "parallel_tasks": sum(1 for x in oruns if x["opt"]["par"]),
        "coupling_structure_given": sum(1 for x in oruns if x["opt"]["cs"]),
        "chain_linearize": sum(1 for x in oruns if x["opt"]["lin"]),
        "n_processes_2": sum(1 for x in oruns if x["opt"]["np"] == 2),
        "distinct_option_records": len({json.dumps(x["opt"], sort_keys=True) for x in oruns}),
        "user_structures_for_several_inner_mdas": len(several),
        "self_coupled_singleton_structure_before_a_group_structure": len(shifted)}
    if any(kw.get("optmod") for _, kw, emit, _ in plan(ck) if emit) and not os.environ.get("VERIF_C08_ONLY"):
        want = 5
        if len(ck.extra["mdachain_option_runs"]["by_inner_mda"]) < want or not shifted:
            raise MachineryError(f"vacuity: MDAChain option runs {ck.extra['mdachain_option_runs']}")
    ck.extra["worker_processes"] = n_proc
    # every instance of the enumerated sets was replayed and judged by TLC, unless a set is theorems-only
    ck.exhaustive = all(emit for _, _, emit, _ in plan(ck))
    ck.assumptions += [
        "numeric layer: out = sum(w*in) + c with integer w in {0,1}: weight 0 on the edges that close a cycle "
        "(nilpotent coupling although the grammars are strongly coupled), so every value is an exact integer",
        "coupling sets are the ones the API documents (weak couplings = all outputs of the disciplines that are "
        "neither in a cycle nor self-coupled)",
        "exact composition is demanded only where each name has a single producer (Consistent); MDOChain and "
        "MDOParallelChain only where no two disciplines are mutually dependent",
        "MDAChain options: sub_coupling_structures are given one per inner MDA (groups with >= 2 members and "
        "self-coupled singletons), in the order of the execution sequence, which is the order of inner_mdas; the "
        "data returned must not depend on inner_mda_name, coupling_structure, sub_coupling_structures, "
        "mdachain_parallelize_tasks, chain_linearize, n_processes, initialize_defaults (chain_linearize is a "
        "construction flag here: the Jacobians belong to C09/C07)",
        "inner MDAs that solve linear systems in floating point (MDANewtonRaphson, MDAQuasiNewton, MDAGSNewton): a "
        "value within 1e-6 of an integer is transported to TLC as that integer; MDAJacobi / MDAGaussSeidel: exact",
        "initialize_defaults: the log starts with one pass of the initialization chain (any order in which every "
        "discipline finds its inputs among the given defaults and earlier outputs); later executions with unchanged "
        "inputs may be served by the disciplines' caches",
    ]

    # ---- specification growth (outside C08 as stated): namespaces and the grammar / data-flow construction
    # of composite processes (ProcessGrammar.tla)
    from ..growth import g03_process_grammar

    g03_process_grammar.run(ck)


def _count_init(r):
    import re

    m = re.search(r"Finished computing initial states: (\d+) states? generated, with (\d+) of them distinct", r.out)
    if m:
        return int(m.group(2))
    m = re.search(r"Finished computing initial states: (\d+) distinct states? generated", r.out)
    return int(m.group(1)) if m else 0


if __name__ == "__main__":
    main("C08", run)
