"""C05 helpers: the harness discipline, the value oracle (uncached twin) and the driver that steps the
real gemseo discipline + cache through a labelled behaviour of DiscCacheImpl and reports what it saw.

Nothing here decides what a cache *should* return: the driver only transports the arguments of the
specification's actions to gemseo and translates the returned arrays back into the specification's
vocabulary (which lattice point's outputs / Jacobian were returned, did the body run).
"""
from __future__ import annotations

import numpy as np
from numpy import array
from scipy.sparse import csr_array

from gemseo.core.discipline import Discipline

INS = ("x", "z", "s")
OUTS = ("y", "w", "s")
# Jacobian levels of the specification (a chain of sets of (output, input) pairs)
LEVELS = {
    1: (("y",), ("x",)),
    2: (("y", "w"), ("x", "z")),
    3: (OUTS, INS),
}
Z_VALUES = ((1.0, 0.0), (100.0, 0.0))  # index 0 = the default value of "z"


def level_pairs(lvl, levels=LEVELS):
    outs, ins = levels[lvl]
    return {(o, i) for o in outs for i in ins}


class Codec:
    """The value kinds of DiscCache.tla: how the lattice variable "x" (abstract identity: the lattice
    index xi) is represented in the discipline data.  Pure transport: encode an index, edit a
    representation in place the way a caller would, decode what came back from gemseo."""

    KINDS = ("float", "int", "complex", "mat", "str", "pystr", "dict", "list")

    def __init__(self, kind, xv, scale):
        if kind not in self.KINDS:
            raise ValueError(kind)
        self.kind = kind
        # the integer kind represents XV[i] itself, the others XV[i]/scale (see Unit in the specification)
        self.values = [v if kind == "int" else v / scale for v in xv]
        self.pytype = {"pystr": str, "dict": dict, "list": list}.get(kind, np.ndarray)

    def value(self, xi):
        """The number the body computes with."""
        return float(self.values[xi - 1])

    def _leaf(self, xi):
        v = self.values[xi - 1]
        k = self.kind
        if k == "int":
            return array([int(v)])
        if k == "complex":
            return array([complex(v, 0.0)])
        if k == "mat":
            return array([[v, 0.0], [0.0, 0.0]])
        if k == "str":
            return array([f"p{xi}"])
        if k == "pystr":
            return f"p{xi}"
        return array([v])

    def enc(self, xi):
        """A fresh representation of lattice index xi."""
        if self.kind == "dict":
            return {"a": self._leaf(xi), "b": array([1.0])}
        if self.kind == "list":
            return [self._leaf(xi), array([1.0])]
        return self._leaf(xi)

    def set(self, rep, xi):
        """The caller's in-place edit (of the inner array for a container; a plain str is immutable: the
        caller can only rebind it).  -> the representation to pass from now on."""
        k = self.kind
        if k == "pystr":
            return f"p{xi}"
        leaf = rep["a"] if k == "dict" else rep[0] if k == "list" else rep
        new = self._leaf(xi)
        if k == "mat":
            leaf[0, 0] = new[0, 0]
        else:
            leaf[0] = new[0]
        return rep

    def dec(self, rep):
        """Lattice index represented by rep (as passed, or as read back from a cache); 0: none."""
        try:
            k = self.kind
            if k == "dict":
                rep = rep["a"]
            elif k == "list":
                rep = rep[0]
            a = np.asarray(rep).ravel()[0]
            if k in ("str", "pystr"):
                t = str(a)
                xi = int(t[1:]) if t[:1] == "p" else 0
                return xi if 1 <= xi <= len(self.values) else 0
            c = complex(a)
            if c.imag != 0.0:
                return 0
            for i, v in enumerate(self.values):
                if v == c.real:
                    return i + 1
        except Exception:  # noqa: BLE001
            pass
        return 0


class CDisc(Discipline):
    """y, w, s = G(x, z, s): several inputs and outputs, a self-coupled variable "s", dense and sparse
    Jacobian blocks, partially defaulted inputs, counters inside the bodies.

    inplace=True: the outputs live in persistent arrays that ``_run`` overwrites (a wrapper with
    pre-allocated buffers) - a cache that keeps those arrays by reference is corrupted by the next run.
    """

    def __init__(self, inplace: bool = False):
        super().__init__("D")
        self.input_grammar.update_from_names(list(INS))
        self.output_grammar.update_from_names(list(OUTS))
        self.default_input_data = {"x": array([0.0]), "z": array(Z_VALUES[0]), "s": array([0.0])}
        self.inplace = inplace
        self.run_log = []  # (x, z0) seen by the body
        self.lin_log = []
        self._y, self._w, self._s = array([0.0]), array([0.0, 0.0]), array([0.0])

    def _run(self, input_data):
        x, z, s = input_data["x"], input_data["z"], input_data["s"]
        self.run_log.append((float(x[0]), float(z[0])))
        y = [x[0] ** 2 + x[0] * z[0] + z[1]]
        w = [x[0] - 2 * z[0], s[0] + x[0]]
        so = [s[0] + 1 + x[0]]
        if self.inplace:
            self._y[:] = y
            self._w[:] = w
            self._s[:] = so
            return {"y": self._y, "w": self._w, "s": self._s}
        return {"y": array(y), "w": array(w), "s": array(so)}

    def _compute_jacobian(self, input_names=(), output_names=()):
        x, z = self.io.data["x"], self.io.data["z"]
        self.lin_log.append((float(x[0]), float(z[0])))
        full = {
            "y": {"x": array([[2 * x[0] + z[0]]]), "z": array([[x[0], 1.0]]), "s": array([[0.0]])},
            "w": {"x": array([[1.0], [1.0]]), "z": csr_array(array([[-2.0, 0.0], [0.0, 0.0]])), "s": array([[0.0], [1.0]])},
            "s": {"x": array([[1.0]]), "z": csr_array(array([[0.0, 0.0]])), "s": array([[1.0]])},
        }
        self.jac = {o: {i: full[o][i] for i in (input_names or INS)} for o in (output_names or OUTS)}


class SDisc(Discipline):
    """Self-coupled flavour: "x" is an input AND an output, and the body updates the array it received
    in place, x <- F(x), as a solver wrapping a state vector does (the library deep-copies the in/out
    variables of the cache key before the run for exactly this case).  F maps the lattice onto itself
    (table given by the specification), so an output fed back as the next input is again a lattice point.
    y, w are computed from the value of x AT CALL TIME."""

    INS = ("x", "z")
    OUTS = ("x", "y", "w")

    def __init__(self, table):
        super().__init__("D")
        self.input_grammar.update_from_names(list(self.INS))
        self.output_grammar.update_from_names(list(self.OUTS))
        self.default_input_data = {"x": array([0.0]), "z": array(Z_VALUES[0])}
        self.table = dict(table)  # lattice value -> F(lattice value)
        self.inplace = False
        self.run_log = []
        self.lin_log = []

    def _run(self, input_data):
        x, z = input_data["x"], input_data["z"]
        x0 = float(x[0])
        self.run_log.append((x0, float(z[0])))
        y = array([x0 ** 2 + x0 * z[0] + z[1]])
        w = array([x0 - 2 * z[0], 3 * x0])
        x[0] = self.table[x0]  # in-place update of the self-coupled input array
        return {"x": x, "y": y, "w": w}


class KDisc(Discipline):
    """Value-kind flavour: "x" is represented as the codec says (integer / complex / 2-D / string array,
    plain str, dict or list holding arrays; SimpleGrammar typed accordingly), "z" is a float array.
    y, w are polynomials of the NUMBER x stands for; the Jacobian is taken with respect to "z" only
    (a string has no derivative)."""

    default_grammar_type = Discipline.GrammarType.SIMPLE
    INS = ("x", "z")
    OUTS = ("y", "w")
    LEVELS = {1: (("y",), ("z",)), 2: (("y", "w"), ("z",))}

    def __init__(self, codec):
        super().__init__("D")
        self.codec = codec
        self.io.input_grammar.update_from_types({"x": codec.pytype, "z": np.ndarray})
        self.io.output_grammar.update_from_types({"y": np.ndarray, "w": np.ndarray})
        self.default_input_data = {"x": codec.enc(1), "z": array(Z_VALUES[0])}
        self.inplace = False
        self.run_log = []
        self.lin_log = []

    def _num(self, rep):
        xi = self.codec.dec(rep)
        if not xi:
            raise ValueError(f"the body received a value of x that is no lattice point: {rep!r}")
        return self.codec.value(xi)

    def _run(self, input_data):
        x, z = self._num(input_data["x"]), input_data["z"]
        self.run_log.append((x, float(z[0])))
        return {"y": array([x ** 2 + x * z[0] + z[1]]), "w": array([x - 2 * z[0], 3 * x])}

    def _compute_jacobian(self, input_names=(), output_names=()):
        x, z = self._num(self.io.data["x"]), self.io.data["z"]
        self.lin_log.append((x, float(z[0])))
        full = {"y": {"z": array([[x, 1.0]])}, "w": {"z": csr_array(array([[-2.0, 0.0], [0.0, 0.0]]))}}
        self.jac = {o: {i: full[o][i] for i in (input_names or ("z",))} for o in (output_names or self.OUTS)}


class _M1(Discipline):
    """u = x**2 + x*z0"""

    def __init__(self):
        super().__init__("M1")
        self.input_grammar.update_from_names(["x", "z"])
        self.output_grammar.update_from_names(["u"])
        self.default_input_data = {"x": array([0.0]), "z": array(Z_VALUES[0])}

    def _run(self, input_data):
        x, z = input_data["x"], input_data["z"]
        return {"u": array([x[0] ** 2 + x[0] * z[0]])}

    def _compute_jacobian(self, input_names=(), output_names=()):
        x, z = self.io.data["x"], self.io.data["z"]
        self.jac = {"u": {"x": array([[2 * x[0] + z[0]]]), "z": array([[x[0], 0.0]])}}


class _M2(Discipline):
    """y = u + z1 ; w = (x - 2*z0, u*x)"""

    def __init__(self):
        super().__init__("M2")
        self.input_grammar.update_from_names(["u", "x", "z"])
        self.output_grammar.update_from_names(["y", "w"])
        self.default_input_data = {"u": array([0.0]), "x": array([0.0]), "z": array(Z_VALUES[0])}

    def _run(self, input_data):
        u, x, z = input_data["u"], input_data["x"], input_data["z"]
        return {"y": array([u[0] + z[1]]), "w": array([x[0] - 2 * z[0], u[0] * x[0]])}

    def _compute_jacobian(self, input_names=(), output_names=()):
        u, x = self.io.data["u"], self.io.data["x"]
        self.jac = {
            "y": {"u": array([[1.0]]), "x": array([[0.0]]), "z": array([[0.0, 1.0]])},
            "w": {"u": array([[0.0], [x[0]]]), "x": array([[1.0], [u[0]]]), "z": array([[-2.0, 0.0], [0.0, 0.0]])},
        }


def _make_chain_class():
    from gemseo.core.chains.chain import MDOChain

    class CChain(MDOChain):
        """Process-discipline flavour: an MDOChain of two nonlinear polynomial members with the cache under
        test at the level of the CHAIN (the members keep their default caches).  "The body" is the
        execution of the members by the chain; a re-execution of the members from inside the assembly of
        the Jacobian belongs to the linearization and is logged there."""

        INS = ("x", "z")
        OUTS = ("u", "y", "w")
        LEVELS = {1: (("y",), ("x",)), 2: (("y", "w"), ("x", "z")), 3: (("u", "y", "w"), ("x", "z"))}

        def __init__(self):
            super().__init__([_M1(), _M2()], name="D")
            self.inplace = False
            self.run_log = []
            self.lin_log = []
            self.relin_log = []
            self._in_lin = False

        def _execute(self):
            log = self.relin_log if self._in_lin else self.run_log
            log.append((float(self.io.data["x"][0]), float(self.io.data["z"][0])))
            super()._execute()

        def _compute_jacobian(self, input_names=(), output_names=()):
            self.lin_log.append((float(self.io.data["x"][0]), float(self.io.data["z"][0])))
            self._in_lin = True
            try:
                super()._compute_jacobian(input_names, output_names)
            finally:
                self._in_lin = False

    return CChain


def dense(m):
    return np.asarray(m.todense()) if hasattr(m, "todense") else np.asarray(m)


class World:
    """Lattice <-> discipline data, and the value oracle: an uncached twin evaluated at lattice points.

    flavour: "std" (CDisc), "selfupd" (SDisc, fx given), "kinds" (KDisc, x represented as vkind says),
    "chain" (an MDOChain of two members, cache at chain level)."""

    def __init__(self, xv, scale, nz, fx=None, flavour=None, vkind="float"):
        """fx: lattice index -> lattice index (the specification's FX) for the self-coupled flavour."""
        self.xv = list(xv)
        self.scale = scale
        self.flavour = flavour or ("selfupd" if fx is not None else "std")
        self.vkind = vkind
        self.codec = Codec(vkind, xv, scale)
        self.points = [(xi, zi) for xi in range(1, len(self.xv) + 1) for zi in range(nz)]
        self.selfupd = self.flavour == "selfupd"
        self.table = {self.xv[i - 1] / scale: self.xv[j - 1] / scale for i, j in fx.items()} if fx else None
        self._chain_class = _make_chain_class() if self.flavour == "chain" else None
        cls = {"std": CDisc, "selfupd": SDisc, "kinds": KDisc, "chain": self._chain_class}[self.flavour]
        self.ins = cls.INS if self.flavour != "std" else INS
        self.outs = cls.OUTS if self.flavour != "std" else OUTS
        self.levels = getattr(cls, "LEVELS", LEVELS)
        self.top = max(self.levels)
        self.twin = self.new_discipline(False)
        self.twin.set_cache("")  # uncached
        if self.flavour == "kinds":  # (no derivative with respect to a string: never "all the Jacobians")
            self.declare(self.twin, self.top)
        self._out = {}
        self._jac = {}
        for p in self.points:
            za = "alt" if p[1] else "dflt"
            data = self.twin.execute(self.inputs(p, za))  # fresh arrays
            self._out[p] = {k: np.array(data[k], copy=True) for k in self.outs}
            if not self.selfupd:
                j = self.twin.linearize(self.inputs(p, za), compute_all_jacobians=self.flavour != "kinds")
                self._jac[p] = {(o, i): dense(j[o][i]).copy() for o, i in level_pairs(self.top, self.levels)}

    def new_discipline(self, inplace):
        if self.flavour == "selfupd":
            return SDisc(self.table)
        if self.flavour == "kinds":
            return KDisc(self.codec)
        if self.flavour == "chain":
            return self._chain_class()
        return CDisc(inplace)

    def declare(self, disc, lvl):
        """Declare the differentiated inputs/outputs of Jacobian level lvl."""
        outs, ins = self.levels[lvl]
        disc.add_differentiated_inputs(list(ins))
        disc.add_differentiated_outputs(list(outs))

    def index_of(self, value):
        """Lattice index of a float value of "x" (0: not a lattice value)."""
        for i, v in enumerate(self.xv):
            if v / self.scale == value:
                return i + 1
        return 0

    def xval(self, xi):
        """The number the body computes with at lattice index xi."""
        return self.codec.value(xi)

    def inputs(self, p, za, xrep=None):
        d = {"x": xrep if xrep is not None else self.codec.enc(p[0])}
        if za == "dflt":
            d["z"] = array(Z_VALUES[0])
        elif za == "alt":
            d["z"] = array(Z_VALUES[1])
        return d

    # ---- translation of returned arrays into lattice points ([0, 0] = no lattice point)
    def point_of_inputs(self, inputs):
        try:
            xi = self.codec.dec(inputs["x"])
            z = tuple(float(v) for v in np.ravel(inputs["z"]))
        except Exception:  # noqa: BLE001
            return (0, 0)
        for p in self.points:
            if p[0] == xi and Z_VALUES[p[1]] == z:
                return p
        return (0, 0)

    def point_of_outputs(self, data, names=None):
        names = names or self.outs
        for p in self.points:
            ref = self._out[p]
            try:
                if all(np.array_equal(np.ravel(np.asarray(data[k])), ref[k]) for k in names):
                    return p
            except Exception:  # noqa: BLE001
                return (0, 0)
        return (0, 0)

    def read_jacobian(self, jac):
        """-> (level, point): the largest level whose pairs are all present; the point whose Jacobian
        equals every returned block."""
        if not jac:
            return 0, (0, 0)
        pairs = {(o, i) for o, d in jac.items() for i in d}
        lvl = max((l for l in self.levels if level_pairs(l, self.levels) <= pairs), default=0)
        for p in self.points:
            ref = self._jac[p]
            try:
                if all(pr in ref and np.array_equal(dense(jac[pr[0]][pr[1]]), ref[pr]) for pr in pairs):
                    return lvl, p
            except Exception:  # noqa: BLE001
                break
        return lvl, (0, 0)


KIND_TO_CACHE = {
    "simple": ("SimpleCache", {}),
    "memShared": ("MemoryFullCache", {"is_memory_shared": True}),
    "memLocal": ("MemoryFullCache", {"is_memory_shared": False}),
    "hdf5": ("HDF5Cache", {}),
}


class Driver:
    """One real discipline with one cache policy, stepped by the labels of the specification."""

    def __init__(self, world: World, kind, tol, inplace, workdir, tag, cells_init, reuse=None, diff0=0):
        """reuse: the Driver of the previous path (same kind and tolerance).  Creating a full cache costs
        15-35 ms (multiprocessing manager objects, HDF5 file singleton), so its cache object is emptied
        with clear() and handed to the new discipline instead of building a new one for every path."""
        self.w = world
        self.kind = kind
        self.tol = tol
        self.d = world.new_discipline(inplace)
        self.h5 = None
        if kind == "hdf5":
            self.h5 = reuse.h5 if reuse is not None else str(workdir / f"c05-{tag}.h5")
        if reuse is not None and reuse.d.cache is not None:
            cache = reuse.d.cache
            if len(cache):
                cache.clear()
            if len(cache):
                raise RuntimeError("cache.clear() left entries behind")
            self.d.cache = cache
        else:
            self._set_cache()
        # the caller's own objects: an array, or a container holding the array that is edited in place
        self.cells = {c: world.codec.enc(xi) for c, xi in cells_init.items()}
        self.cell_idx = dict(cells_init)
        self.diff = 0
        for _ in range(diff0):
            self.set_diff()

    def _set_cache(self):
        if self.kind == "none":
            self.d.set_cache("")
            return
        name, kw = KIND_TO_CACHE[self.kind]
        kw = dict(kw)
        if self.kind == "hdf5":
            kw["hdf_file_path"] = self.h5
        self.d.set_cache(name, tolerance=self.tol, **kw)

    def close(self):
        if self.h5:
            import os

            try:
                os.remove(self.h5)
            except OSError:
                pass

    # ---- what the cache shows through its public API
    def entries(self):
        # get_all_entries() of an HDF5Cache without any entry trips an assertion of the file singleton
        # (keep_open closes a file that was never opened): a cache API corner outside the statement
        if self.d.cache is None or not len(self.d.cache):
            return []
        out = []
        for e in self.d.cache.get_all_entries():
            has_out = bool(e.outputs)
            jl, jsrc = self.w.read_jacobian(e.jacobian)
            outs = {}
            if has_out:
                # an output named like an input is stored as such in the outputs group
                outs = e.outputs
            out.append({
                "in": self.w.point_of_inputs(e.inputs),
                "hasOut": has_out,
                "osrc": self.w.point_of_outputs(outs) if has_out else None,
                "jl": jl,
                "jsrc": jsrc if jl else None,
            })
        return out

    def n_entries(self):
        return 0 if self.d.cache is None else len(self.d.cache)

    # ---- the actions
    def _call_inputs(self, c, za, xi=None):
        if c == "lit":
            p = (xi, 0)
            return p, self.w.inputs(p, za)
        p = (self.cell_idx[c], 1 if za == "alt" else 0)
        return p, self.w.inputs(p, za, xrep=self.cells[c])  # the caller's own object, by reference

    def execute(self, c, za, xi=None):
        p, inp = self._call_inputs(c, za, xi)
        n0 = len(self.d.run_log)
        data = self.d.execute(inp)
        n_ran = len(self.d.run_log) - n0
        ev = {"op": "exec", "c": c, "x": list(p), "hasOut": True, "src": list(self.w.point_of_outputs(data)),
              "ran": n_ran > 0, "req": 0, "jl": 0, "jsrc": [1, 0], "lin": False, "relin": False,
              "after": self._after(c)}
        return ev, self._body_ok(p, n0, n_ran)

    def _after(self, c):
        """What the caller's array holds after the call (read from the array, not predicted)."""
        if c == "lit":
            return 0
        self.cell_idx[c] = self.w.codec.dec(self.cells[c])
        return self.cell_idx[c]

    def linearize(self, c, za, mode, ex, xi=None):
        p, inp = self._call_inputs(c, za, xi)
        n0, m0 = len(self.d.run_log), len(self.d.lin_log)
        r0 = len(getattr(self.d, "relin_log", ()))
        jac = self.d.linearize(inp, compute_all_jacobians=(mode == "all"), execute=ex)
        n_ran = len(self.d.run_log) - n0
        relin = list(getattr(self.d, "relin_log", ()))[r0:]
        jl, jsrc = self.w.read_jacobian(jac)
        # after linearize() the self-coupled "s" of the local data is reset to its input value
        src = self.w.point_of_outputs(self.d.io.data, ("y", "w")) if ex else (1, 0)
        ev = {"op": "lin", "c": c, "x": list(p), "hasOut": bool(ex), "src": list(src), "ran": n_ran > 0,
              "req": self.w.top if mode == "all" else self.diff, "jl": jl, "jsrc": list(jsrc),
              "lin": len(self.d.lin_log) > m0, "relin": bool(relin), "after": self._after(c)}
        problem = self._body_ok(p, n0, n_ran)
        if relin and any(r != (self.w.xval(p[0]), Z_VALUES[p[1]][0]) for r in relin):
            problem = problem or f"the members were re-executed at {relin} for a call at point {p}"
        return ev, problem

    def _body_ok(self, p, n0, n_ran):
        """Transport sanity: the body ran at most once and at the input of the call."""
        if n_ran > 1:
            return f"the body ran {n_ran} times in one call"
        if n_ran == 1:
            x, z0 = self.d.run_log[n0]
            if x != self.w.xval(p[0]) or z0 != Z_VALUES[p[1]][0]:
                return f"the body ran at x={x}, z0={z0} for a call at point {p}"
        return None

    def mutate(self, c, v):
        before = self.entries()
        self.cells[c] = self.w.codec.set(self.cells[c], v)  # in place (a plain str can only be rebound)
        self.cell_idx[c] = v
        # what the cache shows after the caller's edit vs before it (read through its API)
        return {"op": "mutate", "c": c, "v": v, "same": self.entries() == before}

    def set_diff(self):
        self.diff += 1
        self.w.declare(self.d, self.diff)
        return {"op": "setdiff"}

    def clear(self):
        self.d.cache.clear()
        return {"op": "clear"}

    def set_cache(self):
        self._set_cache()
        return {"op": "setcache"}

    def reopen(self):
        before = self.entries()
        old = self.d.cache
        self._set_cache()  # same file, node defaults to the discipline name: a new HDF5Cache object
        after = self.entries()
        return {"op": "reopen", "same": before == after and self.d.cache is not old}

    def step(self, action, args):
        if action == "Execute":
            return self.execute(args[0], args[1])
        if action == "ExecuteLit":
            return self.execute("lit", "omit", xi=args[0])
        if action == "Linearize":
            return self.linearize(args[0], args[1], args[2], args[3])
        if action == "LinearizeLit":
            return self.linearize("lit", "omit", "all", True, xi=args[0])
        if action == "MutateCell":
            return self.mutate(args[0], args[1]), None
        if action == "SetDiff":
            return self.set_diff(), None
        if action == "ClearCache":
            return self.clear(), None
        if action == "SetCache":
            return self.set_cache(), None
        if action == "Reopen":
            return self.reopen(), None
        raise ValueError(action)
