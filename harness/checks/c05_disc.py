"""C05 helpers: the harness discipline, the value oracle (uncached twin) and the driver that steps the
real gemseo discipline + cache through a labelled behaviour of DiscCacheImpl and reports what it saw.

Nothing here decides what a cache *should* return: the driver only transports the arguments of the
specification's actions to gemseo and translates the returned arrays back into the specification's
vocabulary (which lattice point's outputs / Jacobian were returned, did the body run).
"""
from __future__ import annotations

import numpy as np
from numpy import array
from scipy.sparse import csr_array

from gemseo.core.discipline import Discipline

INS = ("x", "z", "s")
OUTS = ("y", "w", "s")
# Jacobian levels of the specification (a chain of sets of (output, input) pairs)
LEVELS = {
    1: (("y",), ("x",)),
    2: (("y", "w"), ("x", "z")),
    3: (OUTS, INS),
}
Z_VALUES = ((1.0, 0.0), (100.0, 0.0))  # index 0 = the default value of "z"


def level_pairs(lvl):
    outs, ins = LEVELS[lvl]
    return {(o, i) for o in outs for i in ins}


class CDisc(Discipline):
    """y, w, s = G(x, z, s): several inputs and outputs, a self-coupled variable "s", dense and sparse
    Jacobian blocks, partially defaulted inputs, counters inside the bodies.

    inplace=True: the outputs live in persistent arrays that ``_run`` overwrites (a wrapper with
    pre-allocated buffers) - a cache that keeps those arrays by reference is corrupted by the next run.
    """

    def __init__(self, inplace: bool = False):
        super().__init__("D")
        self.input_grammar.update_from_names(list(INS))
        self.output_grammar.update_from_names(list(OUTS))
        self.default_input_data = {"x": array([0.0]), "z": array(Z_VALUES[0]), "s": array([0.0])}
        self.inplace = inplace
        self.run_log = []  # (x, z0) seen by the body
        self.lin_log = []
        self._y, self._w, self._s = array([0.0]), array([0.0, 0.0]), array([0.0])

    def _run(self, input_data):
        x, z, s = input_data["x"], input_data["z"], input_data["s"]
        self.run_log.append((float(x[0]), float(z[0])))
        y = [x[0] ** 2 + x[0] * z[0] + z[1]]
        w = [x[0] - 2 * z[0], s[0] + x[0]]
        so = [s[0] + 1 + x[0]]
        if self.inplace:
            self._y[:] = y
            self._w[:] = w
            self._s[:] = so
            return {"y": self._y, "w": self._w, "s": self._s}
        return {"y": array(y), "w": array(w), "s": array(so)}

    def _compute_jacobian(self, input_names=(), output_names=()):
        x, z = self.io.data["x"], self.io.data["z"]
        self.lin_log.append((float(x[0]), float(z[0])))
        full = {
            "y": {"x": array([[2 * x[0] + z[0]]]), "z": array([[x[0], 1.0]]), "s": array([[0.0]])},
            "w": {"x": array([[1.0], [1.0]]), "z": csr_array(array([[-2.0, 0.0], [0.0, 0.0]])), "s": array([[0.0], [1.0]])},
            "s": {"x": array([[1.0]]), "z": csr_array(array([[0.0, 0.0]])), "s": array([[1.0]])},
        }
        self.jac = {o: {i: full[o][i] for i in (input_names or INS)} for o in (output_names or OUTS)}


class SDisc(Discipline):
    """Self-coupled flavour: "x" is an input AND an output, and the body updates the array it received
    in place, x <- F(x), as a solver wrapping a state vector does (the library deep-copies the in/out
    variables of the cache key before the run for exactly this case).  F maps the lattice onto itself
    (table given by the specification), so an output fed back as the next input is again a lattice point.
    y, w are computed from the value of x AT CALL TIME."""

    INS = ("x", "z")
    OUTS = ("x", "y", "w")

    def __init__(self, table):
        super().__init__("D")
        self.input_grammar.update_from_names(list(self.INS))
        self.output_grammar.update_from_names(list(self.OUTS))
        self.default_input_data = {"x": array([0.0]), "z": array(Z_VALUES[0])}
        self.table = dict(table)  # lattice value -> F(lattice value)
        self.inplace = False
        self.run_log = []
        self.lin_log = []

    def _run(self, input_data):
        x, z = input_data["x"], input_data["z"]
        x0 = float(x[0])
        self.run_log.append((x0, float(z[0])))
        y = array([x0 ** 2 + x0 * z[0] + z[1]])
        w = array([x0 - 2 * z[0], 3 * x0])
        x[0] = self.table[x0]  # in-place update of the self-coupled input array
        return {"x": x, "y": y, "w": w}


def dense(m):
    return np.asarray(m.todense()) if hasattr(m, "todense") else np.asarray(m)


class World:
    """Lattice <-> arrays, and the value oracle: an uncached twin evaluated at lattice points."""

    def __init__(self, xv, scale, nz, fx=None):
        """fx: lattice index -> lattice index (the specification's FX) for the self-coupled flavour."""
        self.xv = list(xv)
        self.scale = scale
        self.points = [(xi, zi) for xi in range(1, len(self.xv) + 1) for zi in range(nz)]
        self.selfupd = fx is not None
        self.outs = SDisc.OUTS if self.selfupd else OUTS
        self.table = {self.xv[i - 1] / scale: self.xv[j - 1] / scale for i, j in fx.items()} if fx else None
        self.twin = self.new_discipline(False)
        self.twin.set_cache("")  # uncached
        self._out = {}
        self._jac = {}
        for p in self.points:
            za = "alt" if p[1] else "dflt"
            data = self.twin.execute(self.inputs(p, za))  # fresh arrays
            self._out[p] = {k: np.array(data[k], copy=True) for k in self.outs}
            if not self.selfupd:
                j = self.twin.linearize(self.inputs(p, za), compute_all_jacobians=True)
                self._jac[p] = {(o, i): dense(j[o][i]).copy() for o in OUTS for i in INS}

    def new_discipline(self, inplace):
        return SDisc(self.table) if self.selfupd else CDisc(inplace)

    def index_of(self, value):
        """Lattice index of a value of "x" (0: not a lattice value)."""
        for i, v in enumerate(self.xv):
            if v / self.scale == value:
                return i + 1
        return 0

    def xval(self, xi):
        return self.xv[xi - 1] / self.scale

    def inputs(self, p, za, xarr=None):
        d = {"x": xarr if xarr is not None else array([self.xval(p[0])])}
        if za == "dflt":
            d["z"] = array(Z_VALUES[0])
        elif za == "alt":
            d["z"] = array(Z_VALUES[1])
        return d

    # ---- translation of returned arrays into lattice points ([0, 0] = no lattice point)
    def point_of_inputs(self, inputs):
        try:
            x = float(np.ravel(inputs["x"])[0])
            z = tuple(float(v) for v in np.ravel(inputs["z"]))
        except Exception:  # noqa: BLE001
            return (0, 0)
        for p in self.points:
            if self.xval(p[0]) == x and Z_VALUES[p[1]] == z:
                return p
        return (0, 0)

    def point_of_outputs(self, data, names=None):
        names = names or self.outs
        for p in self.points:
            ref = self._out[p]
            try:
                if all(np.array_equal(np.ravel(np.asarray(data[k])), ref[k]) for k in names):
                    return p
            except Exception:  # noqa: BLE001
                return (0, 0)
        return (0, 0)

    def read_jacobian(self, jac):
        """-> (level, point): the largest level whose pairs are all present; the point whose Jacobian
        equals every returned block."""
        if not jac:
            return 0, (0, 0)
        pairs = {(o, i) for o, d in jac.items() for i in d}
        lvl = max((l for l in LEVELS if level_pairs(l) <= pairs), default=0)
        for p in self.points:
            ref = self._jac[p]
            try:
                if all(pr in ref and np.array_equal(dense(jac[pr[0]][pr[1]]), ref[pr]) for pr in pairs):
                    return lvl, p
            except Exception:  # noqa: BLE001
                break
        return lvl, (0, 0)


KIND_TO_CACHE = {
    "simple": ("SimpleCache", {}),
    "memShared": ("MemoryFullCache", {"is_memory_shared": True}),
    "memLocal": ("MemoryFullCache", {"is_memory_shared": False}),
    "hdf5": ("HDF5Cache", {}),
}


class Driver:
    """One real discipline with one cache policy, stepped by the labels of the specification."""

    def __init__(self, world: World, kind, tol, inplace, workdir, tag, cells_init, reuse=None):
        """reuse: the Driver of the previous path (same kind and tolerance).  Creating a full cache costs
        15-35 ms (multiprocessing manager objects, HDF5 file singleton), so its cache object is emptied
        with clear() and handed to the new discipline instead of building a new one for every path."""
        self.w = world
        self.kind = kind
        self.tol = tol
        self.d = world.new_discipline(inplace)
        self.h5 = None
        if kind == "hdf5":
            self.h5 = reuse.h5 if reuse is not None else str(workdir / f"c05-{tag}.h5")
        if reuse is not None and reuse.d.cache is not None:
            cache = reuse.d.cache
            if len(cache):
                cache.clear()
            if len(cache):
                raise RuntimeError("cache.clear() left entries behind")
            self.d.cache = cache
        else:
            self._set_cache()
        self.cells = {c: array([world.xval(xi)]) for c, xi in cells_init.items()}
        self.cell_idx = dict(cells_init)
        self.diff = 0

    def _set_cache(self):
        if self.kind == "none":
            self.d.set_cache("")
            return
        name, kw = KIND_TO_CACHE[self.kind]
        kw = dict(kw)
        if self.kind == "hdf5":
            kw["hdf_file_path"] = self.h5
        self.d.set_cache(name, tolerance=self.tol, **kw)

    def close(self):
        if self.h5:
            import os

            try:
                os.remove(self.h5)
            except OSError:
                pass

    # ---- what the cache shows through its public API
    def entries(self):
        # get_all_entries() of an HDF5Cache without any entry trips an assertion of the file singleton
        # (keep_open closes a file that was never opened): a cache API corner outside the statement
        if self.d.cache is None or not len(self.d.cache):
            return []
        out = []
        for e in self.d.cache.get_all_entries():
            has_out = bool(e.outputs)
            jl, jsrc = self.w.read_jacobian(e.jacobian)
            outs = {}
            if has_out:
                # an output named like an input is stored as such in the outputs group
                outs = e.outputs
            out.append({
                "in": self.w.point_of_inputs(e.inputs),
                "hasOut": has_out,
                "osrc": self.w.point_of_outputs(outs) if has_out else None,
                "jl": jl,
                "jsrc": jsrc if jl else None,
            })
        return out

    def n_entries(self):
        return 0 if self.d.cache is None else len(self.d.cache)

    # ---- the actions
    def _call_inputs(self, c, za, xi=None):
        if c == "lit":
            p = (xi, 0)
            return p, self.w.inputs(p, za)
        p = (self.cell_idx[c], 1 if za == "alt" else 0)
        return p, self.w.inputs(p, za, xarr=self.cells[c])  # the caller's own array, by reference

    def execute(self, c, za, xi=None):
        p, inp = self._call_inputs(c, za, xi)
        n0 = len(self.d.run_log)
        data = self.d.execute(inp)
        n_ran = len(self.d.run_log) - n0
        ev = {"op": "exec", "c": c, "x": list(p), "hasOut": True, "src": list(self.w.point_of_outputs(data)),
              "ran": n_ran > 0, "req": 0, "jl": 0, "jsrc": [1, 0], "lin": False, "after": self._after(c)}
        return ev, self._body_ok(p, n0, n_ran)

    def _after(self, c):
        """What the caller's array holds after the call (read from the array, not predicted)."""
        if c == "lit":
            return 0
        self.cell_idx[c] = self.w.index_of(float(self.cells[c][0]))
        return self.cell_idx[c]

    def linearize(self, c, za, mode, ex, xi=None):
        p, inp = self._call_inputs(c, za, xi)
        n0, m0 = len(self.d.run_log), len(self.d.lin_log)
        jac = self.d.linearize(inp, compute_all_jacobians=(mode == "all"), execute=ex)
        n_ran = len(self.d.run_log) - n0
        jl, jsrc = self.w.read_jacobian(jac)
        # after linearize() the self-coupled "s" of the local data is reset to its input value
        src = self.w.point_of_outputs(self.d.io.data, ("y", "w")) if ex else (1, 0)
        ev = {"op": "lin", "c": c, "x": list(p), "hasOut": bool(ex), "src": list(src), "ran": n_ran > 0,
              "req": 3 if mode == "all" else self.diff, "jl": jl, "jsrc": list(jsrc),
              "lin": len(self.d.lin_log) > m0, "after": self._after(c)}
        return ev, self._body_ok(p, n0, n_ran)

    def _body_ok(self, p, n0, n_ran):
        """Transport sanity: the body ran at most once and at the input of the call."""
        if n_ran > 1:
            return f"the body ran {n_ran} times in one call"
        if n_ran == 1:
            x, z0 = self.d.run_log[n0]
            if x != self.w.xval(p[0]) or z0 != Z_VALUES[p[1]][0]:
                return f"the body ran at x={x}, z0={z0} for a call at point {p}"
        return None

    def mutate(self, c, v):
        self.cells[c][0] = self.w.xval(v)  # in place
        self.cell_idx[c] = v
        return {"op": "mutate", "c": c, "v": v}

    def set_diff(self):
        self.diff += 1
        outs, ins = LEVELS[self.diff]
        self.d.add_differentiated_inputs(list(ins))
        self.d.add_differentiated_outputs(list(outs))
        return {"op": "setdiff"}

    def clear(self):
        self.d.cache.clear()
        return {"op": "clear"}

    def set_cache(self):
        self._set_cache()
        return {"op": "setcache"}

    def reopen(self):
        before = self.entries()
        old = self.d.cache
        self._set_cache()  # same file, node defaults to the discipline name: a new HDF5Cache object
        after = self.entries()
        return {"op": "reopen", "same": before == after and self.d.cache is not old}

    def step(self, action, args):
        if action == "Execute":
            return self.execute(args[0], args[1])
        if action == "ExecuteLit":
            return self.execute("lit", "omit", xi=args[0])
        if action == "Linearize":
            return self.linearize(args[0], args[1], args[2], args[3])
        if action == "LinearizeLit":
            return self.linearize("lit", "omit", "all", True, xi=args[0])
        if action == "MutateCell":
            return self.mutate(args[0], args[1]), None
        if action == "SetDiff":
            return self.set_diff(), None
        if action == "ClearCache":
            return self.clear(), None
        if action == "SetCache":
            return self.set_cache(), None
        if action == "Reopen":
            return self.reopen(), None
        raise ValueError(action)
