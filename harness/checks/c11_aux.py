"""C11 - further clauses: design-space files (DesignSpaceFile.tla) and HDF5 cache reopening
(HDFCacheFile.tla).  The specification enumerates the instances / the state graph and computes what
the files must contain; this module builds the real objects, performs the real I/O and compares.
"""
from __future__ import annotations

import multiprocessing as mp
import os
import subprocess
import sys
import json
from pathlib import Path

import numpy as np

from ..core import Check, Graph, MachineryError
from . import c11_replay as rp

# ============================================================================= design spaces

DIGITS16 = 1e-15  # relative error of a number printed with 16 significant digits (0.5e-15) with margin


def real(n, vtype):
    """the specification's number id -> the real number (floats: most are not representable in 16 digits)."""
    return float(n) if vtype == "integer" else n / 7.0


def bound(b, vtype):
    if b["inf"]:
        return -np.inf if b["n"] < 0 else np.inf
    return real(b["n"], vtype)


def build_space(space):
    from gemseo.algos.design_space import DesignSpace

    ds = DesignSpace()
    for v in space:
        t = v["type"]
        value = None
        if v["hasVal"]:
            value = np.array([real(n, t) for n in v["val"]])
            if t == "integer":
                value = value.astype(int)
        ds.add_variable(v["name"], size=v["size"], type_=t,
                        lower_bound=np.array([bound(b, t) for b in v["lb"]]),
                        upper_bound=np.array([bound(b, t) for b in v["ub"]]), value=value)
    return ds


def spec_projection(space):
    """the instance in the vocabulary of c11_replay.project_ds"""
    return [(v["name"], v["size"], v["type"], [bound(b, v["type"]) for b in v["lb"]],
             [bound(b, v["type"]) for b in v["ub"]],
             [real(n, v["type"]) for n in v["val"]] if v["hasVal"] else None) for v in space]


def number_gap(a, b):
    """None when the two lists of numbers are the same numbers; else how far apart they are: "17th_digit"
    (they agree to the 16 significant digits "%.16g" prints: a rounding of the text form) or "coarser"."""
    if a is None or b is None:
        return None if (a is None and b is None) else "coarser"
    if len(a) != len(b):
        return "coarser"
    gap = None
    for x, y in zip(a, b):
        if x == y:
            continue
        if np.isinf(x) or np.isinf(y) or np.isnan(x) or np.isnan(y) or abs(x - y) > DIGITS16 * abs(y):
            return "coarser"
        gap = "17th_digit"
    return gap


def diff_space(got, want):
    if [g[0] for g in got] != [w[0] for w in want]:
        return "names", {"impl": [g[0] for g in got], "spec": [w[0] for w in want]}
    for g, w in zip(got, want):
        for field, i in (("size", 1), ("type", 2)):
            if g[i] != w[i]:
                return field, {"variable": w[0], "impl": g[i], "spec": w[i]}
        for field, i in (("lower_bound", 3), ("upper_bound", 4), ("value", 5)):
            gap = number_gap(g[i], w[i])
            if gap:
                return field, {"variable": w[0], "impl": g[i], "spec": w[i], "precision": gap}
    return None


def read_csv_rows(path):
    lines = [ln.split() for ln in Path(path).read_text().splitlines() if ln.strip()]
    return tuple(lines[0]), [tuple(r) for r in lines[1:]]


def diff_csv_rows(rows, spec_rows, fields):
    """real text rows against the rows the specification computed: the structure, and the numbers -- the text
    of a number must identify the number (C11: same bounds and current values)."""
    col = {f: i for i, f in enumerate(fields)}
    rows = [tuple(r[col[f]] for f in ("name", "lower_bound", "value", "upper_bound", "type")) if len(r) == 5 else r
            for r in rows]
    if len(rows) != len(spec_rows):
        return "row_count", {"impl": len(rows), "spec": len(spec_rows)}
    for k, (r, s) in enumerate(zip(rows, spec_rows)):
        if len(r) != 5:
            return "fields", {"row": k, "impl": r}
        name, lb, value, ub, vtype = r
        if name != s["name"] or vtype != s["type"]:
            return "name_or_type", {"row": k, "impl": r, "spec": (s["name"], s["type"])}
        if (value == "None") != (not s["some"]):
            return "none_marker", {"row": k, "impl": value, "spec_has_value": s["some"]}
        want = [bound(s["lb"], vtype), bound(s["ub"], vtype)] + ([real(s["value"], vtype)] if s["some"] else [])
        got_tok = [lb, ub] + ([value] if s["some"] else [])
        try:
            got = [float(t) for t in got_tok]
        except ValueError:
            return "number", {"row": k, "impl": r}
        gap = number_gap(got, want)
        if gap:
            return "number", {"row": k, "impl": got, "spec": want, "text": list(got_tok), "precision": gap}
    return None


def read_hdf_space(path, node):
    import h5py

    with h5py.File(path, "r") as f:
        g = f[node] if node else f
        g = g["design_space"]
        names = [n.decode() for n in g["names"][()]]
        groups = {}
        for name in g:
            if name == "names":
                continue
            v = g[name]
            groups[name] = {"size": int(v["size"][()]), "l_b": [float(x) for x in v["l_b"][()]],
                            "u_b": [float(x) for x in v["u_b"][()]],
                            "var_type": [t.decode() for t in v["var_type"][()]],
                            "value": [float(x) for x in v["value"][()]] if "value" in v else None}
        return names, groups


def diff_hdf_layout(names, groups, spec_hdf):
    if tuple(names) != tuple(spec_hdf["names"]):
        return "names", {"impl": names, "spec": list(spec_hdf["names"])}
    want_groups = {g["name"]: g for g in spec_hdf["groups"]}
    if set(groups) != set(want_groups):
        return "groups", {"impl": sorted(groups), "spec": sorted(want_groups)}
    for name, w in want_groups.items():
        g = groups[name]
        t = w["var_type"][0]
        want = {"size": w["size"], "l_b": [bound(b, t) for b in w["l_b"]], "u_b": [bound(b, t) for b in w["u_b"]],
                "var_type": list(w["var_type"]),
                "value": [real(n, t) for n in w["value"]] if w["hasValue"] else None}
        if g != want:
            return "group", {"variable": name, "impl": g, "spec": want}
    return None


def run_space_case(job):
    """one instance: CSV and HDF5 round trips; returns a list of (clause, what, detail)."""
    import logging
    import warnings

    logging.disable(logging.CRITICAL)
    warnings.filterwarnings("ignore")
    from gemseo.algos.design_space import DesignSpace

    idx, space, header, rows, hdf, workdir = job
    out = []
    want = spec_projection(space)
    node = "" if idx % 2 == 0 else "spaces/s1"
    csv = Path(workdir) / f"ds{idx}.csv"
    h5 = Path(workdir) / f"ds{idx}.h5"
    try:
        ds = build_space(space)
        d = diff_space(rp.project_ds(ds), want)
        if d:  # the object built by the harness is not the instance: not gemseo's I/O
            return [("Build", d[0], d[1])]
        # ---- text file
        try:
            ds.to_csv(csv)
            got_header, got_rows = read_csv_rows(csv)
            if got_header != tuple(header):
                out.append(("CsvStructure", "header", {"impl": got_header, "spec": header}))
            else:
                d = diff_csv_rows(got_rows, rows, header)
                if d:
                    out.append(("CsvStructure", d[0], d[1]))
            back = DesignSpace.from_csv(csv) if idx % 3 else DesignSpace.from_file(csv)
            d = diff_space(rp.project_ds(back), want)
            if d:
                out.append(("CsvRoundTrip", d[0], d[1]))
        except Exception as ex:  # noqa: BLE001
            out.append(("CsvRoundTrip", "exception:" + type(ex).__name__, {"exception": repr(ex)}))
        # ---- HDF5 file (root or nested node)
        try:
            if node or idx % 4 == 0:
                ds.to_hdf(h5, hdf_node_path=node)
            else:
                ds.to_file(h5)
            names, groups = read_hdf_space(h5, node)
            d = diff_hdf_layout(names, groups, hdf)
            if d:
                out.append(("HdfStructure", d[0], d[1]))
            back = DesignSpace.from_hdf(h5, hdf_node_path=node) if node else DesignSpace.from_file(h5)
            d = diff_space(rp.project_ds(back), want)
            if d:
                out.append(("HdfRoundTrip", d[0], d[1]))
        except Exception as ex:  # noqa: BLE001
            out.append(("HdfRoundTrip", "exception:" + type(ex).__name__, {"exception": repr(ex)}))
    finally:
        for p in (csv, h5):
            if p.exists():
                os.remove(p)
    return [(c, w, dict(d, node=node or "(root)")) for c, w, d in out]


def design_spaces(ck: Check, rng, nproc):
    if ck.thorough:
        grids = [(2, '{"finite", "low_inf", "up_inf", "free", "mixed"}', None),
                 (3, '{"finite", "free", "mixed"}', 6000)]
    else:
        grids = [(2, '{"finite", "low_inf", "up_inf", "free", "mixed"}', 300)]
    n_cases = 0
    for nvars, patterns, budget in grids:
        cfg = (f"CONSTANTS NVars = {nvars}\n Sizes = {{1, 2}}\n Types = {{\"float\", \"integer\"}}\n"
               f" Patterns = {patterns}\nSPECIFICATION Spec\nCHECK_DEADLOCK FALSE\n"
               "INVARIANT RoundTripCsv\nINVARIANT RoundTripHdf\nINVARIANT RowCount\nINVARIANT Emit\n")
        r = ck.tlc("DesignSpaceFile", cfg, workers=1, timeout=1500, coverage=False)
        cases = {}
        for v in r.printed():
            if isinstance(v, tuple) and v and v[0] == "CASE":
                _, space, header, rows, hdf = v
                cases.setdefault(repr(space), (space, header, rows, hdf))
        if not cases:
            raise MachineryError("DesignSpaceFile printed no instance")
        items = [cases[k] for k in sorted(cases)]
        if budget and len(items) > budget:
            small = [c for c in items if len(c[0]) == 1]
            items = small + rng.sample([c for c in items if len(c[0]) > 1], budget - len(small))
        jobs = [(n_cases + i,) + tuple(item) + (str(ck.work),) for i, item in enumerate(items)]
        with mp.get_context("fork").Pool(nproc) as pool:
            results = pool.map(run_space_case, jobs, chunksize=max(1, len(jobs) // (nproc * 4)))
        for (idx, space, *_), res in zip(jobs, results):
            for clause, what, detail in res:
                if clause == "Build":
                    raise MachineryError(f"harness could not build the instance {space}: {detail}")
                shape = [(v["size"], v["type"], v["hasVal"]) for v in space]
                sig = {"what": what, "n_vars": len(space), "node": "nested" if idx % 2 else "root"}
                if "precision" in detail:
                    sig["precision"] = detail["precision"]
                ck.violation(clause, sig, dict(detail, space=spec_projection(space), shape=shape))
            if not res:
                ck.traces += 1
        if jobs:
            ck.sample({"design_space": spec_projection(jobs[len(jobs) // 2][1]), "formats": ["csv", "hdf5"]})
        n_cases += len(jobs)
        ck.extra.setdefault("design_space_cases", []).append(
            {"n_vars": nvars, "instances_enumerated": r.distinct, "distinct_spaces": len(cases), "replayed": len(jobs)})


# ============================================================================= HDF5 cache reopening

BIG_N = 400  # HDFCacheFile!BigN


def cache_inputs(i, big=False):
    d = {"x": np.array([float(i), 0.5, -2.0]), "w": np.array([1.5, float(i)]), "n": np.array([i])}
    if big:
        d["X"] = np.full(BIG_N, float(i))
    return d


def cache_outputs(i):
    return {"y": np.array([10.0 * i + 0.5, -float(i), 0.25]), "z": np.array([float(i), 1.0]),
            "tag": np.array([f"run{i}"])}


def big_matrix(i, column=False):
    """the matrix the harness supplies for the block the specification leaves opaque (HDFCacheFile "big":
    more non-zero elements than the attributes of an HDF5 dataset can hold)"""
    if column:
        return np.arange(BIG_N, dtype=float).reshape(-1, 1) + 100.0 * i
    from scipy.sparse import random as sparse_random

    return sparse_random(BIG_N, BIG_N, density=0.15, format="csr", random_state=i).toarray()


def in_representation(matrix, rep):
    """a dense matrix -> the same matrix in the representation `rep` (no explicit zero is stored)"""
    import scipy.sparse as sp

    if rep == "dense":
        return np.array(matrix, dtype=float)
    return {"csr": sp.csr_array, "csc": sp.csc_array, "coo": sp.coo_array}[rep](np.array(matrix, dtype=float))


def block_matrix(i, blk):
    """the specification's block (rows of integers; rows = <<>>: the opaque big block) -> dense matrix"""
    if len(blk["rows"]) == 0:
        return big_matrix(i, column=blk["n"] == "n")
    return np.array([list(r) for r in blk["rows"]], dtype=float).reshape(tuple(blk["shape"]))


def build_jacobian(i, blocks, rep):
    """JacOf(i, b) of the specification -> the nested dictionary handed to cache_jacobian: the block
    itself in representation `rep`, its sibling column (with respect to "n") dense."""
    jac = {}
    for blk in sorted(blocks, key=lambda b: (b["o"], b["n"]), reverse=True):
        jac.setdefault(str(blk["o"]), {})[str(blk["n"])] = in_representation(
            block_matrix(i, blk), "dense" if blk["n"] == "n" else rep)
    return jac


def _dense(a):
    return a.toarray() if hasattr(a, "toarray") else np.asarray(a)


def same_arrays(got, want):
    if set(got) != set(want):
        return False
    for k, w in want.items():
        g = got[k]
        if isinstance(w, dict):
            if not isinstance(g, dict) or not same_arrays(g, w):
                return False
        else:
            g, w = _dense(g), _dense(w)
            if g.shape != w.shape or not np.array_equal(g, w):
                return False
    return True


def _num(x):
    x = float(x)
    return int(x) if x == int(x) else x


def served(cache, n_inputs, big=False):
    """what the open cache object serves for every input: {input: [has outputs, the outputs are the ones
    cached, {"out|in": [shape, rows]}]} -- the matrices as nested lists of numbers (JSON-able), the opaque
    big ones as "same" / "differs" (compared with the matrix the harness supplied)."""
    res = {}
    for i in range(1, n_inputs + 1):
        e = cache[cache_inputs(i, big)]
        has_out = bool(e.outputs)
        out_ok = (not has_out) or same_arrays(dict(e.outputs), cache_outputs(i))
        jac = {}
        for o, sub in (e.jacobian or {}).items():
            for n, m in sub.items():
                a = _dense(m)
                if a.ndim == 2 and a.shape[0] == BIG_N:
                    w = big_matrix(i, column=n == "n")
                    jac[f"{o}|{n}"] = [list(a.shape), "same" if a.shape == w.shape and np.array_equal(a, w) else "differs"]
                else:
                    jac[f"{o}|{n}"] = [list(a.shape), [[_num(v) for v in row] for row in np.atleast_2d(a)]]
        res[str(i)] = [has_out, out_ok, jac]
    return res


def spec_served(mem):
    """HDFCacheFile!mem -> the vocabulary of served()"""
    res = {}
    for i, m in enumerate(rp.as_seq(mem)):
        jac = {}
        for blk in m["jac"]:
            rows = "same" if len(blk["rows"]) == 0 else [list(r) for r in blk["rows"]]
            jac[f"{blk['o']}|{blk['n']}"] = [list(blk["shape"]), rows]
        res[str(i + 1)] = [bool(m["out"]), True, jac]
    return res


def read_cache_layout(path, node, sep):
    """the node of the file in the vocabulary of HDFCacheFile!entries: per entry the input it belongs to,
    whether it has outputs, and the stored form of every dataset of its jacobian group"""
    import h5py

    if not Path(path).exists():
        return []
    with h5py.File(path, "r") as f:
        if node not in f:
            return []
        g = f[node]
        out = []
        for j in sorted(int(k) for k in g):
            e = g[str(j)]
            forms = set()
            if "jacobian" in e:
                for name, ds in e["jacobian"].items():
                    o, _, n = name.partition(sep)
                    sparse = bool(ds.attrs.get("sparse"))
                    if sparse:
                        shape = tuple(int(v) for v in ds.attrs["shape"])
                        data, ind, ptr = ds[()], ds.attrs["indices"], ds.attrs["indptr"]
                    else:
                        shape = tuple(int(v) for v in ds.shape)
                        data, ind, ptr = ds[()].ravel(), (), ()
                    if shape[0] == BIG_N:
                        data, ind, ptr = (), (), ()  # not modelled
                    forms.add((o, n, "csr" if sparse else "dense", shape, tuple(_num(v) for v in data),
                               tuple(int(v) for v in ind), tuple(int(v) for v in ptr)))
            out.append((j, int(e["inputs"]["x"][0]), "outputs" in e, frozenset(forms), "hash" in e))
        return out


def spec_cache_layout(entries):
    out = []
    for j, e in enumerate(rp.as_seq(entries)):
        forms = frozenset((str(s["o"]), str(s["n"]), str(s["form"]["fmt"]), tuple(s["form"]["shape"]),
                           tuple(s["form"]["data"]), tuple(s["form"]["indices"]), tuple(s["form"]["indptr"]))
                          for s in e["jac"])
        out.append((j + 1, e["inp"], bool(e["out"]), forms, True))
    return out


_REOPEN_CHILD = r"""
import sys, json, logging, warnings
logging.disable(logging.CRITICAL); warnings.filterwarnings("ignore")
from gemseo.caches.hdf5_cache import HDF5Cache
from harness.checks.c11_aux import served
path, node, n, big = sys.argv[1], sys.argv[2], int(sys.argv[3]), sys.argv[4] == "1"
cache = HDF5Cache(hdf_file_path=path, hdf_node_path=node)
print(json.dumps({"len": len(cache), "served": served(cache, n, big)}))
"""


def run_cache_walk(job):
    import logging
    import warnings

    logging.disable(logging.CRITICAL)
    warnings.filterwarnings("ignore")
    from gemseo.caches.hdf5_cache import HDF5Cache

    idx, edge_ids, workdir, n_inputs, child, jacs, big = job
    g = rp._G
    sep = HDF5Cache._JACOBIAN_SEPARATOR
    node = "node" if idx % 2 == 0 else "caches/disc_1"
    path = Path(workdir) / f"cache{idx}.h5"
    out = []
    ops = []
    steps = 0
    sig = {}
    try:
        cache = HDF5Cache(hdf_file_path=path, hdf_node_path=node)
        for k in edge_ids:
            _, dst, act, args = g.edges[k]
            state = g.states[dst]
            sig = {}
            try:
                if act == "CacheOutputs":
                    ops.append("CacheOutputs")
                    cache.cache_outputs(cache_inputs(args[0], big), cache_outputs(args[0]))
                elif act == "CacheJacobian":
                    i, rep, b = args
                    sig = {"rep": str(rep), "block": str(b)}
                    ops.append(f"CacheJacobian:{rep}:{b}")
                    cache.cache_jacobian(cache_inputs(i, big), build_jacobian(i, jacs[(i, str(b))], str(rep)))
                elif act == "Reopen":
                    ops.append("Reopen")
                    cache = HDF5Cache(hdf_file_path=path, hdf_node_path=node)
                else:
                    raise RuntimeError(act)
                got = served(cache, n_inputs, big)
                n = len(cache)
                layout = read_cache_layout(path, node, sep)
            except Exception as ex:  # noqa: BLE001
                out.append(("CacheReopen", dict(sig, what="exception:" + type(ex).__name__), list(ops),
                            {"exception": repr(ex)[:600]}))
                break
            want = spec_served(state["mem"])
            if got != want:
                i = next(i for i in want if got.get(i) != want[i])
                what = "served:" + ("outputs" if got[i][:2] != want[i][:2] else "jacobian")
                out.append(("CacheReopen", dict(sig, what=what), list(ops),
                            {"input": i, "impl": got[i], "spec": want[i]}))
                break
            if n != state["maxIdx"]:
                out.append(("CacheReopen", dict(sig, what="length"), list(ops), {"impl": n, "spec": state["maxIdx"]}))
                break
            want_layout = spec_cache_layout(state["entries"])
            if layout != want_layout:
                bad = next((a, b) for a, b in zip(layout + [None] * len(want_layout), want_layout + [None] * len(layout))
                           if a != b)
                what = "entries"
                if bad[0] and bad[1] and bad[0][:3] == bad[1][:3] and bad[0][4] == bad[1][4]:
                    what = "jacobian_form"
                out.append(("CacheLayout", dict(sig, what=what), list(ops),
                            {"impl": _layout_json(bad[0]), "spec": _layout_json(bad[1])}))
                break
            steps += 1
        if child and not out and steps:
            # a reopening in a new process (no in-process singleton, no shared index)
            p = subprocess.run([sys.executable, "-c", _REOPEN_CHILD, str(path), node, str(n_inputs), "1" if big else "0"],
                               capture_output=True, text=True, cwd=str(Path(__file__).resolve().parents[2]),
                               env=dict(os.environ))
            if p.returncode != 0:
                out.append(("CacheReopen", {"what": "exception:child"}, ops + ["ReopenInNewProcess"],
                            {"stderr": p.stderr[-800:]}))
            else:
                res = json.loads(p.stdout.strip().splitlines()[-1])
                if res["served"] != want or res["len"] != state["maxIdx"]:
                    out.append(("CacheReopen", {"what": "served:child"}, ops + ["ReopenInNewProcess"],
                                {"impl": res, "spec": want}))
    finally:
        if path.exists():
            os.remove(path)
    return {"idx": idx, "steps": steps, "viol": out}


def _layout_json(entry):
    if entry is None:
        return None
    j, inp, has_out, forms, has_hash = entry
    return {"index": j, "input": inp, "outputs": has_out, "hash": has_hash,
            "jacobian": sorted([list(f[:3]) + [list(f[3]), list(f[4]), list(f[5]), list(f[6])] for f in forms])}


ALL_REPS = '{"dense", "csr", "csc", "coo"}'


def cache_tour(ck: Check, rng, *, n_inputs, reps, blocks, budget, label, children=2):
    """model-check HDFCacheFile for these constants, walk its graph on a real HDF5Cache (serially: an
    HDF5Cache owns a multiprocessing manager, which a pool worker may not start)."""
    cfg = (f"CONSTANTS NInputs = {n_inputs}\n Reps = {reps}\n Blocks = {blocks}\n"
           "SPECIFICATION Spec\nCHECK_DEADLOCK FALSE\n"
           "INVARIANT Served\nINVARIANT NoDuplicate\nINVARIANT LenIsMax\nINVARIANT FormsRoundTrip\n"
           "PROPERTY ReopenIsIdentity\n")
    r = ck.tlc("HDFCacheFile", cfg, workers=4, timeout=900, dump=True,
               require_actions=("CacheOutputs", "CacheJacobian"))
    jacs = {}
    for v in r.printed():
        if isinstance(v, tuple) and v and v[0] == "JAC":
            jacs[(v[1], str(v[2]))] = v[3]
    g = rp.canonicalise(Graph(ck.work / "HDFCacheFile.dot"))
    (ck.work / "HDFCacheFile.dot").unlink()
    # vacuity, from the graph itself: every representation of every block is cached, and the cache reopened
    import re

    combos = {(str(e[3][1]), str(e[3][2])) for e in g.edges if e[2] == "CacheJacobian" and e[0] != e[1]}
    need = {(a, b) for a in re.findall(r'"(\w+)"', reps) for b in re.findall(r'"(\w+)"', blocks)}
    if combos != need or not any(e[2] == "Reopen" for e in g.edges) or \
            not any(e[2] == "CacheOutputs" for e in g.edges) or set(jacs) != {(i, b) for i in range(1, n_inputs + 1)
                                                                             for _, b in need}:
        raise MachineryError(f"vacuity: HDFCacheFile transitions {sorted(combos)} for {sorted(need)}")
    if budget is None:
        walks, covered, wanted = rp.Tour(g).walks(40)
    else:
        walks, covered, wanted = rp.Tour(g).walks(40, budget=budget, rng=rng)
    rp.set_graph(g)
    big = '"big"' in blocks
    jobs = [(i, w, str(ck.work), n_inputs, i < children, jacs, big) for i, w in enumerate(walks)]
    results = [run_cache_walk(j) for j in jobs]
    done = set()
    for x, w in zip(results, walks):
        for clause, sig, ops, detail in x["viol"]:
            ck.violation(clause, dict(sig, ops=ops[-10:]), dict(detail, ops=ops))
        if not x["viol"]:
            ck.traces += 1
        for k in w[:x["steps"]]:
            e = g.edges[k]
            if e[2] == "CacheJacobian" and e[0] != e[1]:
                done.add(f"{e[3][1]}:{e[3][2]}")
    ck.sample({"cache_walk": [g.edges[k][2] + str(list(g.edges[k][3])) for k in walks[0][:12]]})
    ck.extra.setdefault("cache_tours", {})[label] = {
        "states": len(g.states), "edges": len(g.edges), "walks": len(walks), "edges_covered": covered,
        "edges_wanted": wanted, "steps_replayed": sum(x["steps"] for x in results),
        "first_jacobian_by_representation_and_block": sorted(done)}


def caches(ck: Check, rng, nproc):
    small = '{"sq", "wide", "tall"}'
    if ck.thorough:
        cache_tour(ck, rng, n_inputs=2, reps=ALL_REPS, blocks=small, budget=None, label="2 inputs")
        cache_tour(ck, rng, n_inputs=3, reps='{"dense", "csc"}', blocks='{"sq"}', budget=4000, label="3 inputs")
    else:
        cache_tour(ck, rng, n_inputs=2, reps=ALL_REPS, blocks=small, budget=900, label="2 inputs")
    # a Jacobian whose sparse form exceeds what the attributes of an HDF5 dataset can hold
    cache_tour(ck, rng, n_inputs=1, reps=ALL_REPS, blocks='{"big"}', budget=None, label="big block", children=1)


# ============================================================================= recorded histories (code -> spec)

TRACE_KINDS = {"@f": "vector", "@g": "matrix", "Xtra": "scalar", "_h": "size1", "c": "scalar", "f": "scalar",
               "g": "vector"}
TRACE_NKEYS = 5


def _rec_db(projected):
    """projected database -> JSON for HDFStoreTrace (a value that is not one of the built ones gets val -1)."""
    out = []
    for key, outs in projected:
        out.append({"key": key if isinstance(key, int) else -1,
                    "outs": [{"name": n, "kind": str(k), "val": v if isinstance(v, int) else -1}
                             for n, (k, v) in sorted(outs.items())]})
    return out


def _rec_layout(layout):
    out = []
    for i in sorted(k for k in layout if isinstance(k, int)):
        x, k, v, arr = layout[i]
        out.append({"x": x if isinstance(x, int) else -1, "k": list(k or ()),
                    "v": [t if isinstance(t, int) else -1 for t in v],
                    "arr": [{"idx": a[0], "kind": str(a[1]), "val": a[2] if isinstance(a[2], int) else -1}
                            for a in sorted(arr, key=lambda a: a[0])]})
    if "stray" in layout:
        out.append({"x": -1, "k": list(layout["stray"]), "v": [], "arr": []})
    return out


def record_history(job):
    """One random history on a real Database; returns the trace (events) for HDFStoreTrace."""
    import logging
    import random
    import warnings

    logging.disable(logging.CRITICAL)
    warnings.filterwarnings("ignore")
    from gemseo.algos.database import Database

    idx, seed, workdir = job
    rnd = random.Random(seed)
    names = sorted(TRACE_KINDS)
    rank = {n: i + 1 for i, n in enumerate(names)}
    node = "" if idx % 2 == 0 else "hist/run_1"
    path = Path(workdir) / f"t{idx}.h5"
    full = Path(workdir) / f"t{idx}-full.h5"
    other = Path(workdir) / f"t{idx}-other.h5"
    database = Database()
    events = []
    try:
        def outs_for(key, chosen):
            vals = [{"name": n, "kind": TRACE_KINDS[n], "val": 10 * key + rank[n]} for n in chosen]
            real_outs = {o["name"]: rp.build(o["name"], o["kind"], o["val"]) for o in reversed(vals)}
            return vals, real_outs

        def export(append, target, op):
            database.to_hdf(target, append=append, hdf_node_path=node)
            back = Database.from_hdf(target, hdf_node_path=node)
            ev = {"op": op, "append": bool(append), "loaded": _rec_db(rp.project_db(back)),
                  "memory": _rec_db(rp.project_db(database))}
            if op == "Export":
                ev["layout"] = _rec_layout(rp.read_layout(target, node))
            events.append(ev)

        # how exports are triggered: explicitly, or (as the scenario backups do) from a listener of the
        # database, at every store or at every new iteration; the listener runs inside Database.store
        mode = ("explicit", "explicit", "store_listener", "new_iter_listener")[idx % 4]
        state = {"exists": False}

        def backup(_x):
            export(True, path, "Export")
            state["exists"] = True

        def attach(db):
            if mode == "store_listener":
                db.add_store_listener(backup)
            elif mode == "new_iter_listener":
                db.add_new_iter_listener(backup)

        attach(database)
        for _ in range(rnd.randint(4, 14)):
            have = {rp.key_id(x.wrapped_array): set(o) for x, o in database.items()}
            choice = rnd.choice(["store", "store", "more", "more", "export", "export", "reload", "update", "merge"])
            if choice == "store" and len(have) < TRACE_NKEYS:
                key = len(have) + 1
                vals, real_outs = outs_for(key, rnd.sample(names, rnd.randint(0, 4)))
                events.append({"op": "Store", "key": key, "outs": vals})
                database.store(rp.POINTS[key].copy(), real_outs)
            elif choice == "more" and have:
                key = rnd.choice(sorted(have))
                free = [n for n in names if n not in have[key]]
                vals, real_outs = outs_for(key, rnd.sample(free, rnd.randint(0, min(3, len(free)))))
                events.append({"op": "StoreMore", "key": key, "outs": vals})
                database.store(rp.POINTS[key].copy(), real_outs)
            elif choice == "export":
                export(rnd.random() < 0.7, path, "Export")
                state["exists"] = True
            elif choice == "reload" and state["exists"]:
                database = Database.from_hdf(path, hdf_node_path=node)
                attach(database)
                events.append({"op": "Reload", "memory": _rec_db(rp.project_db(database))})
            elif choice == "update" and state["exists"] and mode == "explicit":
                # (with an exporting listener attached, update_from_hdf would write the file it is reading)
                database.update_from_hdf(path, hdf_node_path=node)
                events.append({"op": "Update", "memory": _rec_db(rp.project_db(database))})
            elif choice == "merge" and mode == "explicit":
                # another file, written by another database: some points the working database has (with outputs
                # it has or not) and the next new ones, in any order; written at once or incrementally
                n_new = rnd.randint(0, min(2, TRACE_NKEYS - len(have)))
                keys = rnd.sample(sorted(have), rnd.randint(0 if n_new else min(1, len(have)), min(2, len(have))))
                for key in range(len(have) + 1, len(have) + n_new + 1):
                    keys.insert(rnd.randint(0, len(keys)), key)
                new_keys = sorted(k for k in keys if k not in have)
                it = iter(new_keys)
                keys = [k if k in have else next(it) for k in keys]  # the new points arrive in their numbering order
                if other.exists():
                    os.remove(other)
                foreign = Database()
                rec = []
                incremental = rnd.random() < 0.5
                for key in keys:
                    vals, real_outs = outs_for(key, rnd.sample(names, rnd.randint(0, 4)))
                    rec.append({"key": key, "outs": vals})
                    foreign.store(rp.POINTS[key].copy(), real_outs)
                    if incremental:
                        foreign.to_hdf(other, append=True, hdf_node_path=node)
                if not incremental:
                    foreign.to_hdf(other, hdf_node_path=node)
                if keys:
                    database.update_from_hdf(other, hdf_node_path=node)
                    events.append({"op": "UpdateFrom", "other": rec, "memory": _rec_db(rp.project_db(database))})
        export(True, path, "Export")
        export(False, full, "FullCopy")
        return {"id": idx, "events": events, "node": node or "(root)", "mode": mode}
    except Exception as ex:  # noqa: BLE001 - gemseo raised on a history the specification allows
        import traceback

        return {"id": idx, "events": events, "node": node or "(root)", "exception": repr(ex),
                "traceback": traceback.format_exc(limit=5)}
    finally:
        for p in (path, full, other):
            if p.exists():
                os.remove(p)


def histories(ck: Check, rng, nproc):
    n = 1500 if ck.thorough else 120
    jobs = [(i, rng.randrange(2**31), str(ck.work)) for i in range(n)]
    with mp.get_context("fork").Pool(nproc) as pool:
        traces = pool.map(record_history, jobs, chunksize=max(1, n // (nproc * 4)))
    ok_traces = []
    for t in traces:
        if "exception" in t:
            ck.violation("TraceConformance", {"what": "exception", "ops": [e["op"] for e in t["events"]][-8:]},
                         {"exception": t["exception"], "traceback": t["traceback"], "events": t["events"]})
        else:
            ok_traces.append(t)
    by = lambda kind: "{" + ", ".join('"%s"' % k for k, v in sorted(TRACE_KINDS.items()) if v == kind) + "}"  # noqa: E731
    names_set = "{" + ", ".join('"%s"' % k for k in sorted(TRACE_KINDS)) + "}"
    cfg = (f"CONSTANTS NKeys = {TRACE_NKEYS}\n Names = {names_set}\n"
           f" Scalars = {by('scalar')}\n Size1s = {by('size1')}\n Vectors = {by('vector')}\n Matrices = {by('matrix')}\n"
           " WithProblem = FALSE\nINIT TInit\nNEXT TNext\nCONSTRAINT Reach\nPOSTCONDITION Accepted\nCHECK_DEADLOCK FALSE\n"
           "INVARIANT IndexConsistency\nINVARIANT PendingCovers\nINVARIANT NoHole\n")
    f = ck.work / "hdf-traces.json"
    f.write_text(json.dumps([{"id": t["id"], "events": t["events"]} for t in ok_traces]))
    r = ck.tlc("HDFStoreTrace", cfg, workers=1, timeout=1500, count=False, env={"TRACE_FILE": str(f)}, coverage=False)
    verdict = {}
    for v in r.printed():
        if isinstance(v, tuple) and v and v[0] == "TRACE":
            verdict[v[1]] = (v[2], v[3])
    accepted = 0
    for t in ok_traces:
        if t["id"] not in verdict:
            raise MachineryError(f"no verdict for trace {t['id']}")
        reached, total = verdict[t["id"]]
        if reached != total:
            nxt = t["events"][reached]
            ck.violation("TraceConformance", {"what": nxt["op"] + ("(append)" if nxt.get("append") else ""),
                                              "ops": [e["op"] for e in t["events"][:reached + 1]][-8:]},
                         {"matched_prefix": reached, "rejected_event": nxt, "node": t["node"],
                          "events": t["events"][:reached + 1]})
        else:
            accepted += 1
            ck.traces += 1
    ck.states += r.distinct
    ck.transitions += r.generated
    if ok_traces:
        ck.sample({"recorded_history": [e["op"] + ("(append)" if e.get("append") else "") for e in ok_traces[0]["events"]]})
    ck.extra["recorded_histories"] = {"recorded": n, "accepted": accepted, "events": sum(len(t["events"]) for t in ok_traces),
                                      "other_files_read": sum(1 for t in ok_traces for e in t["events"] if e["op"] == "UpdateFrom"),
                                      "keys": TRACE_NKEYS, "names": len(TRACE_KINDS)}


def run(ck: Check, rng):
    import time

    nproc = int(os.environ.get("VERIF_NPROC", "0")) or (16 if ck.thorough else 8)
    rp.preload()
    t = [time.time()]
    for part in (histories, design_spaces, caches):
        part(ck, rng, nproc)
        t.append(time.time())
    ck.extra["aux_wall_s"] = {"histories": round(t[1] - t[0], 1), "design_spaces": round(t[2] - t[1], 1),
                              "caches": round(t[3] - t[2], 1)}
    ck.assumptions += [
        "design-space numbers: id n stands for n/7 (float variables) or n (integer variables); HDF5 and text files "
        "are compared exactly (a difference confined to the 17th significant digit is labelled precision=17th_digit)",
        "cache reopening: one cache object open at a time on a node (two concurrent objects: D11, outside C11); "
        "the elements of the 'big' Jacobian block (400 x 400, ~24000 non-zero elements) are not modelled: the harness "
        "supplies the matrix and compares what is served with what it supplied",
        "problem files: constraints and observables are compared in the order in which the problem lists them",
    ]
