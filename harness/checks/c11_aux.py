"""C11 - further clauses (stub)."""


def run(ck, rng):
    return
