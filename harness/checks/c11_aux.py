"""C11 - further clauses: design-space files (DesignSpaceFile.tla) and HDF5 cache reopening
(HDFCacheFile.tla).  The specification enumerates the instances / the state graph and computes what
the files must contain; this module builds the real objects, performs the real I/O and compares.
"""
from __future__ import annotations

import multiprocessing as mp
import os
import subprocess
import sys
import json
from pathlib import Path

import numpy as np

from ..core import Check, Graph, MachineryError
from . import c11_replay as rp

# ============================================================================= design spaces

DIGITS16 = 1e-15  # relative error of a number printed with 16 significant digits (0.5e-15) with margin


def real(n, vtype):
    """the specification's number id -> the real number (floats: not representable in 16 digits)."""
    return float(n) if vtype == "integer" else n / 7.0


def bound(b, vtype):
    if b["inf"]:
        return -np.inf if b["n"] < 0 else np.inf
    return real(b["n"], vtype)


def build_space(space):
    from gemseo.algos.design_space import DesignSpace

    ds = DesignSpace()
    for v in space:
        t = v["type"]
        value = None
        if v["hasVal"]:
            value = np.array([real(n, t) for n in v["val"]])
            if t == "integer":
                value = value.astype(int)
        ds.add_variable(v["name"], size=v["size"], type_=t,
                        lower_bound=np.array([bound(b, t) for b in v["lb"]]),
                        upper_bound=np.array([bound(b, t) for b in v["ub"]]), value=value)
    return ds


def spec_projection(space):
    """the instance in the vocabulary of c11_replay.project_ds"""
    return [(v["name"], v["size"], v["type"], [bound(b, v["type"]) for b in v["lb"]],
             [bound(b, v["type"]) for b in v["ub"]],
             [real(n, v["type"]) for n in v["val"]] if v["hasVal"] else None) for v in space]


def close(a, b, tol):
    if a is None or b is None:
        return a is None and b is None
    if len(a) != len(b):
        return False
    for x, y in zip(a, b):
        if np.isinf(x) or np.isinf(y):
            if x != y:
                return False
        elif abs(x - y) > tol * abs(y):
            return False
    return True


def diff_space(got, want, tol):
    if [g[0] for g in got] != [w[0] for w in want]:
        return "names", {"impl": [g[0] for g in got], "spec": [w[0] for w in want]}
    for g, w in zip(got, want):
        for field, i in (("size", 1), ("type", 2)):
            if g[i] != w[i]:
                return field, {"variable": w[0], "impl": g[i], "spec": w[i]}
        for field, i in (("lower_bound", 3), ("upper_bound", 4), ("value", 5)):
            if not close(g[i], w[i], tol):
                return field, {"variable": w[0], "impl": g[i], "spec": w[i]}
    return None


def read_csv_rows(path):
    lines = [ln.split() for ln in Path(path).read_text().splitlines() if ln.strip()]
    return tuple(lines[0]), [tuple(r) for r in lines[1:]]


def diff_csv_rows(rows, spec_rows, fields):
    """real text rows against the rows the specification computed (structure exact, numbers to 16 digits)."""
    col = {f: i for i, f in enumerate(fields)}
    rows = [tuple(r[col[f]] for f in ("name", "lower_bound", "value", "upper_bound", "type")) if len(r) == 5 else r
            for r in rows]
    if len(rows) != len(spec_rows):
        return "row_count", {"impl": len(rows), "spec": len(spec_rows)}
    for k, (r, s) in enumerate(zip(rows, spec_rows)):
        if len(r) != 5:
            return "fields", {"row": k, "impl": r}
        name, lb, value, ub, vtype = r
        if name != s["name"] or vtype != s["type"]:
            return "name_or_type", {"row": k, "impl": r, "spec": (s["name"], s["type"])}
        if (value == "None") != (not s["some"]):
            return "none_marker", {"row": k, "impl": value, "spec_has_value": s["some"]}
        want = [bound(s["lb"], vtype), bound(s["ub"], vtype)] + ([real(s["value"], vtype)] if s["some"] else [])
        got_tok = [lb, ub] + ([value] if s["some"] else [])
        try:
            got = [float(t) for t in got_tok]
        except ValueError:
            return "number", {"row": k, "impl": r}
        if not close(got, want, DIGITS16):
            return "number", {"row": k, "impl": got, "spec": want}
    return None


def read_hdf_space(path, node):
    import h5py

    with h5py.File(path, "r") as f:
        g = f[node] if node else f
        g = g["design_space"]
        names = [n.decode() for n in g["names"][()]]
        groups = {}
        for name in g:
            if name == "names":
                continue
            v = g[name]
            groups[name] = {"size": int(v["size"][()]), "l_b": [float(x) for x in v["l_b"][()]],
                            "u_b": [float(x) for x in v["u_b"][()]],
                            "var_type": [t.decode() for t in v["var_type"][()]],
                            "value": [float(x) for x in v["value"][()]] if "value" in v else None}
        return names, groups


def diff_hdf_layout(names, groups, spec_hdf):
    if tuple(names) != tuple(spec_hdf["names"]):
        return "names", {"impl": names, "spec": list(spec_hdf["names"])}
    want_groups = {g["name"]: g for g in spec_hdf["groups"]}
    if set(groups) != set(want_groups):
        return "groups", {"impl": sorted(groups), "spec": sorted(want_groups)}
    for name, w in want_groups.items():
        g = groups[name]
        t = w["var_type"][0]
        want = {"size": w["size"], "l_b": [bound(b, t) for b in w["l_b"]], "u_b": [bound(b, t) for b in w["u_b"]],
                "var_type": list(w["var_type"]),
                "value": [real(n, t) for n in w["value"]] if w["hasValue"] else None}
        if g != want:
            return "group", {"variable": name, "impl": g, "spec": want}
    return None


def run_space_case(job):
    """one instance: CSV and HDF5 round trips; returns a list of (clause, what, detail)."""
    import logging
    import warnings

    logging.disable(logging.CRITICAL)
    warnings.filterwarnings("ignore")
    from gemseo.algos.design_space import DesignSpace

    idx, space, header, rows, hdf, workdir = job
    out = []
    want = spec_projection(space)
    node = "" if idx % 2 == 0 else "spaces/s1"
    csv = Path(workdir) / f"ds{idx}.csv"
    h5 = Path(workdir) / f"ds{idx}.h5"
    try:
        ds = build_space(space)
        d = diff_space(rp.project_ds(ds), want, 0.0)
        if d:  # the object built by the harness is not the instance: not gemseo's I/O
            return [("Build", d[0], d[1])]
        # ---- text file
        try:
            ds.to_csv(csv)
            got_header, got_rows = read_csv_rows(csv)
            if got_header != tuple(header):
                out.append(("CsvStructure", "header", {"impl": got_header, "spec": header}))
            else:
                d = diff_csv_rows(got_rows, rows, header)
                if d:
                    out.append(("CsvStructure", d[0], d[1]))
            back = DesignSpace.from_csv(csv) if idx % 3 else DesignSpace.from_file(csv)
            d = diff_space(rp.project_ds(back), want, DIGITS16)
            if d:
                out.append(("CsvRoundTrip", d[0], d[1]))
        except Exception as ex:  # noqa: BLE001
            out.append(("CsvRoundTrip", "exception:" + type(ex).__name__, {"exception": repr(ex)}))
        # ---- HDF5 file (root or nested node)
        try:
            if node or idx % 4 == 0:
                ds.to_hdf(h5, hdf_node_path=node)
            else:
                ds.to_file(h5)
            names, groups = read_hdf_space(h5, node)
            d = diff_hdf_layout(names, groups, hdf)
            if d:
                out.append(("HdfStructure", d[0], d[1]))
            back = DesignSpace.from_hdf(h5, hdf_node_path=node) if node else DesignSpace.from_file(h5)
            d = diff_space(rp.project_ds(back), want, 0.0)
            if d:
                out.append(("HdfRoundTrip", d[0], d[1]))
        except Exception as ex:  # noqa: BLE001
            out.append(("HdfRoundTrip", "exception:" + type(ex).__name__, {"exception": repr(ex)}))
    finally:
        for p in (csv, h5):
            if p.exists():
                os.remove(p)
    return [(c, w, dict(d, node=node or "(root)")) for c, w, d in out]


def design_spaces(ck: Check, rng, nproc):
    if ck.thorough:
        grids = [(2, '{"finite", "low_inf", "up_inf", "free", "mixed"}', None),
                 (3, '{"finite", "free", "mixed"}', 6000)]
    else:
        grids = [(2, '{"finite", "low_inf", "up_inf", "free", "mixed"}', 300)]
    n_cases = 0
    for nvars, patterns, budget in grids:
        cfg = (f"CONSTANTS NVars = {nvars}\n Sizes = {{1, 2}}\n Types = {{\"float\", \"integer\"}}\n"
               f" Patterns = {patterns}\nSPECIFICATION Spec\nCHECK_DEADLOCK FALSE\n"
               "INVARIANT RoundTripCsv\nINVARIANT RoundTripHdf\nINVARIANT RowCount\nINVARIANT Emit\n")
        r = ck.tlc("DesignSpaceFile", cfg, workers=1, timeout=1500, coverage=False)
        cases = {}
        for v in r.printed():
            if isinstance(v, tuple) and v and v[0] == "CASE":
                _, space, header, rows, hdf = v
                cases.setdefault(repr(space), (space, header, rows, hdf))
        if not cases:
            raise MachineryError("DesignSpaceFile printed no instance")
        items = [cases[k] for k in sorted(cases)]
        if budget and len(items) > budget:
            small = [c for c in items if len(c[0]) == 1]
            items = small + rng.sample([c for c in items if len(c[0]) > 1], budget - len(small))
        jobs = [(n_cases + i,) + tuple(item) + (str(ck.work),) for i, item in enumerate(items)]
        with mp.get_context("fork").Pool(nproc) as pool:
            results = pool.map(run_space_case, jobs, chunksize=max(1, len(jobs) // (nproc * 4)))
        for (idx, space, *_), res in zip(jobs, results):
            for clause, what, detail in res:
                if clause == "Build":
                    raise MachineryError(f"harness could not build the instance {space}: {detail}")
                shape = [(v["size"], v["type"], v["hasVal"]) for v in space]
                ck.violation(clause, {"what": what, "n_vars": len(space), "node": "nested" if idx % 2 else "root"},
                             dict(detail, space=spec_projection(space), shape=shape))
            if not res:
                ck.traces += 1
        if jobs:
            ck.sample({"design_space": spec_projection(jobs[len(jobs) // 2][1]), "formats": ["csv", "hdf5"]})
        n_cases += len(jobs)
        ck.extra.setdefault("design_space_cases", []).append(
            {"n_vars": nvars, "instances_enumerated": r.distinct, "distinct_spaces": len(cases), "replayed": len(jobs)})


# ============================================================================= HDF5 cache reopening

def cache_inputs(i):
    return {"x": np.array([float(i), 0.5]), "n": np.array([i])}


def cache_outputs(i):
    return {"y": np.array([10.0 * i + 0.5, -float(i)]), "tag": np.array([f"run{i}"])}


def cache_jacobian(i):
    from scipy.sparse import csr_array

    dn = np.array([[float(i)], [0.0]])
    return {"y": {"x": np.array([[float(i), 1.0], [0.0, -float(i)]]), "n": csr_array(dn) if i % 2 == 0 else dn}}


def _dense(a):
    return a.toarray() if hasattr(a, "toarray") else np.asarray(a)


def same_arrays(got, want):
    if set(got) != set(want):
        return False
    for k, w in want.items():
        g = got[k]
        if isinstance(w, dict):
            if not isinstance(g, dict) or not same_arrays(g, w):
                return False
        else:
            g, w = _dense(g), _dense(w)
            if g.shape != w.shape or not np.array_equal(g, w):
                return False
    return True


def served(cache, n_inputs):
    """what the open cache object serves: [(has outputs, has jacobian, values are the ones cached)]"""
    out = {}
    for i in range(1, n_inputs + 1):
        e = cache[cache_inputs(i)]
        has_out, has_jac = bool(e.outputs), bool(e.jacobian)
        ok = (not has_out or same_arrays(dict(e.outputs), cache_outputs(i))) and \
             (not has_jac or same_arrays({k: dict(v) for k, v in e.jacobian.items()}, cache_jacobian(i)))
        out[i] = (has_out, has_jac, ok)
    return out


def read_cache_layout(path, node):
    import h5py

    if not Path(path).exists():
        return []
    with h5py.File(path, "r") as f:
        if node not in f:
            return []
        g = f[node]
        out = []
        for j in sorted(int(k) for k in g):
            e = g[str(j)]
            out.append((j, int(e["inputs"]["x"][0]), "outputs" in e, "jacobian" in e, "hash" in e))
        return out


_REOPEN_CHILD = r"""
import sys, json, logging, warnings
logging.disable(logging.CRITICAL); warnings.filterwarnings("ignore")
from gemseo.caches.hdf5_cache import HDF5Cache
from harness.checks.c11_aux import served
path, node, n = sys.argv[1], sys.argv[2], int(sys.argv[3])
cache = HDF5Cache(hdf_file_path=path, hdf_node_path=node)
print(json.dumps({"len": len(cache), "served": {str(k): list(v) for k, v in served(cache, n).items()}}))
"""


def run_cache_walk(job):
    import logging
    import warnings

    logging.disable(logging.CRITICAL)
    warnings.filterwarnings("ignore")
    from gemseo.caches.hdf5_cache import HDF5Cache

    idx, edge_ids, workdir, n_inputs, child = job
    g = rp._G
    node = "node" if idx % 2 == 0 else "caches/disc_1"
    path = Path(workdir) / f"cache{idx}.h5"
    out = []
    ops = []
    steps = 0
    try:
        cache = HDF5Cache(hdf_file_path=path, hdf_node_path=node)
        for k in edge_ids:
            _, dst, act, args = g.edges[k]
            state = g.states[dst]
            try:
                if act == "Cache":
                    i, group = args
                    ops.append(("CacheOutputs" if group == "out" else "CacheJacobian"))
                    if group == "out":
                        cache.cache_outputs(cache_inputs(i), cache_outputs(i))
                    else:
                        cache.cache_jacobian(cache_inputs(i), cache_jacobian(i))
                elif act == "Reopen":
                    ops.append("Reopen")
                    cache = HDF5Cache(hdf_file_path=path, hdf_node_path=node)
                else:
                    raise RuntimeError(act)
                got = served(cache, n_inputs)
                n = len(cache)
                layout = read_cache_layout(path, node)
            except Exception as ex:  # noqa: BLE001
                out.append(("CacheReopen", "exception:" + type(ex).__name__, list(ops), {"exception": repr(ex)}))
                break
            mem = rp.as_seq(state["mem"])
            want = {i + 1: (m["out"], m["jac"], True) for i, m in enumerate(mem)}
            if got != want:
                out.append(("CacheReopen", "served", list(ops), {"impl": got, "spec": want}))
                break
            if n != state["maxIdx"]:
                out.append(("CacheReopen", "length", list(ops), {"impl": n, "spec": state["maxIdx"]}))
                break
            want_layout = [(j + 1, e["inp"], e["out"], e["jac"], True) for j, e in enumerate(rp.as_seq(state["entries"]))]
            if layout != want_layout:
                out.append(("CacheLayout", "entries", list(ops), {"impl": layout, "spec": want_layout}))
                break
            steps += 1
        if child and not out and steps:
            # a reopening in a new process (no in-process singleton, no shared index)
            p = subprocess.run([sys.executable, "-c", _REOPEN_CHILD, str(path), node, str(n_inputs)],
                               capture_output=True, text=True, cwd=str(Path(__file__).resolve().parents[2]),
                               env=dict(os.environ))
            if p.returncode != 0:
                out.append(("CacheReopen", "exception:child", ops + ["ReopenInNewProcess"], {"stderr": p.stderr[-800:]}))
            else:
                res = json.loads(p.stdout.strip().splitlines()[-1])
                want = {str(k): list(v) for k, v in want.items()}
                if res["served"] != want or res["len"] != state["maxIdx"]:
                    out.append(("CacheReopen", "served", ops + ["ReopenInNewProcess"], {"impl": res, "spec": want}))
    finally:
        if path.exists():
            os.remove(path)
    return {"idx": idx, "steps": steps, "viol": out}


def caches(ck: Check, rng, nproc):
    n_inputs = 3 if ck.thorough else 2
    cfg = (f"CONSTANTS NInputs = {n_inputs}\nSPECIFICATION Spec\nCHECK_DEADLOCK FALSE\n"
           "INVARIANT Served\nINVARIANT NoDuplicate\nINVARIANT LenIsMax\nPROPERTY ReopenIsIdentity\n")
    ck.tlc("HDFCacheFile", cfg, workers=4, timeout=600, dump=True)
    g = rp.canonicalise(Graph(ck.work / "HDFCacheFile.dot"))
    for act, grp in (("Cache", "out"), ("Cache", "jac"), ("Reopen", None)):  # vacuity, from the graph itself
        if not any(e[2] == act and (grp is None or e[3][1] == grp) for e in g.edges):
            raise MachineryError(f"vacuity: no {act} {grp or ''} transition in HDFCacheFile")
    walks, covered, wanted = rp.Tour(g).walks(40)
    rp.set_graph(g)
    jobs = [(i, w, str(ck.work), n_inputs, i < 2) for i, w in enumerate(walks)]
    # serial: an HDF5Cache owns a multiprocessing manager, which a pool worker may not start
    results = [run_cache_walk(j) for j in jobs]
    for x in results:
        for clause, what, ops, detail in x["viol"]:
            ck.violation(clause, {"what": what, "ops": ops[-10:]}, dict(detail, ops=ops))
        if not x["viol"]:
            ck.traces += 1
    ck.sample({"cache_walk": [g.edges[k][2] + str(list(g.edges[k][3])) for k in walks[0][:12]]})
    ck.extra["cache_tour"] = {"states": len(g.states), "edges": len(g.edges), "walks": len(walks),
                              "edges_covered": covered, "steps_replayed": sum(x["steps"] for x in results)}


# ============================================================================= recorded histories (code -> spec)

TRACE_KINDS = {"@f": "vector", "@g": "matrix", "Xtra": "scalar", "_h": "size1", "c": "scalar", "f": "scalar",
               "g": "vector"}
TRACE_NKEYS = 5


def _rec_db(projected):
    """projected database -> JSON for HDFStoreTrace (a value that is not one of the built ones gets val -1)."""
    out = []
    for key, outs in projected:
        out.append({"key": key if isinstance(key, int) else -1,
                    "outs": [{"name": n, "kind": str(k), "val": v if isinstance(v, int) else -1}
                             for n, (k, v) in sorted(outs.items())]})
    return out


def _rec_layout(layout):
    out = []
    for i in sorted(k for k in layout if isinstance(k, int)):
        x, k, v, arr = layout[i]
        out.append({"x": x if isinstance(x, int) else -1, "k": list(k or ()),
                    "v": [t if isinstance(t, int) else -1 for t in v],
                    "arr": [{"idx": a[0], "kind": str(a[1]), "val": a[2] if isinstance(a[2], int) else -1}
                            for a in sorted(arr, key=lambda a: a[0])]})
    if "stray" in layout:
        out.append({"x": -1, "k": list(layout["stray"]), "v": [], "arr": []})
    return out


def record_history(job):
    """One random history on a real Database; returns the trace (events) for HDFStoreTrace."""
    import logging
    import random
    import warnings

    logging.disable(logging.CRITICAL)
    warnings.filterwarnings("ignore")
    from gemseo.algos.database import Database

    idx, seed, workdir = job
    rnd = random.Random(seed)
    names = sorted(TRACE_KINDS)
    rank = {n: i + 1 for i, n in enumerate(names)}
    node = "" if idx % 2 == 0 else "hist/run_1"
    path = Path(workdir) / f"t{idx}.h5"
    full = Path(workdir) / f"t{idx}-full.h5"
    database = Database()
    events = []
    try:
        def outs_for(key, chosen):
            vals = [{"name": n, "kind": TRACE_KINDS[n], "val": 10 * key + rank[n]} for n in chosen]
            real_outs = {o["name"]: rp.build(o["name"], o["kind"], o["val"]) for o in reversed(vals)}
            return vals, real_outs

        def export(append, target, op):
            database.to_hdf(target, append=append, hdf_node_path=node)
            back = Database.from_hdf(target, hdf_node_path=node)
            ev = {"op": op, "append": bool(append), "loaded": _rec_db(rp.project_db(back)),
                  "memory": _rec_db(rp.project_db(database))}
            if op == "Export":
                ev["layout"] = _rec_layout(rp.read_layout(target, node))
            events.append(ev)

        # how exports are triggered: explicitly, or (as the scenario backups do) from a listener of the
        # database, at every store or at every new iteration; the listener runs inside Database.store
        mode = ("explicit", "explicit", "store_listener", "new_iter_listener")[idx % 4]
        state = {"exists": False}

        def backup(_x):
            export(True, path, "Export")
            state["exists"] = True

        def attach(db):
            if mode == "store_listener":
                db.add_store_listener(backup)
            elif mode == "new_iter_listener":
                db.add_new_iter_listener(backup)

        attach(database)
        for _ in range(rnd.randint(4, 14)):
            have = {rp.key_id(x.wrapped_array): set(o) for x, o in database.items()}
            choice = rnd.choice(["store", "store", "more", "more", "export", "export", "reload", "update"])
            if choice == "store" and len(have) < TRACE_NKEYS:
                key = len(have) + 1
                vals, real_outs = outs_for(key, rnd.sample(names, rnd.randint(0, 4)))
                events.append({"op": "Store", "key": key, "outs": vals})
                database.store(rp.POINTS[key].copy(), real_outs)
            elif choice == "more" and have:
                key = rnd.choice(sorted(have))
                free = [n for n in names if n not in have[key]]
                vals, real_outs = outs_for(key, rnd.sample(free, rnd.randint(0, min(3, len(free)))))
                events.append({"op": "StoreMore", "key": key, "outs": vals})
                database.store(rp.POINTS[key].copy(), real_outs)
            elif choice == "export":
                export(rnd.random() < 0.7, path, "Export")
                state["exists"] = True
            elif choice == "reload" and state["exists"]:
                database = Database.from_hdf(path, hdf_node_path=node)
                attach(database)
                events.append({"op": "Reload", "memory": _rec_db(rp.project_db(database))})
            elif choice == "update" and state["exists"] and mode == "explicit":
                # (with an exporting listener attached, update_from_hdf would write the file it is reading)
                database.update_from_hdf(path, hdf_node_path=node)
                events.append({"op": "Update", "memory": _rec_db(rp.project_db(database))})
        export(True, path, "Export")
        export(False, full, "FullCopy")
        return {"id": idx, "events": events, "node": node or "(root)", "mode": mode}
    except Exception as ex:  # noqa: BLE001 - gemseo raised on a history the specification allows
        import traceback

        return {"id": idx, "events": events, "node": node or "(root)", "exception": repr(ex),
                "traceback": traceback.format_exc(limit=5)}
    finally:
        for p in (path, full):
            if p.exists():
                os.remove(p)


def histories(ck: Check, rng, nproc):
    n = 1500 if ck.thorough else 120
    jobs = [(i, rng.randrange(2**31), str(ck.work)) for i in range(n)]
    with mp.get_context("fork").Pool(nproc) as pool:
        traces = pool.map(record_history, jobs, chunksize=max(1, n // (nproc * 4)))
    ok_traces = []
    for t in traces:
        if "exception" in t:
            ck.violation("TraceConformance", {"what": "exception", "ops": [e["op"] for e in t["events"]][-8:]},
                         {"exception": t["exception"], "traceback": t["traceback"], "events": t["events"]})
        else:
            ok_traces.append(t)
    by = lambda kind: "{" + ", ".join('"%s"' % k for k, v in sorted(TRACE_KINDS.items()) if v == kind) + "}"  # noqa: E731
    names_set = "{" + ", ".join('"%s"' % k for k in sorted(TRACE_KINDS)) + "}"
    cfg = (f"CONSTANTS NKeys = {TRACE_NKEYS}\n Names = {names_set}\n"
           f" Scalars = {by('scalar')}\n Size1s = {by('size1')}\n Vectors = {by('vector')}\n Matrices = {by('matrix')}\n"
           " WithProblem = FALSE\nINIT TInit\nNEXT TNext\nCONSTRAINT Reach\nPOSTCONDITION Accepted\nCHECK_DEADLOCK FALSE\n"
           "INVARIANT IndexConsistency\nINVARIANT PendingCovers\nINVARIANT NoHole\n")
    f = ck.work / "hdf-traces.json"
    f.write_text(json.dumps([{"id": t["id"], "events": t["events"]} for t in ok_traces]))
    r = ck.tlc("HDFStoreTrace", cfg, workers=1, timeout=1500, count=False, env={"TRACE_FILE": str(f)}, coverage=False)
    verdict = {}
    for v in r.printed():
        if isinstance(v, tuple) and v and v[0] == "TRACE":
            verdict[v[1]] = (v[2], v[3])
    accepted = 0
    for t in ok_traces:
        if t["id"] not in verdict:
            raise MachineryError(f"no verdict for trace {t['id']}")
        reached, total = verdict[t["id"]]
        if reached != total:
            nxt = t["events"][reached]
            ck.violation("TraceConformance", {"what": nxt["op"] + ("(append)" if nxt.get("append") else ""),
                                              "ops": [e["op"] for e in t["events"][:reached + 1]][-8:]},
                         {"matched_prefix": reached, "rejected_event": nxt, "node": t["node"],
                          "events": t["events"][:reached + 1]})
        else:
            accepted += 1
            ck.traces += 1
    ck.states += r.distinct
    ck.transitions += r.generated
    if ok_traces:
        ck.sample({"recorded_history": [e["op"] + ("(append)" if e.get("append") else "") for e in ok_traces[0]["events"]]})
    ck.extra["recorded_histories"] = {"recorded": n, "accepted": accepted, "events": sum(len(t["events"]) for t in ok_traces),
                                      "keys": TRACE_NKEYS, "names": len(TRACE_KINDS)}


def run(ck: Check, rng):
    import time

    nproc = 16 if ck.thorough else 8
    rp.preload()
    t = [time.time()]
    for part in (histories, design_spaces, caches):
        part(ck, rng, nproc)
        t.append(time.time())
    ck.extra["aux_wall_s"] = {"histories": round(t[1] - t[0], 1), "design_spaces": round(t[2] - t[1], 1),
                              "caches": round(t[3] - t[2], 1)}
    ck.assumptions += [
        "design-space numbers: id n stands for n/7 (float variables) or n (integer variables); HDF5 compared exactly, "
        "text files to a relative 1e-15 (16 significant digits)",
        "cache reopening: one cache object open at a time on a node (two concurrent objects: D11, outside C11)",
        "problem files: constraints and observables are compared by name, not by listing order",
    ]
