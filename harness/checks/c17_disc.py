"""Harness disciplines for C17: affine (or elementwise-square) disciplines with GIVEN integer blocks.

Nothing here knows what a formulation should expose: the classes only turn the instance printed by the
specification (names, sizes, integer blocks, constants, defaults, bounds) into real gemseo disciplines
and a real DesignSpace.
"""
from __future__ import annotations

import numpy as np
from scipy.sparse import csr_array


def _classes():
    from gemseo.core.discipline import Discipline

    class Aff(Discipline):
        """out_o = c_o + sum_i J[o][i] @ phi(in_i); phi = identity ("lin") or the elementwise square ("sq")."""

        def __init__(self, name, ins, outs, mats, consts, defaults, kind="lin", jac_kind="dense",
                     declare_linear=False):
            super().__init__(name)
            self.ins, self.outs, self.mats, self.consts = list(ins), list(outs), mats, consts
            self.kind, self.jac_kind = kind, jac_kind
            self.io.input_grammar.update_from_names(self.ins)
            self.io.output_grammar.update_from_names(self.outs)
            self.io.input_grammar.defaults.update({n: np.array(defaults[n], dtype=float) for n in self.ins})
            if declare_linear and kind == "lin":
                self.io.set_linear_relationships()
            self.n_run = 0

        def _run(self, input_data):
            self.n_run += 1
            out = {}
            for o in self.outs:
                acc = np.array(self.consts[o], dtype=float)
                for i in self.ins:
                    x = np.asarray(input_data[i], dtype=float)
                    acc = acc + self.mats[o][i] @ (x * x if self.kind == "sq" else x)
                out[o] = acc
            return out

        def _compute_jacobian(self, input_names=(), output_names=()):
            jac = {}
            for o in self.outs:
                jac[o] = {}
                for i in self.ins:
                    m = np.array(self.mats[o][i], dtype=float)
                    if self.kind == "sq":
                        m = m * (2.0 * np.asarray(self.io.data[i], dtype=float))[None, :]
                    jac[o][i] = csr_array(m) if self.jac_kind == "sparse" else m
            self.jac = jac

    return Aff


_AFF = None


def aff_class():
    global _AFF
    if _AFF is None:
        _AFF = _classes()
    return _AFF


def build_disciplines(inst, jac_kind="dense", declare_linear=False):
    """inst: the INST record printed by TLC, converted to python (see c17.parse_inst)."""
    Aff = aff_class()
    out = []
    for k, d in enumerate(inst["D"]):
        mats = {o: {i: np.array(inst["J"][o][i], dtype=float) for i in d["ins"]} for o in d["outs"]}
        consts = {o: np.array(inst["c0"][o], dtype=float) for o in d["outs"]}
        out.append(Aff(f"D{k + 1}", d["ins"], d["outs"], mats, consts, inst["dflt"], kind=d["kind"],
                       jac_kind=jac_kind, declare_linear=declare_linear))
    return out


def build_space(inst, names, bounds=None):
    """A real DesignSpace with the variables `names` (in this order), bounds and current values of the instance.

    bounds (printed by the specification): for every name, which components have a lower / an upper bound; a variable
    without any bound is added without the bound arguments, a partly bounded one with infinite entries.
    """
    from gemseo.algos.design_space import DesignSpace

    ds = DesignSpace()
    for n in names:
        kw = {}
        haslb = bounds[n]["haslb"] if bounds else [True] * inst["size"][n]
        hasub = bounds[n]["hasub"] if bounds else [True] * inst["size"][n]
        if any(haslb):
            kw["lower_bound"] = np.where(haslb, np.array(inst["lb"][n], dtype=float), -np.inf)
        if any(hasub):
            kw["upper_bound"] = np.where(hasub, np.array(inst["ub"][n], dtype=float), np.inf)
        ds.add_variable(n, size=inst["size"][n], value=np.array(inst["cur"][n], dtype=float), **kw)
    return ds
