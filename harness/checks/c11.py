"""C11 - saved histories, design spaces, problems and caches reload identically.

Specifications (TLC): HDFStore.tla (abstract database + content of the file + problem description flag),
HDFStoreImpl.tla (the file as _hdf_database.py lays it out: x / k / v / arr_i, the append bookkeeping, the
pending buffer; refines HDFStore), HDFStoreMerge.tla (HDFStoreImpl + other files, written by other databases,
read with update_from_hdf between the append exports), HDFStoreTrace.tla (validates recorded histories),
DesignSpaceFile.tla (text and HDF5 layouts of a design space), HDFCacheFile.tla (HDF5 cache reopening; the
representations of the cached Jacobians).

Binding:
 * spec -> code: the state graph of HDFStoreImpl is walked on a real `Database` (alone or owned by an
   `OptimizationProblem`) with real HDF5 files (transition tour; root and nested node): after every export the
   file is reloaded with `Database.from_hdf` and compared with the specification's db (= Decode(file), an
   invariant TLC checked) and with the in-memory database, the raw h5py layout is compared with the
   specification's `file`, the problem description is reloaded with `OptimizationProblem.from_hdf`, and
   every walk ends with append-export against one full export (c11_replay);
 * code -> spec: random histories with larger alphabets, exports triggered explicitly or from database
   listeners, are recorded (layout + reloaded database after every export) and validated by HDFStoreTrace;
 * enumerations: design spaces (CSV / HDF5) and the cache graph (c11_aux).
`bin/check C11 --replay <file>` re-runs the history of a tour violation.
"""
from __future__ import annotations

import multiprocessing as mp
import random

from ..core import Check, Graph, MachineryError, main
from . import c11_replay as rp

WORKERS = 4  # TLC workers (the machine is shared)
INVARIANTS = ["TypeOK", "NoHole", "KeysAligned", "FileWithinDb", "IndexConsistency", "PendingCovers",
              "RoundTrip", "FullDecodes", "AppendEqualsFull"]
PROPERTIES = ["RoundTripStep", "Refines"]
PROBLEM_ACTIONS = ("ExportProblem", "ReloadProblem")
ACTIONS = ("Store", "StoreMore", "Export")  # Reload, Update: see taken()

# name -> kind ; the names must belong to HDFStore!Universe
CONFIGS = {
    "A": (2, {"@f": "vector", "f": "scalar", "g": "size1"}),
    "B": (2, {"@f": "vector", "c": "scalar", "f": "scalar", "g": "matrix"}),
    "C": (3, {"@g": "matrix", "f": "scalar"}),
    "D": (3, {"@f": "vector", "f": "scalar", "g": "size1"}),
    "E": (1, {"@f": "vector", "@g": "matrix", "c": "scalar", "f": "scalar", "obj": "scalar"}),
    # the database of an OptimizationProblem, exported with the problem or alone
    "P": (2, {"@f": "vector", "f": "scalar"}, True),
    "Q": (2, {"@f": "vector", "c": "size1", "f": "scalar"}, True),
    # with other files (HDFStoreMerge): [nkeys, kinds, problem, MaxForeign]
    "M": (2, {"@f": "vector", "f": "scalar"}, False, 2),
    "N": (3, {"g": "size1"}, False, 3),
    "O": (2, {"@f": "vector", "f": "scalar", "g": "size1"}, False, 2),
}


def with_problem_of(conf):
    return len(CONFIGS[conf]) > 2 and bool(CONFIGS[conf][2])


def foreign_of(conf):
    return CONFIGS[conf][3] if len(CONFIGS[conf]) > 3 else 0


def module_of(conf):
    return "HDFStoreMerge" if foreign_of(conf) else "HDFStoreImpl"


def tla_set(xs):
    return "{" + ", ".join('"%s"' % x for x in sorted(xs)) + "}"


def cfg(conf, *, props=True, constraint=None, abstract=False):
    nkeys, kinds = CONFIGS[conf][:2]
    with_problem = with_problem_of(conf)
    by = lambda kind: tla_set(n for n, k in kinds.items() if k == kind)  # noqa: E731
    s = (f"CONSTANTS NKeys = {nkeys}\n Names = {tla_set(kinds)}\n Scalars = {by('scalar')}\n"
         f" Size1s = {by('size1')}\n Vectors = {by('vector')}\n Matrices = {by('matrix')}\n"
         f" WithProblem = {'TRUE' if with_problem else 'FALSE'}\n")
    if foreign_of(conf) and not abstract:
        s += f" MaxForeign = {foreign_of(conf)}\nSPECIFICATION MSpec\nCHECK_DEADLOCK FALSE\n"
    else:
        s += "SPECIFICATION Spec\nCHECK_DEADLOCK FALSE\n"
    for i in INVARIANTS:
        s += f"INVARIANT {i}\n"
    if props:
        for p in PROPERTIES:
            s += f"PROPERTY {p}\n"
    if constraint:
        s += f"CONSTRAINT {constraint}\n"
    return s


def check_universe():
    """HDFStore!Universe is stated to be in the order of Python's sorted(): verify the statement, and that
    every configured name belongs to it (a wrong constant is a machinery failure, not a finding)."""
    import re

    from ..core import SPECS

    m = re.search(r"^Universe == <<(.*)>>", (SPECS / "HDFStore.tla").read_text(), re.M)
    if not m:
        raise MachineryError("HDFStore!Universe not found")
    universe = re.findall(r'"([^"]*)"', m.group(1))
    if universe != sorted(universe) or len(set(universe)) != len(universe):
        raise MachineryError(f"HDFStore!Universe is not in sorted() order: {universe}")
    from .c11_aux import TRACE_KINDS

    for names in [c[1] for c in CONFIGS.values()] + [TRACE_KINDS]:
        if not set(names) <= set(universe):
            raise MachineryError(f"names outside HDFStore!Universe: {sorted(set(names) - set(universe))}")


def taken(r, actions=("Reload", "Update")):
    """Update never *discovers* a state (its successors are also reached by stores that bring nothing
    new) and Reload may not either, depending on the search order: their distinct-state count can be 0
    although they are taken; require generated transitions instead."""
    for action in actions:
        if r.coverage.get(action, [0, 0])[1] == 0:
            raise MachineryError(f"vacuity: action {action} never taken")


def explore(ck: Check, conf, *, dump, light=False):
    """Exhaustive TLC run: every reachable state of the bounded model satisfies the invariants, every
    export step leaves Decode(file) = db = Decode(full export), and HDFStoreImpl refines HDFStore.
    With dump, the labelled state graph is written for the tour.  light: the state invariants only (the
    largest configuration; the step property and the refinement are checked on the others)."""
    with_problem = with_problem_of(conf)
    if light:
        return ck.tlc(module_of(conf), cfg(conf, props=False), workers=WORKERS, timeout=1700, coverage=False)
    r = ck.tlc(module_of(conf), cfg(conf), workers=WORKERS, timeout=1700, dump=dump, require_actions=ACTIONS)
    taken(r, ("Reload", "Update") + (PROBLEM_ACTIONS if with_problem else ())
          + (("UpdateFrom",) if foreign_of(conf) else ()))
    return r


def abstract_check(ck: Check, conf):
    """the abstract module on its own (its invariants are about content only)"""
    s = cfg(conf, props=False, abstract=True)
    s = "\n".join(line for line in s.splitlines() if not line.startswith("INVARIANT")) + "\n"
    s += "INVARIANT TypeOK\nINVARIANT PendingCovers\nINVARIANT RoundTrip\nPROPERTY AppendEqualsFull\n"
    taken(ck.tlc("HDFStore", s, workers=WORKERS, timeout=600, require_actions=ACTIONS),
          ("Reload", "Update", "UpdateFrom") + (PROBLEM_ACTIONS if with_problem_of(conf) else ()))


def tour(ck: Check, conf, *, max_len, io_budget, nproc, rng):
    """model-check HDFStoreImpl for `conf`, dump its graph, build the walks, replay them on real files."""
    import time

    t0 = time.time()
    r = explore(ck, conf, dump=True)
    t1 = time.time()
    with_problem = with_problem_of(conf)
    dot = ck.work / (module_of(conf) + ".dot")
    g = rp.canonicalise(Graph(dot))
    if len(g.states) != r.distinct:
        raise MachineryError(f"graph dump has {len(g.states)} states, TLC found {r.distinct}")
    t = rp.Tour(g)
    # the files read from other databases that bring nothing new are many (every subset of what the working
    # database already has): a tenth of them is wanted, the others are taken when they lie on the way
    idle = [k for k, e in enumerate(g.edges)
            if e[2] == "UpdateFrom" and rp.canon(g.states[e[0]]["db"]) == rp.canon(g.states[e[1]]["db"])]
    skipped = set(idle) - set(rng.sample(idle, len(idle) // 10))
    skipped = {g.edges[k] for k in skipped}
    is_io = lambda e: e[2] in rp.IO_ACTIONS and e not in skipped  # noqa: E731
    n_edges = len(g.edges)
    n_io = sum(1 for e in g.edges if is_io(e))
    if io_budget is None:
        walks, covered, wanted = t.walks(max_len)
        sampled = False
    else:
        # a sampled tour: cover I/O transitions (exports, loads) up to the budget; the store
        # transitions on the way are exercised too
        walks, covered, wanted = t.walks(max_len, want=is_io, budget=io_budget, rng=rng)
        sampled = covered < wanted
    rp.set_graph(g)
    t2 = time.time()
    jobs = [(i, w, "" if i % 2 == 0 else "hist/run_1", str(ck.work), with_problem) for i, w in enumerate(walks)]
    if nproc > 1:
        ctx = mp.get_context("fork")
        with ctx.Pool(nproc) as pool:
            results = pool.map(rp.run_walk, jobs, chunksize=max(1, len(jobs) // (nproc * 8)))
    else:
        results = [rp.run_walk(j) for j in jobs]
    results.sort(key=lambda x: x["idx"])
    steps = sum(x["steps"] for x in results)
    for x in results:
        new = False
        for v in x["viol"]:
            sig = {"what": v["what"], "ops": v["ops"], "config": conf, "node": v["node"]}
            if "text" in v:
                sig["text"] = v["text"]
            if len(v["ops"]) > 12:
                sig["ops"] = v["ops"][-12:]
            new |= ck.violation(v["clause"], sig, dict(v["detail"], ops=v["ops"], config=conf,
                                                       kinds=CONFIGS[conf][1]))
        if not new:  # (a known finding about the problem description does not stop the walk)
            ck.traces += 1
    for x in results[:1]:
        w = walks[x["idx"]]
        ck.sample({"config": conf, "node": jobs[x["idx"]][2] or "(root)",
                   "ops": [rp.op_name(g.edges[k][2], g.edges[k][3])
                           + (str(list(map(_js, g.edges[k][3]))) if g.edges[k][2].startswith("Store") else "")
                           for k in w[:14]], "walk_length": len(w)})
    if foreign_of(conf):
        # vacuity of the two-file dimension, counted on what was replayed: an append export to the working
        # database's non-empty file, then another file that brings something, then an append export again
        shapes = {}
        for x in results:
            for b in x.get("merges", ()):
                shapes[b] = shapes.get(b, 0) + 1
        ck.extra.setdefault("other_files_between_append_exports", {})[conf] = shapes
        stopped = any(x["steps"] < x["len"] for x in results)  # (walks cut short by a violation cover less)
        if not stopped and (not any("points" in b for b in shapes) or not any("outputs" in b for b in shapes)):
            raise MachineryError(f"vacuity: no Export(append); UpdateFrom(new points / new outputs); Export(append) "
                                 f"in the walks of configuration {conf}: {shapes}")
    info = {"states": len(g.states), "edges": n_edges, "io_edges": n_io, "walks": len(walks),
            "wanted_edges_covered": covered, "wanted_edges": wanted, "steps_replayed": steps,
            "exports": sum(x["exports"] for x in results), "reloads": sum(x["reloads"] for x in results),
            "sampled": sampled,
            "wall_s": {"tlc": round(t1 - t0, 1), "graph+tour": round(t2 - t1, 1), "replay": round(time.time() - t2, 1)}}
    ck.extra.setdefault("tours", {})[conf] = info
    dot.unlink()
    return info


def spec_selftest(ck: Check):
    """Non-vacuity of the invariants: the append bookkeeping without the index offset (ids counted from 0
    instead of from the number of names already in the file) must be refuted by TLC."""
    import shutil

    from ..core import SPECS

    d = ck.work / "specmut"
    d.mkdir(exist_ok=True)
    shutil.copy(SPECS / "HDFStore.tla", d / "HDFStore.tla")
    text = (SPECS / "HDFStoreImpl.tla").read_text()
    good = "ids == [j \\in 1..nIds |-> Len(fe.k) + j - 1]"
    if good not in text:
        raise MachineryError("spec self-test: the line to mutate is not in HDFStoreImpl.tla")
    (d / "HDFStoreImpl.tla").write_text(text.replace(good, "ids == [j \\in 1..nIds |-> j - 1]"))
    r = ck.tlc("HDFStoreImpl", cfg("A", props=False), workers=4, timeout=600, count=False, coverage=False,
               expect_ok=False, spec_dir=d)
    if r.violated not in ("IndexConsistency", "RoundTrip", "PendingCovers", "AppendEqualsFull"):
        raise MachineryError(f"spec self-test: the mutated append bookkeeping was not refuted ({r.violated})")
    ck.extra["spec_selftest"] = {"mutation": "missing ids without offset", "refuted_by": r.violated,
                                 "counterexample_length": len(r.counterexample())}
    # ... and a reading of another file that does not queue what it read for the next append export
    shutil.copy(SPECS / "HDFStoreMerge.tla", d / "HDFStoreMerge.tla")
    good = "pending' = pending \\cup KeysOf(ForeignRead(d))"
    if good not in text:
        raise MachineryError("spec self-test: the UpdateFrom line to mutate is not in HDFStoreImpl.tla")
    (d / "HDFStoreImpl.tla").write_text(text.replace(good, "pending' = pending"))
    r = ck.tlc("HDFStoreMerge", cfg("M", props=False), workers=WORKERS, timeout=600, count=False, coverage=False,
               expect_ok=False, spec_dir=d)
    if r.violated not in ("RoundTrip", "PendingCovers", "AppendEqualsFull"):
        raise MachineryError(f"spec self-test: the mutated UpdateFrom was not refuted ({r.violated})")
    ck.extra["spec_selftest_other_file"] = {"mutation": "UpdateFrom leaves pending unchanged", "refuted_by": r.violated,
                                            "counterexample_length": len(r.counterexample())}


def replay_file(ck: Check, path):
    """bin/check C11 --replay <file>: re-run the history of a violation written by the tour."""
    import json

    v = json.loads(open(path).read())
    d = v["detail"]
    if "steps" not in d or "config" not in d:
        print(json.dumps(v, indent=1)[:4000])
        print("(this violation carries its whole input in the file above; no tour history to re-run)")
        return
    conf = d["config"]
    ck.tlc(module_of(conf), cfg(conf, props=False), workers=WORKERS, timeout=1700, dump=True, coverage=False)
    g = rp.canonicalise(Graph(ck.work / (module_of(conf) + ".dot")))
    rp.set_graph(g)
    walk = rp.find_walk(g, d["steps"])
    node = "" if d.get("node") in (None, "(root)") else d["node"]
    r = rp.Replayer(g, ck.work, "replay", node, with_problem_of(conf), variant=d.get("variant", 0))
    r.run(walk, final=v.get("clause") == "AppendEqualsFull")
    r.cleanup()
    print("history:", " ; ".join(d["steps"]), "| node:", node or "(root)")
    for x in r.viol + r.soft:
        sig = {"what": x["what"], "ops": x["ops"][-12:], "config": conf, "node": "nested" if node else "root"}
        if "text" in x:
            sig["text"] = x["text"]
        ck.violation(x["clause"], sig, dict(x["detail"], steps=d["steps"], config=conf))
    if not (r.viol or r.soft):
        print("the history does not violate the specification on this tree")


def _js(x):
    return sorted(x) if isinstance(x, (set, frozenset)) else x


def run(ck: Check):
    rng = random.Random(ck.seed)
    import os

    nproc = int(os.environ.get("VERIF_NPROC", "0")) or (16 if ck.thorough else 8)
    rp.preload()
    check_universe()

    if os.environ.get("VERIF_REPLAY"):
        replay_file(ck, os.environ["VERIF_REPLAY"])
        return
    if ck.thorough:
        plans = [("A", 80, None), ("C", 80, None), ("E", 80, None), ("P", 80, None), ("Q", 100, 15000),
                 ("B", 120, 30000), ("M", 60, None), ("N", 60, 20000)]
        only_tlc = ["D", "O"]
    else:
        plans = [("A", 60, 2500), ("C", 60, 1000), ("E", 60, 1000), ("P", 60, 1000), ("M", 60, 1500)]
        only_tlc = []
    abstract_check(ck, "P")
    spec_selftest(ck)
    for conf, max_len, budget in plans:
        tour(ck, conf, max_len=max_len, io_budget=budget, nproc=nproc, rng=rng)
    for conf in only_tlc:
        explore(ck, conf, dump=False, light=True)
    from . import c11_aux

    c11_aux.run(ck, rng)
    ck.exhaustive = False
    ck.assumptions += [
        "values are identified by (key, name): Val(key, n) is turned into exactly representable floats/arrays; "
        "overwriting an output with a different value between exports and deletions are outside the property",
        "keys are numbered by order of first store (points are interchangeable); key 2 is an integer point",
        "another file read with update_from_hdf (HDFStoreMerge) was written by another Database object, at once or "
        "incrementally; it holds the same value as the working database for an output they share (no overwriting)",
        "the order of Python's sorted() on the output names is written once in HDFStore!Universe",
        "the raw-layout clause (ImplLayout) is stronger than the property: it binds HDFStoreImpl to the code so that "
        "the invariants TLC checks on the layout transfer to the files gemseo writes",
    ]
    # ---- specification growth (outside C11 as stated): maintenance operations + append exports, two files
    from ..growth import g02_db_maintenance

    g02_db_maintenance.run(ck)


if __name__ == "__main__":
    main("C11", run)
