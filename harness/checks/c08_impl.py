"""C08 - the implementation side: build real gemseo disciplines for a system printed by TLC
(DepGraph.tla, CASE records) and report what gemseo computes for it.  Nothing here decides
anything: the reports go back to TLC (DepGraphReport.tla)."""
from __future__ import annotations

import traceback

INT_LIMIT = 2 ** 31 - 1


def _dict(x):
    """A TLA+ function printed by TLC: record -> dict, function with an empty domain -> ()."""
    return dict(x) if x else {}


def case_from_tlc(v):
    """<<"CASE", code, system, expected>> as parsed by harness.tlaval -> plain python."""
    _, code, sy, ex = v
    n = sy["n"]
    code = dict(code)
    if code["fam"] == "E":
        jcode = {"fam": "E", "n": code["n"], "adj": sorted([list(e) for e in code["adj"]]),
                 "order": list(code["order"]), "priv": bool(code["priv"]), "dup": bool(code["dup"])}
    else:
        jcode = {"fam": "N", "n": code["n"], "ins": [sorted(s) for s in code["ins"]],
                 "outs": [sorted(s) for s in code["outs"]]}
    return {
        "code": jcode,
        "n": n,
        "name": [str(s) for s in sy["name"]],
        "ins": [sorted(s) for s in sy["ins"]],
        "outs": [sorted(s) for s in sy["outs"]],
        "w": [_dict(f) for f in sy["w"]],
        "c": [_dict(f) for f in sy["c"]],
        "x0": _dict(sy["x0"]),
        "consistent": bool(ex["consistent"]),
        "singletons": bool(ex["singletons"]),
        "acyclic": bool(ex["acyclic"]),
        "free": sorted(ex["free"]),
        "mono": _dict(ex["mono"]),
    }


_CLS = {}


def _flow_class():
    if "c" not in _CLS:
        from gemseo.core.discipline import Discipline
        from numpy import array

        class FlowDiscipline(Discipline):
            """out_v = sum_k w_k * in_k + c_v  (integers carried by doubles)."""

            def __init__(self, name, ins, outs, w, c, defaults, log=None, pos=0):
                super().__init__(name)
                self._log = log
                self._pos = pos
                self.input_grammar.update_from_names(ins)
                self.output_grammar.update_from_names(outs)
                self._w = w
                self._c = c
                self.default_input_data = {k: array([float(defaults[k])]) for k in ins if k in defaults}

            def _run(self, input_data):
                if self._log is not None:
                    self._log.append(self._pos)     # list.append is atomic: safe under the thread back-end
                s = 0.0
                for k, wk in self._w.items():
                    s += wk * input_data[k][0]
                return {o: array([s + co]) for o, co in self._c.items()}

        _CLS["c"] = FlowDiscipline
    return _CLS["c"]


def build(case, defaults, log=None):
    cls = _flow_class()
    return [cls(case["name"][p], case["ins"][p], case["outs"][p], case["w"][p], case["c"][p], defaults, log, p + 1)
            for p in range(case["n"])]


def _positions(ds):
    return {id(d): p + 1 for p, d in enumerate(ds)}


def _seq(seq, pos):
    return [[[pos.get(id(d), 0) for d in grp] for grp in stage] for stage in seq]


def _status(ex):
    return "raised:" + type(ex).__name__


def _data(out, names):
    """output data -> parallel lists of names and integer values (integral False when a value is not an
    integer representable by TLC)."""
    ns, vs, integral = [], [], True
    for k in names:
        if k not in out:
            continue
        a = out[k]
        try:
            ok = a.size == 1 and float(a.ravel()[0]).is_integer() and abs(float(a.ravel()[0])) < INT_LIMIT
        except Exception:  # noqa: BLE001
            ok = False
        if not ok:
            integral = False
            continue
        ns.append(k)
        vs.append(int(a.ravel()[0]))
    return ns, vs, integral


def observe(case, kinds):
    """Run the real code on one system.  kinds: the executions requested for it."""
    from gemseo.core.coupling_structure import CouplingStructure
    from gemseo.core.dependency_graph import DependencyGraph

    rep = {"code": case["code"], "status": "ok", "seq": [], "dgseq": [], "strong": [], "weak": [], "all": [],
           "scd": [], "wcd": [], "sgroups": [], "outc": [], "inc": [], "finder": [], "edges": [], "runs": [], "errors": {}}
    names = sorted(set().union(*case["ins"], *case["outs"])) if case["n"] else []
    try:
        ds = build(case, case["x0"])
        pos = _positions(ds)
        cs = CouplingStructure(ds)
        rep["seq"] = _seq(cs.sequence, pos)
        rep["dgseq"] = _seq(DependencyGraph(ds).get_execution_sequence(), pos)
        rep["strong"] = list(cs.strong_couplings)
        rep["weak"] = list(cs.weak_couplings)
        rep["all"] = list(cs.all_couplings)
        rep["scd"] = [pos.get(id(d), 0) for d in cs.strongly_coupled_disciplines]
        rep["wcd"] = [pos.get(id(d), 0) for d in cs.weakly_coupled_disciplines]
        rep["sgroups"] = [[pos.get(id(d), 0) for d in grp] for grp in cs.get_strongly_coupled_disciplines(by_group=True)]
        rep["outc"] = [[list(cs.get_output_couplings(d, strong=True)), list(cs.get_output_couplings(d, strong=False))]
                       for d in ds]
        rep["inc"] = [[list(cs.get_input_couplings(d, strong=True)), list(cs.get_input_couplings(d, strong=False))]
                      for d in ds]
        rep["edges"] = [[pos.get(id(a), 0), pos.get(id(b), 0), list(names_)]
                        for a, b, names_ in cs.graph.get_disciplines_couplings()]
        finder = []
        for v in [*names, "zz"]:
            try:
                finder.append([v, pos.get(id(cs.find_discipline(v)), 0)])
            except ValueError:
                finder.append([v, 0])
        rep["finder"] = finder
    except Exception as ex:  # noqa: BLE001
        rep["status"] = _status(ex)
        rep["errors"]["structure"] = traceback.format_exc(limit=8)
        return rep
    for kind in kinds:
        rep["runs"].append(run_kind(case, kind, names, rep))
    return rep


def run_kind(case, kind, names, rep):
    from gemseo.core.chains.chain import MDOChain
    from gemseo.core.chains.initialization_chain import MDOInitializationChain
    from gemseo.core.chains.parallel_chain import MDOParallelChain
    from gemseo.core.coupling_structure import CouplingStructure
    from gemseo.mda.mda_chain import MDAChain

    run = {"kind": kind, "status": "ok", "names": [], "vals": [], "integral": True, "order": [], "mdas": [],
           "log": [], "gin": [], "gout": []}
    log = run["log"]
    try:
        if kind.startswith("mdachain"):
            ds = build(case, case["x0"], log)
            pos = _positions(ds)
            # plain fixed-point iterations (no acceleration, no relaxation): on a nilpotent integer system
            # every iterate is an integer vector, the residual is 0 exactly at the fixed point and at
            # least 1/|r0| >> tolerance before, so the MDA returns the exact solution
            settings = {"tolerance": 1e-12, "max_mda_iter": 30,
                        "inner_mda_settings": {"acceleration_method": "NoTransformation",
                                               "over_relaxation_factor": 1.0}}
            if kind == "mdachain_gs":
                settings["inner_mda_name"] = "MDAGaussSeidel"
            if kind == "mdachain_par":
                settings["mdachain_parallelize_tasks"] = True
            mda = MDAChain(ds, **settings)
            run["mdas"] = [[pos.get(id(d), 0) for d in m.disciplines] for m in mda.inner_mdas]
            out = mda.execute()
        elif kind in ("chain", "parchain"):
            ds = build(case, case["x0"], log)
            pos = _positions(ds)
            seq = CouplingStructure(ds).sequence
            if kind == "chain":
                proc = MDOChain([d for stage in seq for grp in stage for d in grp])
                run["order"] = [pos.get(id(d), 0) for d in proc.disciplines]
                run["gin"] = list(proc.io.input_grammar)
                run["gout"] = list(proc.io.output_grammar)
            else:
                stages = []
                for stage in seq:
                    flat = [d for grp in stage for d in grp]
                    stages.append(flat[0] if len(flat) == 1 else MDOParallelChain(flat, use_threading=True))
                proc = MDOChain(stages)
            out = proc.execute()
        elif kind == "initchain":
            free = {k: case["x0"][k] for k in case["free"]}
            ds = build(case, free, log)
            pos = _positions(ds)
            proc = MDOInitializationChain(ds)
            run["order"] = [pos.get(id(d), 0) for d in proc.disciplines]
            out = proc.execute()
        else:
            raise KeyError(kind)
        run["names"], run["vals"], run["integral"] = _data(out, names)
        if not run["integral"]:
            rep["errors"][kind] = "non-integer output data: " + repr({k: out[k].tolist() for k in names if k in out})
    except Exception as ex:  # noqa: BLE001
        run["status"] = _status(ex)
        rep["errors"][kind] = traceback.format_exc(limit=8)
    return run


def warm_up():
    """Import what the replay needs (before the worker processes are forked)."""
    import gemseo.core.chains.chain  # noqa: F401
    import gemseo.core.chains.initialization_chain  # noqa: F401
    import gemseo.core.chains.parallel_chain  # noqa: F401
    import gemseo.core.coupling_structure  # noqa: F401
    import gemseo.mda.gauss_seidel  # noqa: F401
    import gemseo.mda.jacobi  # noqa: F401
    import gemseo.mda.mda_chain  # noqa: F401

    _flow_class()


def observe_many(args):
    """Pool entry point: a chunk of (id, case, kinds)."""
    import logging
    import warnings

    logging.disable(logging.CRITICAL)
    warnings.filterwarnings("ignore")
    out = []
    for rid, case, kinds in args:
        rep = observe(case, kinds)
        rep["id"] = rid
        out.append(rep)
    return out
