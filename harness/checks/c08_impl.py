"""C08 - the implementation side: build real gemseo disciplines for a system printed by TLC
(DepGraph.tla, CASE records) and report what gemseo computes for it.  Nothing here decides
anything: the reports go back to TLC (DepGraphReport.tla)."""
from __future__ import annotations

import traceback

INT_LIMIT = 2 ** 31 - 1


def _dict(x):
    """A TLA+ function printed by TLC: record -> dict, function with an empty domain -> ()."""
    return dict(x) if x else {}


def case_from_tlc(v):
    """<<"CASE", code, system, expected>> as parsed by harness.tlaval -> plain python."""
    _, code, sy, ex = v
    n = sy["n"]
    code = dict(code)
    if code["fam"] == "E":
        jcode = {"fam": "E", "n": code["n"], "adj": sorted([list(e) for e in code["adj"]]),
                 "order": list(code["order"]), "priv": bool(code["priv"]), "dup": bool(code["dup"])}
    else:
        jcode = {"fam": "N", "n": code["n"], "ins": [sorted(s) for s in code["ins"]],
                 "outs": [sorted(s) for s in code["outs"]]}
    return {
        "code": jcode,
        "n": n,
        "name": [str(s) for s in sy["name"]],
        "ins": [sorted(s) for s in sy["ins"]],
        "outs": [sorted(s) for s in sy["outs"]],
        "w": [_dict(f) for f in sy["w"]],
        "c": [_dict(f) for f in sy["c"]],
        "x0": _dict(sy["x0"]),
        "consistent": bool(ex["consistent"]),
        "singletons": bool(ex["singletons"]),
        "acyclic": bool(ex["acyclic"]),
        "free": sorted(ex["free"]),
        "guess": sorted(ex["guess"]),
        "sgroups": sorted(sorted(grp) for grp in ex["sgroups"]),
        "opts": sorted(({k: (bool(v) if isinstance(v, bool) else int(v) if isinstance(v, int) else str(v))
                         for k, v in dict(o).items()} for o in ex["opts"]),
                       key=lambda o: repr(sorted(o.items()))),
        "mono": _dict(ex["mono"]),
    }


_CLS = {}


def _flow_class():
    if "c" not in _CLS:
        from gemseo.core.discipline import Discipline
        from numpy import array

        class FlowDiscipline(Discipline):
            """out_v = sum_k w_k * in_k + c_v  (integers carried by doubles)."""

            def __init__(self, name, ins, outs, w, c, defaults, log=None, pos=0):
                super().__init__(name)
                self._log = log
                self._pos = pos
                self.input_grammar.update_from_names(ins)
                self.output_grammar.update_from_names(outs)
                self._w = w
                self._c = c
                self.default_input_data = {k: array([float(defaults[k])]) for k in ins if k in defaults}

            def _run(self, input_data):
                if self._log is not None:
                    self._log.append(self._pos)     # list.append is atomic: safe under the thread back-end
                s = 0.0
                for k, wk in self._w.items():
                    s += wk * input_data[k][0]
                return {o: array([s + co]) for o, co in self._c.items()}

            def _compute_jacobian(self, input_names=(), output_names=()):
                # d out_v / d in_k = w_k (needed by the Newton-type inner MDAs and by linearize())
                ins_, outs_ = self._init_jacobian(input_names, output_names)
                for o in outs_:
                    for k in ins_:
                        self.jac[o][k] = array([[float(self._w.get(k, 0))]])

        _CLS["c"] = FlowDiscipline
    return _CLS["c"]


def build(case, defaults, log=None):
    cls = _flow_class()
    return [cls(case["name"][p], case["ins"][p], case["outs"][p], case["w"][p], case["c"][p], defaults, log, p + 1)
            for p in range(case["n"])]


def _positions(ds):
    return {id(d): p + 1 for p, d in enumerate(ds)}


def _seq(seq, pos):
    return [[[pos.get(id(d), 0) for d in grp] for grp in stage] for stage in seq]


def _status(ex):
    return "raised:" + type(ex).__name__


def _data(out, names, atol=0.0):
    """output data -> parallel lists of names and integer values (integral False when a value is not an
    integer representable by TLC).  atol > 0 (inner MDAs that solve linear systems in floating point):
    a value within atol of an integer is transported as that integer."""
    ns, vs, integral = [], [], True
    for k in names:
        if k not in out:
            continue
        a = out[k]
        try:
            x = float(a.ravel()[0])
            if atol and abs(x - round(x)) <= atol:
                a = a.ravel()[:1].round()
            ok = a.size == 1 and float(a.ravel()[0]).is_integer() and abs(float(a.ravel()[0])) < INT_LIMIT
        except Exception:  # noqa: BLE001
            ok = False
        if not ok:
            integral = False
            continue
        ns.append(k)
        vs.append(int(a.ravel()[0]))
    return ns, vs, integral


def observe(case, kinds):
    """Run the real code on one system.  kinds: the executions requested for it."""
    from gemseo.core.coupling_structure import CouplingStructure
    from gemseo.core.dependency_graph import DependencyGraph

    rep = {"code": case["code"], "status": "ok", "seq": [], "dgseq": [], "strong": [], "weak": [], "all": [],
           "scd": [], "wcd": [], "sgroups": [], "outc": [], "inc": [], "finder": [], "edges": [], "runs": [], "errors": {}}
    names = sorted(set().union(*case["ins"], *case["outs"])) if case["n"] else []
    try:
        ds = build(case, case["x0"])
        pos = _positions(ds)
        cs = CouplingStructure(ds)
        rep["seq"] = _seq(cs.sequence, pos)
        rep["dgseq"] = _seq(DependencyGraph(ds).get_execution_sequence(), pos)
        rep["strong"] = list(cs.strong_couplings)
        rep["weak"] = list(cs.weak_couplings)
        rep["all"] = list(cs.all_couplings)
        rep["scd"] = [pos.get(id(d), 0) for d in cs.strongly_coupled_disciplines]
        rep["wcd"] = [pos.get(id(d), 0) for d in cs.weakly_coupled_disciplines]
        rep["sgroups"] = [[pos.get(id(d), 0) for d in grp] for grp in cs.get_strongly_coupled_disciplines(by_group=True)]
        rep["outc"] = [[list(cs.get_output_couplings(d, strong=True)), list(cs.get_output_couplings(d, strong=False))]
                       for d in ds]
        rep["inc"] = [[list(cs.get_input_couplings(d, strong=True)), list(cs.get_input_couplings(d, strong=False))]
                      for d in ds]
        rep["edges"] = [[pos.get(id(a), 0), pos.get(id(b), 0), list(names_)]
                        for a, b, names_ in cs.graph.get_disciplines_couplings()]
        finder = []
        for v in [*names, "zz"]:
            try:
                finder.append([v, pos.get(id(cs.find_discipline(v)), 0)])
            except ValueError:
                finder.append([v, 0])
        rep["finder"] = finder
    except Exception as ex:  # noqa: BLE001
        rep["status"] = _status(ex)
        rep["errors"]["structure"] = traceback.format_exc(limit=8)
        return rep
    for kind in kinds:
        if isinstance(kind, str):
            rep["runs"].append(run_kind(case, kind, names, rep))
        else:
            rep["runs"].append(run_option(case, kind[1], kind[2], names, rep))
    return rep


EXACT_INNER = ("MDAJacobi", "MDAGaussSeidel")   # plain fixed-point iterations: every iterate is an integer vector


def run_option(case, opt, idx, names, rep):
    """MDAChain under one option record chosen by TLC (SelectedOptions)."""
    from gemseo.core.coupling_structure import CouplingStructure
    from gemseo.mda.factory import MDAFactory
    from gemseo.mda.mda_chain import MDAChain

    tag = f"mdaopt#{idx}"
    run = {"kind": "mdaopt", "tag": tag, "opt": opt, "status": "ok", "names": [], "vals": [], "integral": True,
           "user": [], "mdas": [], "mdacs": [], "log": [], "rounded": opt["inner"] not in EXACT_INNER}
    log = run["log"]
    try:
        # init "guess": default values for the free names and the strong couplings only
        defaults = case["x0"] if opt["init"] != "guess" else {k: case["x0"][k] for k in case["guess"]}
        ds = build(case, defaults, log)
        pos = _positions(ds)
        fields = MDAFactory().get_class(opt["inner"]).Settings.model_fields
        inner = {}
        if "acceleration_method" in fields:
            inner["acceleration_method"] = "NoTransformation"
        if "over_relaxation_factor" in fields:
            inner["over_relaxation_factor"] = 1.0
        if "n_processes" in fields:
            inner["n_processes"] = opt["np"]
            inner["use_threading"] = True
        settings = {"tolerance": 1e-12, "max_mda_iter": 30, "inner_mda_name": opt["inner"],
                    "inner_mda_settings": inner, "chain_linearize": opt["lin"],
                    "mdachain_parallelize_tasks": opt["par"], "initialize_defaults": opt["init"] != "off",
                    "n_processes": opt["np"], "use_threading": True}
        if opt["par"]:
            settings["mdachain_parallel_settings"] = {"use_threading": True, "n_processes": opt["np"]}
        if opt["cs"] or opt["sub"] == "user":
            cs = CouplingStructure(ds)
            if opt["cs"]:
                settings["coupling_structure"] = cs
            if opt["sub"] == "user":
                # one structure per group that gets an inner MDA (the groups TLC names: case["sgroups"]),
                # in the order of the execution sequence the user sees
                need = {frozenset(grp) for grp in case["sgroups"]}
                groups = [grp for stage in cs.sequence for grp in stage
                          if frozenset(pos.get(id(d), 0) for d in grp) in need]
                settings["sub_coupling_structures"] = [CouplingStructure(list(grp)) for grp in groups]
                run["user"] = [[pos.get(id(d), 0) for d in grp] for grp in groups]
        mda = MDAChain(ds, **settings)
        run["mdas"] = [[pos.get(id(d), 0) for d in m.disciplines] for m in mda.inner_mdas]
        run["mdacs"] = [[pos.get(id(d), 0) for d in m.coupling_structure.disciplines] for m in mda.inner_mdas]
        out = mda.execute()
        run["names"], run["vals"], run["integral"] = _data(out, names, 1e-6 if run["rounded"] else 0.0)
        if not run["integral"]:
            rep["errors"][tag] = "non-integer output data: " + repr({k: out[k].tolist() for k in names if k in out})
    except Exception as ex:  # noqa: BLE001
        run["status"] = _status(ex)
        rep["errors"][tag] = traceback.format_exc(limit=8)
    return run


def run_kind(case, kind, names, rep):
    from gemseo.core.chains.chain import MDOChain
    from gemseo.core.chains.initialization_chain import MDOInitializationChain
    from gemseo.core.chains.parallel_chain import MDOParallelChain
    from gemseo.core.coupling_structure import CouplingStructure
    from gemseo.mda.mda_chain import MDAChain

    run = {"kind": kind, "status": "ok", "names": [], "vals": [], "integral": True, "order": [], "mdas": [],
           "log": [], "gin": [], "gout": []}
    log = run["log"]
    try:
        if kind.startswith("mdachain"):
            ds = build(case, case["x0"], log)
            pos = _positions(ds)
            # plain fixed-point iterations (no acceleration, no relaxation): on a nilpotent integer system
            # every iterate is an integer vector, the residual is 0 exactly at the fixed point and at
            # least 1/|r0| >> tolerance before, so the MDA returns the exact solution
            settings = {"tolerance": 1e-12, "max_mda_iter": 30,
                        "inner_mda_settings": {"acceleration_method": "NoTransformation",
                                               "over_relaxation_factor": 1.0}}
            if kind == "mdachain_gs":
                settings["inner_mda_name"] = "MDAGaussSeidel"
            if kind == "mdachain_par":
                settings["mdachain_parallelize_tasks"] = True
            mda = MDAChain(ds, **settings)
            run["mdas"] = [[pos.get(id(d), 0) for d in m.disciplines] for m in mda.inner_mdas]
            out = mda.execute()
        elif kind in ("chain", "parchain"):
            ds = build(case, case["x0"], log)
            pos = _positions(ds)
            seq = CouplingStructure(ds).sequence
            if kind == "chain":
                proc = MDOChain([d for stage in seq for grp in stage for d in grp])
                run["order"] = [pos.get(id(d), 0) for d in proc.disciplines]
                run["gin"] = list(proc.io.input_grammar)
                run["gout"] = list(proc.io.output_grammar)
            else:
                stages = []
                for stage in seq:
                    flat = [d for grp in stage for d in grp]
                    stages.append(flat[0] if len(flat) == 1 else MDOParallelChain(flat, use_threading=True))
                proc = MDOChain(stages)
            out = proc.execute()
        elif kind == "initchain":
            free = {k: case["x0"][k] for k in case["free"]}
            ds = build(case, free, log)
            pos = _positions(ds)
            proc = MDOInitializationChain(ds)
            run["order"] = [pos.get(id(d), 0) for d in proc.disciplines]
            out = proc.execute()
        else:
            raise KeyError(kind)
        run["names"], run["vals"], run["integral"] = _data(out, names)
        if not run["integral"]:
            rep["errors"][kind] = "non-integer output data: " + repr({k: out[k].tolist() for k in names if k in out})
    except Exception as ex:  # noqa: BLE001
        run["status"] = _status(ex)
        rep["errors"][kind] = traceback.format_exc(limit=8)
    return run


def warm_up():
    """Import what the replay needs (before the worker processes are forked)."""
    import gemseo.core.chains.chain  # noqa: F401
    import gemseo.core.chains.initialization_chain  # noqa: F401
    import gemseo.core.chains.parallel_chain  # noqa: F401
    import gemseo.core.coupling_structure  # noqa: F401
    import gemseo.mda.gauss_seidel  # noqa: F401
    import gemseo.mda.gs_newton  # noqa: F401
    import gemseo.mda.jacobi  # noqa: F401
    import gemseo.mda.newton_raphson  # noqa: F401
    import gemseo.mda.quasi_newton  # noqa: F401
    import gemseo.mda.mda_chain  # noqa: F401

    _flow_class()


def observe_many(args):
    """Pool entry point: a chunk of (id, case, kinds)."""
    import logging
    import warnings

    logging.disable(logging.CRITICAL)
    warnings.filterwarnings("ignore")
    out = []
    for rid, case, kinds in args:
        rep = observe(case, kinds)
        rep["id"] = rid
        out.append(rep)
    return out
