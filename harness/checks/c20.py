"""C20 - serialized disciplines, processes and problems behave like the originals.

Lifecycle.tla (two worlds of heap cells, Pickle = Project by value) is model-checked by TLC for every cache
configuration; its invariants are shown non-vacuous by refuting them on projections that share or drop one
attribute; the labelled state graph of the bounded model (prefix . Pickle . suffix) is dumped and replayed as a
transition tour on real gemseo objects built from the constructor catalogue (c20_catalog.py) x cache type x
grammar type, through pickle.dumps/loads, gemseo.utils.pickle.to_pickle/from_pickle, a round trip through
a second interpreter, and a restoration IN a second interpreter with another string-hash seed where the rest of
the behaviour is performed (c20_replay.py, c20_child.py).  Behaviours with several Pickles (generations:
restore - edit defaults / required names / settings - pickle again) come from the same module with MaxGen > 1.
The replays are distributed over forked worker processes.
"""
from __future__ import annotations

import os
import random
import sys
import time
from collections import Counter

from ..core import Check, Graph, MachineryError, main
from . import c20_catalog as cat
from . import c20_replay as rp

INVS = ["TypeOK", "LastEntryByValue", "SameBehaviour", "SameState", "CountersByValue", "NoSharing", "StaysAttached",
        "OrigOwnsCell1"]
ACTIONS = ("Execute", "Linearize", "SetDefault", "SetSetting", "SetCache", "ClearCache", "Pickle")
EDITS = ("DelDefault", "ClearDefaults", "Unrequire")
METHODS = ("dumps", "file", "spawn", "session")
N_WORKERS = 4

# configurations of Lifecycle.tla (AllConfigs): name -> FileMode
CONFIGS = {"simple": "shared", "mem": "shared", "hdf-snapshot": "snapshot", "hdf-shared": "shared",
           "jacinrun": "shared", "jacinrun-hdf": "snapshot", "stateful": "shared", "nocache": "shared", "db": "shared"}


def log(msg):
    if os.environ.get("C20_DEBUG"):
        print(msg, file=sys.stderr, flush=True)


def tla_set(items):
    return "{" + ", ".join(f'"{n}"' for n in items) + "}"


def cfg(names, pre, suf, *, shared="{}", dropped="{}", methods=METHODS, props=True, has_default=True,
        last_from_newest=False, gens=1, mid=0, acts=ACTIONS[:6], last_acts=None, resurrect=False):
    s = ("CONSTANTS X = {1, 2}\n DV = {0, 1}\n"
         " ConfNames = " + tla_set(names) + "\n"
         f" HasDefault = {'TRUE' if has_default else 'FALSE'}\n"
         f" MaxPre = {pre}\n MaxSuf = {suf}\n MaxGen = {gens}\n MaxMid = {mid}\n"
         " Methods = " + tla_set(methods) + "\n"
         " ActNames = " + tla_set(acts) + "\n LastActNames = " + tla_set(last_acts or acts) + "\n"
         ' ClearHows = {"clear", "assign"}\n'
         f" Resurrect = {'TRUE' if resurrect else 'FALSE'}\n"
         f" Shared = {shared}\n Dropped = {dropped}\n LastFromNewest = {'TRUE' if last_from_newest else 'FALSE'}\n"
         "SPECIFICATION Spec\nCHECK_DEADLOCK FALSE\n")
    for i in INVS:
        s += f"INVARIANT {i}\n"
    if props:
        s += "PROPERTY NoSharingProp\n"
    return s


class SubGraph:
    """The part of a dumped graph that uses only some actions (a class without a defaulted input never takes
    SetDefault, one without derivatives never takes Linearize): disabling an action removes edges only."""

    def __init__(self, g: Graph, conf, banned=()):
        self.states = g.states
        self.init = [i for i in g.init if g.states[i]["conf"]["name"] == conf]
        # (TLC's dump repeats an edge once per way of generating it: a tour over the repeats replays twice)
        edges = list({(e[0], e[1], e[2], e[3]): e for e in g.edges
                      if e[2] not in banned and g.states[e[0]]["conf"]["name"] == conf}.values())
        succ = {}
        for s, d, a, args in edges:
            succ.setdefault(s, []).append(d)
        seen, todo = set(self.init), list(self.init)
        while todo:
            for d in succ.get(todo.pop(), ()):
                if d not in seen:
                    seen.add(d)
                    todo.append(d)
        # canonical edge order (TLC's dump order and state ids change from run to run): the tour, and hence
        # the sample of behaviours replayed for a given VERIF_SEED, must not depend on them
        keys = g.__dict__.setdefault("_c20_keys", {})

        def skey(sid):
            if sid not in keys:
                keys[sid] = repr(sorted(g.states[sid].items()))
            return keys[sid]

        self.init = sorted(self.init, key=skey)
        self.edges = sorted((e for e in edges if e[0] in seen), key=lambda e: (skey(e[0]), e[2], repr(e[3])))
        self.out = {}
        for k, (s, d, a, args) in enumerate(self.edges):
            self.out.setdefault(s, []).append(k)

    bfs_tree = Graph.bfs_tree
    path_to = Graph.path_to
    tour = Graph.tour


def has_pickle(g, path):
    return any(g.edges[k][2] == "Pickle" for k in path)


def n_pickles(g, path):
    return sum(1 for k in path if g.edges[k][2] == "Pickle")


def two_generations(g, path):
    return n_pickles(g, path) >= 2


def older_last(g, path):
    """The behaviour pickles a cache whose last written entry is not its newest one."""
    for k in path:
        if g.edges[k][2] == "Pickle":
            st = g.states[g.edges[k][0]]
            c = st["cache"][0]
            e = st["files"][c["file"] - 1] if c["kind"] == "hdf" else c   # where the entries are
            return c["hasLast"] and e["hasNew"] and tuple(c["last"]) != tuple(e["newest"])
    return False


def shape(g, path):
    """Stratum of a behaviour: the actions of the restored object between the first and the last Pickle, and
    what the last Pickle carries in the grammar cell (sampling takes every stratum in turn)."""
    ks = [i for i, k in enumerate(path) if g.edges[k][2] == "Pickle"]
    if len(ks) < 2:
        return ()
    gr = g.states[g.edges[path[ks[-1]]][1]]["gram"][0]
    return (tuple(g.edges[k][2] for k in path[ks[0] + 1:ks[-1]] if g.edges[k][2] != "Pickle"),
            gr["has"], gr["req"], gr["rest"])


SELECT = {"older_last": older_last, "two_generations": two_generations, None: None}


def with_method(g, path, how):
    """The isomorphic path that pickles with another method: Pickle(m) has the same effect for every m, the
    graph holds one Pickle edge per method from the same state; follow the same action labels from there."""
    out = []
    cur = None
    for k in path:
        s, d, a, args = g.edges[k]
        if cur is None and a != "Pickle":
            out.append(k)
            continue
        if a == "Pickle":
            alt = [j for j in g.out.get(s, ()) if g.edges[j][2] == "Pickle" and g.edges[j][3][0] == how]
            if not alt:
                return path
            out.append(alt[0])
            cur = g.edges[alt[0]][1]
            continue
        nxt = [j for j in g.out.get(cur, ()) if g.edges[j][2] == a and g.edges[j][3] == args]
        if not nxt:
            return path
        out.append(nxt[0])
        cur = g.edges[nxt[0]][1]
    return out


# ------------------------------------------------------------------ replay jobs (run in forked workers)
_CTX = {}      # set by run() before the workers are forked: ck, graph_of, entries
_LOCAL = {}    # per worker process: interpreters, tours, work directory


def _local(ck):
    if _LOCAL.get("pid") != os.getpid():
        _LOCAL.clear()
        _LOCAL.update(pid=os.getpid(), child=rp.Children(), tours={}, work=ck.work / f"w{os.getpid()}")
        _LOCAL["work"].mkdir(parents=True, exist_ok=True)
        cat.WORK = str(_LOCAL["work"])
    return _LOCAL


def tour_of(conf, banned):
    loc = _local(_CTX["ck"])
    key = (conf, tuple(sorted(banned)))
    if key not in loc["tours"]:
        gsrc, name = _CTX["graph_of"][conf]
        g = SubGraph(gsrc, name, banned)
        loc["tours"][key] = (g, g.tour())
    return loc["tours"][key]


def run_job(job):
    """One slot of the replay plan: class x grammar type x configuration, the whole tour or a seeded sample of the
    behaviours that reach Pickle (among those satisfying `select`, stratified by `shape` for the generations)."""
    ck = _CTX["ck"]
    loc = _local(ck)
    entry = next(e for e in _CTX["entries"] if e.name == job["entry"])
    gt, conf, n_max, select = job["gt"], job["conf"], job["n"], SELECT[job.get("select")]
    chunk, n_chunks = job.get("chunk", (0, 1))
    # what this job adds to the check is sent back as a delta
    v0, o0, t0, s0 = len(ck.violations), len(ck.observations), ck.traces, len(ck.samples)
    k0 = dict(ck.known_hits)
    res = {"job": job, "report": None, "pickles": {}, "gen_pickles": {}, "probes": 0, "outside": [], "paths": 0,
           "exhaustive": None, "remote_steps": 0, "expected_errors": 0, "log": ""}
    t_start = time.time()

    def done():
        res.update(violations=ck.violations[v0:], observations=ck.observations[o0:], traces=ck.traces - t0,
                   samples=ck.samples[s0:],
                   known={k: v - k0.get(k, 0) for k, v in ck.known_hits.items() if v != k0.get(k, 0)})
        return res

    banned = set()
    if not entry.has_jac:
        banned.add("Linearize")
    ad = rp.ADAPTERS[entry.adapter](entry, gt, loc["work"])
    banned.update(ad.banned)
    try:
        ad.fresh()  # binds the abstract inputs to real names / values
    except Exception as ex:  # noqa: BLE001
        res["report"] = f"not built: {type(ex).__name__}: {str(ex)[:80]}"
        return done()
    if entry.pname is None:
        banned.update(("SetDefault",) + EDITS)
    g, paths = tour_of(conf, banned)
    fm = CONFIGS[_CTX["graph_of"][conf][1]]
    r = rp.Replayer(ck, ad, g, config=conf, file_mode=fm, child=loc["child"])
    gens = conf.startswith("gen")
    if n_max is None and select is None:
        chosen = [i for i in range(len(paths)) if i % n_chunks == chunk]
    else:
        withp = [i for i, p in enumerate(paths) if has_pickle(g, p) and (select is None or select(g, p))]
        if n_max is None:
            n_max = len(withp)
        rng = random.Random(f"{ck.seed}/{entry.name}/{gt}/{conf}")
        rng.shuffle(withp)
        if gens:
            # every stratum (edits between the two Pickles x what the second Pickle carries) in turn
            strata = {}
            for i in withp:
                strata.setdefault(shape(g, paths[i]), []).append(i)
            keys = sorted(strata, key=repr)
            rng.shuffle(keys)
            withp = [strata[k][j] for j in range(max(map(len, strata.values()), default=0)) for k in keys
                     if j < len(strata[k])]
        chosen = sorted(withp[:n_max])
    done_n = bad = 0
    for j, i in enumerate(chosen):
        if gens:
            # the graph of the generations is dumped for one method: Pickle(m) is the same step for every m
            m = (i + j) % (len(METHODS) ** 2)
            path, hows = paths[i], [METHODS[m % len(METHODS)], METHODS[m // len(METHODS)]] + list(METHODS)
        else:
            path, hows = with_method(g, paths[i], METHODS[(i + j) % len(METHODS)]), None
        ok = r.run(path, hows)
        done_n += 1
        bad += 0 if ok else 1
        if done_n <= 1 and entry.name in ("Sellar1", "AnalyticDiscipline", "JSONGrammar"):
            ck.sample({"class": entry.name, "grammar": gt, "config": conf,
                       "behaviour": [[g.edges[k][2], list(g.edges[k][3])] for k in path]}, limit=10 ** 6)
    ck.traces += done_n
    res.update(paths=done_n, pickles=r.pickles, gen_pickles=r.gen_pickles, probes=r.probes,
               outside=[dict(rec, grammar=gt) for rec in r.outside.values()],
               remote_steps=r.remote_steps, expected_errors=r.expected_errors,
               report={"behaviours": done_n, "of_tour": len(paths), "steps": r.steps, "stopped_by_violation": bad})
    if n_max is None and select is None:
        res["exhaustive"] = f"{entry.name}/{gt}/{conf}"
    res["log"] = f"{entry.name} {gt} {conf}: {done_n} behaviours, {r.steps} steps, {bad} stopped, {time.time() - t_start:.0f}s"
    return done()


def _run_indexed(i):
    return run_job(_CTX["jobs"][i])


def _close_worker(_):
    if _LOCAL.get("pid") == os.getpid() and _LOCAL.get("child") is not None:
        _LOCAL["child"].close()
    time.sleep(0.2)
    return os.getpid()


def run(ck: Check):
    ck.max_report = 12
    t_start = time.time()
    # TLC runs that do not depend on each other are made 4 at a time (threads; one sub-directory each)
    from concurrent.futures import ThreadPoolExecutor

    T = ck.thorough
    tasks = []   # (key, function of no argument)

    # ---- 1. the invariants are not vacuous: a projection that shares / drops one attribute is refuted
    expect_shared = {"cache": "NoSharing", "ctr": "CountersByValue", "gram": "NoSharing", "data": "NoSharing",
                     "sett": "NoSharing"}
    muts = [(a, m) for a in ("cache", "ctr", "gram", "data", "sett") for m in ("shared", "dropped")]
    if not T:
        muts = [("cache", "shared"), ("ctr", "shared"), ("gram", "dropped"), ("ctr", "dropped")]

    def refute(tag, text, want, must_hold=False):
        def task():
            r = ck.tlc("Lifecycle", text, workers=1, timeout=600, count=False, coverage=False, expect_ok=False, tag=tag)
            if must_hold:
                if r.violated:
                    raise MachineryError(f"Lifecycle [{tag}] should hold, TLC reported {r.violated}")
            elif not r.violated or (want and r.violated not in want):
                raise MachineryError(f"Lifecycle [{tag}] should be refuted ({want or 'SameBehaviour/...'}) "
                                     f"but TLC reported {r.violated}")
            return r.violated
        tasks.append((("refuted", tag), task))

    for a, mode in muts:
        refute(f"{mode}-{a}", cfg(["mem", "hdf-shared"], 2, 1, props=False, methods=("dumps",), **{mode: '{"%s"}' % a}),
               (expect_shared[a],) if mode == "shared" else None)
    # ... and a projection that restores "the newest entry" as the last entry of the cache (history needed:
    # execute(x1); execute(x2); linearize(x1); pickle - prefix depth 3)
    refute("last-from-newest", cfg(["mem"], 3, 0, props=False, methods=("dumps",), last_from_newest=True),
           ("LastEntryByValue",))
    # ... and a projection under which a grammar restored WITHOUT defaults takes those of the pickle it came from:
    # indistinguishable with one Pickle (must hold), refuted as soon as a restored object is pickled again
    gen_acts = ACTIONS[:4] + EDITS
    refute("resurrected-defaults-1-generation",
           cfg(["nocache"], 1, 0, props=False, methods=("dumps",), acts=gen_acts, resurrect=True), None, must_hold=True)
    refute("resurrected-defaults-2-generations",
           cfg(["nocache"], 1, 0, props=False, methods=("dumps",), acts=gen_acts, resurrect=True, gens=2, mid=1),
           ("SameBehaviour", "SameState"))

    # ---- 2. exhaustive model checking + labelled graph, every configuration an initial state
    if T:
        groups = [(["simple", "mem"], 2, 2), (["hdf-snapshot", "hdf-shared"], 2, 2),
                  (["jacinrun", "jacinrun-hdf", "nocache", "db"], 2, 2),
                  (["stateful"], 3, 2), (["mem"], 3, 1, "mem-p3"), (["hdf-snapshot"], 3, 0, "hdf-p3")]
    else:
        # mem-p3: prefixes of depth 3 (Pickle is the last step): the shortest history after which the last
        # written entry of a keep-everything cache is not its newest one
        groups = [(["simple", "mem", "hdf-snapshot", "hdf-shared", "jacinrun", "stateful", "nocache", "db"], 2, 1),
                  (["mem"], 3, 0, "mem-p3"), (["hdf-snapshot"], 3, 0, "hdf-p3")]
    graph_of = {}
    ck.extra["graphs"] = []

    def dump(names, text, keys, require, what):
        tag = "dump-" + "-".join(keys).replace(":", "_")

        def task():
            r = ck.tlc("Lifecycle", text, workers=2, timeout=900, dump=True, require_actions=require, tag=tag, count=False)
            dot = ck.work / tag / "Lifecycle.dot"
            g = Graph(dot)
            dot.unlink()
            log(f"graph {keys}: {len(g.states)} states {len(g.edges)} edges {time.time() - t_start:.0f}s")
            return r, g, dict(what, configs=names, states=len(g.states), edges=len(g.edges))
        tasks.append((("graph", tuple(zip(names, keys))), task))

    for names, p_, s_, *key in groups:
        dump(names, cfg(names, p_, s_), [key[0]] if key else names,
             ACTIONS if "simple" in names else ACTIONS[:4] + ("Pickle",), {"MaxPre": p_, "MaxSuf": s_, "MaxGen": 1})
    # generations: prefix . Pickle . edits of the restored object . Pickle [. edits . Pickle] . observation
    #   (dumped for one method: the methods of the successive Pickles are assigned in rotation by the replay)
    obs = ("Execute", "Linearize")
    gen_groups = [(["simple", "nocache"], True, ACTIONS[:6] + EDITS, 1, 2, 2),
                  (["db", "stateful"], False, ACTIONS[:6], 1, 2, 2)]
    if T:
        gen_groups += [(["simple", "nocache"], True, ACTIONS[:4] + EDITS, 1, 1, 3, "3"),
                       (["mem", "jacinrun"], True, ACTIONS[:6] + EDITS, 1, 2, 2)]
    for names, hd, acts, p_, m_, g_, *suffix in gen_groups:
        dump(names, cfg(names, p_, 1, methods=("dumps",), has_default=hd, gens=g_, mid=m_, acts=acts, last_acts=obs),
             [f"gen{suffix[0] if suffix else ''}:{n}" for n in names],
             (("Execute", "SetSetting", "Pickle") + (EDITS + ("SetDefault",) if hd else ())),
             {"MaxPre": p_, "MaxMid": m_, "MaxSuf": 1, "MaxGen": g_})
    # the largest graphs first
    tasks.sort(key=lambda t: 0 if t[0][0] == "graph" else 1)
    with ThreadPoolExecutor(4) as pool:
        outcomes = list(pool.map(lambda t: t[1](), tasks))
    refuted = {}
    for (key, _), out in zip(tasks, outcomes):
        if key[0] == "refuted":
            if out:
                refuted[key[1]] = out
        else:
            r, g, what = out
            ck.states += r.distinct
            ck.transitions += r.generated
            for n, k in key[1]:
                graph_of[k] = (g, n)
            ck.extra["graphs"].append(what)
    ck.extra["spec_mutations_refuted"] = refuted
    log(f"TLC done {time.time() - t_start:.0f}s")
    if T:
        # deeper, without the dump
        ck.extra["deep_runs"] = []
        for group, s_ in ((["simple", "stateful", "nocache"], 3), (["mem"], 3), (["hdf-shared"], 3),
                          (["hdf-snapshot", "jacinrun", "jacinrun-hdf", "db"], 2)):
            try:
                r = ck.tlc("Lifecycle", cfg(group, 3, s_, methods=("dumps",)), workers=4, timeout=420,
                           require_actions=ACTIONS[:4])
            except MachineryError as ex:
                if "timed out" not in str(ex) or s_ == 2:
                    raise
                # a loaded machine: the (3,3) bound does not fit in the time allowed to one TLC run; say so
                # and check the next smaller bound instead
                ck.extra["deep_runs"].append({"configs": group, "MaxPre": 3, "MaxSuf": s_, "result": "timed out"})
                s_ = 2
                r = ck.tlc("Lifecycle", cfg(group, 3, s_, methods=("dumps",)), workers=4, timeout=900,
                           require_actions=ACTIONS[:4])
            ck.extra["deep_runs"].append({"configs": group, "MaxPre": 3, "MaxSuf": s_, "distinct": r.distinct})
            log(f"deep {group} (3,{s_}) {time.time() - t_start:.0f}s")
        # three generations with every edit, without the dump
        r = ck.tlc("Lifecycle", cfg(["simple", "nocache"], 1, 1, methods=("dumps",), gens=3, mid=2,
                                     acts=ACTIONS[:6] + EDITS, last_acts=obs), workers=4, timeout=900,
                   require_actions=EDITS)
        ck.extra["deep_runs"].append({"configs": ["simple", "nocache"], "MaxGen": 3, "MaxMid": 2, "distinct": r.distinct})

    # ---- 3. replay on the real objects: the plan
    entries = cat.catalogue()
    jobs = []

    def replay(entry, gt, conf, n_max=None, select=None, chunks=1):
        for c in range(chunks):
            jobs.append({"entry": entry.name, "gt": gt, "conf": conf, "n": n_max, "select": select,
                         "chunk": (c, chunks)})

    def named(name):
        return next(e for e in entries if e.name == name)

    # 3a. the core class: the whole transition tour where affordable, a large sample elsewhere
    #     (every full cache costs a round trip to the multiprocessing manager: mem / hdf are slow)
    core = named("Sellar1")
    replay(core, cat.JSON, "simple", None, chunks=2 * N_WORKERS)
    replay(core, cat.JSON, "hdf-snapshot", 1500 if T else 150)
    replay(core, cat.JSON, "hdf-shared", 1000 if T else 120)
    replay(core, cat.JSON, "mem", 300 if T else 40)
    # every depth-3 history that leaves the last written entry of the memory cache older than its newest one
    replay(core, cat.JSON, "mem-p3", 400 if T else None, select="older_last")
    # the same histories with an HDF5Cache (finding D2003)
    replay(core, cat.JSON, "hdf-p3", 60 if T else 6, select="older_last")
    for name in ("MDAGaussSeidel", "AnalyticDiscipline", "MDOChain"):
        replay(named(name), cat.JSON, "mem-p3", 24 if T else 8, select="older_last")
    replay(core, cat.SIMPLE, "simple", None if T else 300, chunks=N_WORKERS if T else 1)
    if T:
        replay(core, cat.SIMPLE, "hdf-snapshot", 600)
    # 3a'. generations on the core classes and on bare grammars of every grammar class
    replay(core, cat.JSON, "gen:simple", 600 if T else 150, select="two_generations")
    replay(core, cat.SIMPLE, "gen:simple", 200 if T else 40, select="two_generations")
    replay(named("AnalyticDiscipline"), cat.JSON, "gen:simple", 300 if T else 60, select="two_generations")
    for e in entries:
        if e.adapter == "grammar":
            replay(e, cat.JSON, "gen:nocache", 200 if T else 40, select="two_generations")
            replay(e, cat.JSON, "nocache", 40 if T else 12)
    if T:
        replay(core, cat.JSON, "gen3:simple", 400, select="two_generations")
        replay(named("JSONGrammar"), cat.JSON, "gen3:nocache", 300, select="two_generations")
        replay(core, cat.JSON, "gen:mem", 60, select="two_generations")
    # 3b. every class of the catalogue x cache type x grammar type: a sample of the tour, of one and of two generations
    rest = [e for e in entries if e is not core and e.adapter != "grammar"]
    for e in rest:
        for gt in e.grammars:
            if e.stateful:
                confs = ["stateful"]
            elif e.adapter == "problem":
                confs = ["db"]
            elif e.adapter in ("function", "space") or e.caches == ("none",):
                confs = ["nocache"]
            elif e.jac_in_run:
                confs = ["jacinrun"] + (["jacinrun-hdf"] if T else [])
            else:
                confs = [c for c, kind in (("simple", "simple"), ("mem", "mem"), ("hdf-snapshot", "hdf")) if kind in e.caches]
            for conf in confs:
                n = {"simple": 6, "stateful": 8, "jacinrun": 6, "jacinrun-hdf": 3, "hdf-snapshot": 3, "mem": 1,
                     "nocache": 12, "db": 30}[conf]
                if T:
                    n *= 4
                if e.name == "AnalyticDiscipline" or e.name.startswith("Sobieski"):
                    n *= 4 if e.name == "AnalyticDiscipline" else 2   # classes with their own exclusion list / __setstate__
                replay(e, gt, conf, max(1, n // e.cost))
            gconf = {"stateful": "gen:stateful", "db": "gen:db", "nocache": "gen:nocache",
                     "jacinrun": "gen:jacinrun"}.get(confs[0], "gen:simple")
            if e.name != "AnalyticDiscipline" and (gconf != "gen:simple" or "simple" in e.caches) and gconf in graph_of:
                n = {"gen:simple": 4, "gen:nocache": 6, "gen:db": 30, "gen:stateful": 4, "gen:jacinrun": 4}[gconf] * (4 if T else 1)
                replay(e, gt, gconf, max(1, n // e.cost), select="two_generations")
    # 3c. shared file on a few other classes (attachment clause / D11)
    for e in [x for x in rest if x.name in ("MDOChain", "MDAGaussSeidel", "AnalyticDiscipline")]:
        replay(e, cat.JSON, "hdf-shared", 40 if T else 4)

    # ---- 3'. ... and its execution by forked workers (each with its own interpreters and work directory)
    import multiprocessing
    from concurrent.futures import ProcessPoolExecutor

    _CTX.update(ck=ck, graph_of=graph_of, entries=entries, jobs=jobs)
    log(f"{len(jobs)} replay jobs, {time.time() - t_start:.0f}s")
    nw = int(os.environ.get("C20_WORKERS", N_WORKERS))
    if nw <= 1:
        results = [run_job(j) for j in jobs]
        _close_worker(0)
    else:
        # long jobs first; results are merged in plan order
        order = sorted(range(len(jobs)), key=lambda i: -(jobs[i]["n"] or 10 ** 6) * next(
            e.cost for e in entries if e.name == jobs[i]["entry"]))
        with ProcessPoolExecutor(max_workers=nw, mp_context=multiprocessing.get_context("fork")) as pool:
            got = dict(zip(order, pool.map(_run_indexed, order)))
            list(pool.map(_close_worker, range(4 * nw)))
        results = [got[i] for i in range(len(jobs))]

    report = {}
    pickles = Counter()
    gen_pickles = Counter()
    outside = []
    exhaustive_done = []
    probes = remote_steps = expected_errors = n_paths_total = 0
    for res in results:
        job = res["job"]
        slot = f"{job['gt']}/{job['conf']}"
        cur = report.setdefault(job["entry"], {}).get(slot)
        if isinstance(cur, dict) and isinstance(res["report"], dict):
            for k in ("behaviours", "steps", "stopped_by_violation"):
                cur[k] += res["report"][k]
        else:
            report[job["entry"]][slot] = res["report"]
        ck.violations += res["violations"]
        ck.observations += res["observations"]
        ck.traces += res["traces"]
        for smp in res["samples"]:
            ck.sample(smp, limit=8)
        for k, v in res["known"].items():
            ck.known_hits[k] = ck.known_hits.get(k, 0) + v
        pickles.update(res["pickles"])
        gen_pickles.update(res["gen_pickles"])
        probes += res["probes"]
        remote_steps += res["remote_steps"]
        expected_errors += res["expected_errors"]
        n_paths_total += res["paths"]
        outside += res["outside"]
        if res["exhaustive"] and res["exhaustive"] not in exhaustive_done:
            exhaustive_done.append(res["exhaustive"])
        if res["log"]:
            log(res["log"])
    log(f"replays done {time.time() - t_start:.0f}s")

    ck.exhaustive = False
    ck.extra["exhaustive_tours"] = exhaustive_done
    built = sorted(n for n, r in report.items() if any(isinstance(v, dict) for v in r.values()))
    ck.extra["classes_instantiated"] = built
    skipped = dict(cat.SKIPPED)
    for n, r in report.items():
        for slot, v in r.items():
            if isinstance(v, str):
                skipped[f"{n} [{slot}]"] = v
    try:
        from gemseo.disciplines.factory import DisciplineFactory
        from gemseo.mda.factory import MDAFactory

        fact = set(DisciplineFactory().class_names) | set(MDAFactory().class_names)
        for n in sorted(fact - set(report) - set(skipped)):
            skipped[n] = "no constructor in the catalogue"
        ck.extra["factory_classes"] = {"total": len(fact), "instantiated": len(fact & set(built)),
                                       "skipped": sorted(fact - set(built))}
    except Exception as ex:  # noqa: BLE001
        ck.extra["factory_classes"] = f"factories not available: {ex}"
    ck.extra["classes_skipped"] = skipped
    ck.extra["grammar_type_not_settable"] = sorted(e.name for e in entries if e.adapter == "disc" and len(e.grammars) == 1)
    ck.extra["per_class"] = report
    ck.extra["executions_in_child_process"] = probes
    ck.extra["actions_performed_in_another_interpreter"] = remote_steps
    ck.extra["calls_refused_as_specified"] = expected_errors
    ck.extra["replay_workers"] = nw
    # deviations from the model that a never-pickled twin shows as well (not C20 matters; see Replayer.twin_agrees)
    ck.extra["not_due_to_serialization"] = outside[:60]
    ck.extra["pickles_by_cache_moment_method"] = {"/".join(k): v for k, v in sorted(pickles.items())}
    ck.extra["pickles_by_generation_method_route"] = {"/".join(map(str, k)): v for k, v in sorted(gen_pickles.items())}
    ck.assumptions += [
        "HDF5Cache behavioural equivalence is replayed with the copy attached to a byte copy of the file taken at "
        "pickling time (FileMode=snapshot); the shared-file configuration is replayed separately (finding D11)",
        "ClearCache on an HDF5 node that was never written is not taken (HDF5Cache.clear raises KeyError: D13, "
        "outside this property)",
        "values of output/Jacobian labels are those of a never-pickled cache-less instance of the same class",
        "generations > 1 are replayed without file-backed caches; the graph of the generations is dumped for one "
        "pickling method and the methods of the successive Pickles are assigned in rotation (Pickle(m) is the same "
        "step of Lifecycle.tla for every m)",
        "an input that is neither x nor p and whose default was removed by ClearDefaults is supplied by the caller "
        "at its constructor value",
    ]
    if not pickles and not ck.violations and not ck.known_hits:
        raise MachineryError("no behaviour reached Pickle")
    clean = not ck.violations
    if clean and not any(k[0] >= 2 for k in gen_pickles):
        raise MachineryError("vacuity: no restored object was pickled again")
    if clean and not remote_steps:
        raise MachineryError("vacuity: no action was performed in another interpreter")
    if clean and not expected_errors:
        raise MachineryError("vacuity: no call was refused for a missing required input")
    # ---- specification growth (outside C20 as stated): execution status automaton, observers and
    # execution statistics of monitored processes (ExecStatus*.tla)
    from ..growth import g01_exec_status

    g01_exec_status.run(ck)


if __name__ == "__main__":
    main("C20", run)
